#!/usr/bin/env python3
"""Adds the coordinator's own record to every seeded/<id>/meta.json: what was run against the change and with which result."""
import glob, json, os, re
ROOT = os.path.dirname(os.path.dirname(os.path.abspath(__file__)))
for d in sorted(glob.glob(os.path.join(ROOT, "seeded", "*"))):
    mp = os.path.join(d, "meta.json")
    if not os.path.exists(mp):
        continue
    try:
        m = json.load(open(mp))
    except Exception:
        m = {"raw_meta_unparsed": open(mp).read()}
    conf = open(os.path.join(d, "confirm.txt")).read().strip().splitlines() if os.path.exists(os.path.join(d, "confirm.txt")) else []
    caught = sorted(os.listdir(os.path.join(d, "caught_by"))) if os.path.isdir(os.path.join(d, "caught_by")) else []
    checks = []
    for f in caught:
        mm = re.match(r"(C\d+)-(quick|thorough)(\.MISSED)?\.log$", f)
        if mm:
            checks.append({"check": "./vf check %s --tier %s (patch applied to a scratch copy of /repo by tools/seeded_check.sh)" % (mm.group(1), mm.group(2)),
                           "result": "MISSED" if mm.group(3) else "CAUGHT (exit 1 with VIOLATION lines)", "log": "caught_by/" + f})
    m["coordinator_record"] = {
        "independent_confirmation": {"tool": "tools/confirm_seeded.sh (scratch worktree: demo on unchanged tree, build + full ctest with the patch, demo with the patch)",
                                     "outcome": conf[-1] if conf else "not run", "details": conf},
        "checks_run_against_it": checks,
        "witness_replays": [f for f in caught if not f.endswith(".log")],
    }
    json.dump(m, open(mp, "w"), indent=1)
    print(os.path.basename(d), conf[-1] if conf else "-", [c["result"][:6] for c in checks])
