#!/bin/bash
# Independent confirmation of a seeded change in a scratch worktree of /repo (never in /repo itself):
#   1. the demo passes on the unchanged tree, 2. the patch applies, the library and the whole test suite build,
#   3. the existing test suite passes with the patch, 4. the demo fails with the patch.
# usage: tools/confirm_seeded.sh <seeded/<id> dir> [worktree=/tmp/confirm-wt]
set -u
S=$(realpath "$1"); WT=${2:-/tmp/confirm-wt}; J=${J:-12}
if [ ! -d "$WT/.git" ] && [ ! -f "$WT/.git" ]; then git -C /repo worktree add -q "$WT" HEAD || exit 2; fi
git -C "$WT" checkout -q --detach "$(git -C /repo rev-parse HEAD)" && git -C "$WT" checkout -q -- . || exit 2
if [ ! -f "$WT/_build/build.ninja" ]; then
  cmake -G Ninja -S "$WT" -B "$WT/_build" -DCMAKE_BUILD_TYPE=RelWithDebInfo -DCMAKE_CXX_FLAGS=-Wno-error -DBUILD_TESTING=ON -DCMAKE_GTEST_DISCOVER_TESTS_DISCOVERY_MODE=PRE_TEST > "$WT/_cfg.log" 2>&1 || { echo "CONFIGURE FAILED"; exit 2; }
fi
rm -rf "$WT/deliver" "$WT/demo"; mkdir -p "$WT/deliver"; cp -r "$S"/* "$WT/deliver/"; rm -rf "$WT/deliver/caught_by"
R="$S/confirm.txt"; : > "$R"
run_demo() { (cd "$WT/deliver" && BABYLON_ROOT="$WT" timeout 900 bash ./run_demo.sh) > "$WT/_demo.log" 2>&1; echo $?; }
rc0=$(run_demo); echo "demo on unchanged tree: exit $rc0 (expected 0)" | tee -a "$R"
if ! git -C "$WT" apply "$S/patch.diff"; then echo "PATCH DOES NOT APPLY" | tee -a "$R"; exit 3; fi
if ! cmake --build "$WT/_build" -j$J > "$WT/_build.log" 2>&1; then echo "BUILD WITH PATCH FAILED" | tee -a "$R"; tail -5 "$WT/_build.log"; git -C "$WT" checkout -q -- .; exit 4; fi
ctest --test-dir "$WT/_build" -j8 --timeout 900 > "$WT/_ctest.log" 2>&1; rcT=$?
if [ $rcT -ne 0 ]; then
  # timing-sensitive tests of the suite flake on a loaded machine: failed tests get two more attempts, serially
  echo "first ctest run: $(grep -E 'tests passed|tests failed' "$WT/_ctest.log" | tail -1); failed: $(grep -E '^\s+[0-9]+ - ' "$WT/_ctest.log" | tr -s ' ' | tr '\n' ';')" | tee -a "$R"
  ctest --test-dir "$WT/_build" --rerun-failed --repeat until-pass:3 --timeout 900 > "$WT/_ctest2.log" 2>&1; rcT=$?
  cp "$WT/_ctest2.log" "$WT/_ctest.log"
fi
echo "ctest with patch: exit $rcT; $(grep -E 'tests passed|tests failed' "$WT/_ctest.log" | tail -1)" | tee -a "$R"
if [ $rcT -ne 0 ]; then grep -E "Failed|\*\*\*" "$WT/_ctest.log" | head -5 | tee -a "$R"; fi
rc1=$(run_demo); echo "demo with patch: exit $rc1 (expected non-zero)" | tee -a "$R"
git -C "$WT" checkout -q -- .
if [ "$rc0" = "0" ] && [ $rcT -eq 0 ] && [ "$rc1" != "0" ]; then echo "CONFIRMED" | tee -a "$R"; exit 0; fi
echo "NOT CONFIRMED" | tee -a "$R"; exit 1
