#!/bin/bash
# usage: tools/ingest_seeded.sh <breaker worktree> <seeded id>   (copies deliver/ into seeded/<id>/, removes the worktree)
set -eu
W=$1; ID=$2; D="$(dirname "$0")/../seeded/$ID"
mkdir -p "$D"; cp -r "$W"/deliver/* "$D"/
git -C /repo worktree remove --force "$W"; git -C /repo worktree prune
ls "$D"
