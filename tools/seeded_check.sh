#!/bin/bash
# Run a check against a seeded change without touching /repo: the patch is applied to a scratch copy of
# /repo's tracked tree. usage: tools/seeded_check.sh <seeded/<id> dir> <property-id> [tier] [scratch]
# exit 0 = the check reported a VIOLATION (caught), 1 = missed, 3 = patch does not apply.
set -u
S=$(realpath "$1"); PID=$2; TIER=${3:-quick}; D=${4:-/tmp/seedchk-$$}
rm -rf "$D"; mkdir -p "$D"
git -C /repo archive HEAD src | tar -x -C "$D"
if ! patch -s -p1 -d "$D" < "$S/patch.diff"; then echo "PATCH DOES NOT APPLY"; rm -rf "$D"; exit 3; fi
# object cache: start from the main one (hard links) so that only the units the patch touches are recompiled
[ -d "$(dirname "$0")/../build/objcache" ] && cp -al "$(dirname "$0")/../build/objcache" "$D/objcache"
VERIF_OBJCACHE="$D/objcache" VERIF_REPO="$D" VERIF_BUILD="$D/build" VERIF_OUT="$D/out" "$(dirname "$0")/../vf" check "$PID" --tier "$TIER" > "$D/log.txt" 2>&1
rc=$?
grep -A3 "^VIOLATION" "$D/log.txt" | head -16
tail -1 "$D/log.txt"
mkdir -p "$S/caught_by"
if [ $rc -eq 1 ]; then
  cp "$D/log.txt" "$S/caught_by/$PID-$TIER.log"
  # keep one replay file as the witness
  first=$(grep -m1 "^VIOLATION" "$D/log.txt" | sed 's/.*replay=//')
  [ -n "$first" ] && [ -f "$first" ] && cp "$first" "$S/caught_by/"
  echo "CAUGHT"; rm -rf "$D"; exit 0
fi
cp "$D/log.txt" "$S/caught_by/$PID-$TIER.MISSED.log"
echo "MISSED (rc=$rc)"; rm -rf "$D"; exit 1
