#!/usr/bin/env python3
"""Mutation sweep: generate small source mutants of the files a property is anchored in, run the property's quick
check against each (in a scratch copy of /repo/src, never in /repo), and list the survivors for triage.

usage: tools/mutsweep.py <PID> --files <rel-to-src/babylon> [...] [--max N] [--seed S] [--par P] [--jobs J]
                          [--rules mo,rel,arith,del,logic] [--out notes/mutsweep_<PID>.jsonl] [--list]

Rules (one change per mutant, applied to one occurrence on one line):
  mo     memory_order weakened (acquire/release/acq_rel/seq_cst -> relaxed, acq_rel -> acquire|release, seq_cst -> acq_rel)
  rel    relational operator at a boundary (< <-> <=, > <-> >=, == <-> !=)
  arith  +1 / -1 dropped or doubled
  del    a whole statement line deleted (calls: fences, stores, wakes, resets, assignments)
  logic  && <-> ||, a negation dropped
Survivors are either equivalent mutants or gaps of the check; the sweep only classifies, triage is manual.
"""
import argparse, hashlib, json, os, random, re, shutil, subprocess, sys, time
from concurrent.futures import ThreadPoolExecutor

ROOT = os.path.dirname(os.path.dirname(os.path.abspath(__file__)))
REPO = "/repo"

MO = ["relaxed", "acquire", "release", "acq_rel", "seq_cst"]
MO_WEAKER = {"acquire": ["relaxed"], "release": ["relaxed"], "acq_rel": ["relaxed", "acquire", "release"],
             "seq_cst": ["relaxed", "acq_rel"]}

def code_lines(text):
    """yield (index, line) for lines that are code (not comments / preprocessor / asserts / blank)."""
    in_block = False
    for i, ln in enumerate(text.split("\n")):
        s = ln.strip()
        if in_block:
            if "*/" in s:
                in_block = False
            continue
        if s.startswith("/*"):
            if "*/" not in s:
                in_block = True
            continue
        if not s or s.startswith("//") or s.startswith("#") or s.startswith("assert(") or "static_assert" in s:
            continue
        yield i, ln

def strip_comment(ln):
    k = ln.find("//")
    return ln if k < 0 else ln[:k]

def gen_mutants(rel, text, rules):
    out = []
    lines = text.split("\n")
    for i, ln in code_lines(text):
        body = strip_comment(ln)
        if "mo" in rules:
            for m in re.finditer(r"memory_order_(acquire|release|acq_rel|seq_cst)", body):
                for w in MO_WEAKER[m.group(1)]:
                    new = body[:m.start()] + "memory_order_" + w + body[m.end():]
                    out.append(("mo", i, new))
        if "rel" in rules and "template" not in body and "operator" not in body and "#include" not in body:
            for m in re.finditer(r" (<=|>=|<|>|==|!=) ", body):
                op = m.group(1)
                # skip template-looking uses: a '<' directly followed later by '>' without a space-separated operand is
                # hard to tell apart; requiring spaces on both sides already removes almost all of them
                rep = {"<=": "<", "<": "<=", ">=": ">", ">": ">=", "==": "!=", "!=": "=="}[op]
                new = body[:m.start()] + " " + rep + " " + body[m.end():]
                out.append(("rel", i, new))
        if "arith" in rules:
            for m in re.finditer(r" (\+|-) 1\b(?!\.)", body):
                out.append(("arith", i, body[:m.start()] + body[m.end():]))
                out.append(("arith", i, body[:m.start()] + " " + m.group(1) + " 2" + body[m.end():]))
        if "logic" in rules:
            for m in re.finditer(r" (&&|\|\|) ", body):
                rep = "||" if m.group(1) == "&&" else "&&"
                out.append(("logic", i, body[:m.start()] + " " + rep + " " + body[m.end():]))
            for m in re.finditer(r"\(!(?=[A-Za-z_:(])", body):
                out.append(("logic", i, body[:m.start()] + "(" + body[m.end():]))
        if "del" in rules:
            s = body.strip()
            if s.endswith(";") and not s.startswith(("return", "break", "continue", "using", "typedef", "friend", "static", "const ",
                                                      "auto ", "auto&", "auto*", "template", "typename", "class", "struct", "}", "case", "default")) \
               and ("(" in s or "=" in s or "++" in s or "--" in s) and s.count(";") == 1 and not re.match(r"^[A-Za-z_:<>,\s\*&]+\s+[A-Za-z_]\w*(\s*=.*|\s*\{.*\}|\(.*\))?;$", s):
                # complete one-line statement (balanced parentheses, not a declaration)
                decl = re.match(r"^(inline|void|int|bool|explicit|virtual|constexpr|unsigned|size_t|uint\d+_t)\b|^~", s) or \
                       re.search(r"(= default;|= delete;| noexcept;| const;| override;| const noexcept;)$", s)
                if not decl and s.count("(") == s.count(")") and (i == 0 or strip_comment(lines[i - 1]).rstrip().endswith((";", "{", "}", ":")) or not strip_comment(lines[i - 1]).strip()):
                    out.append(("del", i, re.match(r"\s*", body).group(0) + ";"))
    res = []
    for rule, i, new in out:
        if new != strip_comment(lines[i]):
            res.append(dict(file=rel, rule=rule, line=i + 1, old=lines[i].strip(), new=new.strip()))
    return res

def apply(mut, srcdir):
    p = os.path.join(srcdir, "babylon", mut["file"])
    lines = open(p).read().split("\n")
    i = mut["line"] - 1
    indent = re.match(r"\s*", lines[i]).group(0)
    lines[i] = indent + mut["new"]
    open(p, "w").write("\n".join(lines))

def run_one(args, pid, mut, n, scratch):
    d = os.path.join(scratch, "m%03d" % n)
    shutil.rmtree(d, ignore_errors=True)
    os.makedirs(d)
    shutil.copytree(os.path.join(REPO, "src"), os.path.join(d, "src"))
    apply(mut, os.path.join(d, "src"))
    env = dict(os.environ, VERIF_REPO=d, VERIF_BUILD=os.path.join(d, "build"), VERIF_OUT=os.path.join(d, "out"),
               VERIF_OBJCACHE=os.path.join(scratch, "objcache"), VERIF_JOBS=str(args.jobs))
    t0 = time.time()
    try:
        r = subprocess.run([os.path.join(ROOT, "vf"), "check", pid, "--tier", "quick"], stdout=subprocess.PIPE, stderr=subprocess.STDOUT,
                           env=env, timeout=args.timeout)
        rc, out = r.returncode, r.stdout.decode(errors="replace")
    except subprocess.TimeoutExpired as e:
        rc, out = -9, (e.stdout or b"").decode(errors="replace")
    res = dict(mut)
    res["n"] = n
    res["wall_s"] = round(time.time() - t0, 1)
    if rc == 1 and "VIOLATION property=" in out:
        res["result"] = "killed"
        orc = re.findall(r"oracle=([\w\-]+)", out)
        sig = re.findall(r"target=\S+ (ORACLE-FAIL:[^\n]{0,80}|==\d+==ERROR[^\n]{0,80})", out)
        res["by"] = sorted(set(orc))[:4] or sig[:2]
    elif rc == 0:
        res["result"] = "survived"
    elif rc == 2 and ("does not compile" in out or "does not link" in out):
        res["result"] = "nocompile"
    elif rc == -9:
        res["result"] = "timeout"
    else:
        res["result"] = "error rc=%d" % rc
        res["tail"] = out[-600:]
    last = [l for l in out.splitlines() if l.startswith("[vf]")]
    res["summary"] = last[-1] if last else ""
    shutil.rmtree(d, ignore_errors=True)
    return res

def main():
    ap = argparse.ArgumentParser()
    ap.add_argument("pid")
    ap.add_argument("--files", nargs="+", required=True)
    ap.add_argument("--max", type=int, default=24)
    ap.add_argument("--seed", type=int, default=1)
    ap.add_argument("--par", type=int, default=4)
    ap.add_argument("--jobs", type=int, default=4)
    ap.add_argument("--timeout", type=int, default=1800)
    ap.add_argument("--rules", default="mo,rel,arith,del,logic")
    ap.add_argument("--out", default=None)
    ap.add_argument("--list", action="store_true")
    ap.add_argument("--grep", default=None, help="only mutants whose original line matches this regex")
    ap.add_argument("--lines", default=None, help="only mutants in this line range a-b (single file)")
    args = ap.parse_args()
    rules = set(args.rules.split(","))
    muts = []
    for rel in args.files:
        text = open(os.path.join(REPO, "src", "babylon", rel)).read()
        muts += gen_mutants(rel, text, rules)
    if args.grep:
        muts = [m for m in muts if re.search(args.grep, m["old"])]
    if args.lines:
        a, b = [int(x) for x in args.lines.split("-")]
        muts = [m for m in muts if a <= m["line"] <= b]
    # stratified deterministic sample: round-robin over the rules
    rnd = random.Random(args.seed)
    by_rule = {}
    for m in muts:
        by_rule.setdefault(m["rule"], []).append(m)
    for v in by_rule.values():
        rnd.shuffle(v)
    pick = []
    while len(pick) < args.max and any(by_rule.values()):
        for r in sorted(by_rule):
            if by_rule[r] and len(pick) < args.max:
                pick.append(by_rule[r].pop())
    print("[mutsweep] %s: %d candidate mutants, %d selected (%s)" % (args.pid, len(muts), len(pick),
          ", ".join("%s:%d" % (r, sum(1 for m in pick if m["rule"] == r)) for r in sorted(rules))), flush=True)
    if args.list:
        for m in pick:
            print("  %s:%d [%s] %s  ==>  %s" % (m["file"], m["line"], m["rule"], m["old"], m["new"]))
        return 0
    scratch = "/tmp/mutsweep-%s-%d" % (args.pid, os.getpid())
    os.makedirs(scratch, exist_ok=True)
    # seed the scratch object cache from the main one (hard links), so only the units a mutant touches are recompiled
    main_cache = os.path.join(ROOT, "build", "objcache")
    if os.path.isdir(main_cache):
        subprocess.run(["cp", "-al", main_cache, os.path.join(scratch, "objcache")])
    outp = args.out or os.path.join(ROOT, "notes", "mutsweep_%s.jsonl" % args.pid)
    results = []
    with ThreadPoolExecutor(max_workers=args.par) as ex:
        futs = [ex.submit(run_one, args, args.pid, m, n, scratch) for n, m in enumerate(pick)]
        with open(outp, "a") as f:
            for fu in futs:
                r = fu.result()
                results.append(r)
                f.write(json.dumps(r) + "\n")
                f.flush()
                print("  %-9s %s:%d [%s] %s ==> %s %s (%.0fs)" % (r["result"], r["file"], r["line"], r["rule"], r["old"][:70], r["new"][:70],
                                                                 r.get("by", ""), r["wall_s"]), flush=True)
    shutil.rmtree(scratch, ignore_errors=True)
    k = sum(1 for r in results if r["result"] == "killed")
    s = sum(1 for r in results if r["result"] == "survived")
    print("[mutsweep] %s: killed %d, survived %d, other %d" % (args.pid, k, s, len(results) - k - s))
    return 0

if __name__ == "__main__":
    sys.exit(main())
