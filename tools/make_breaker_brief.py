#!/usr/bin/env python3
"""Writes the brief for a 'breaker' sub-agent (wave 3): only the property text, a scratch worktree, nothing from /verif.
usage: tools/make_breaker_brief.py <property-id> <worktree> > brief.txt
The focus / avoid texts below are derived from the property statements and from the summaries of the changes
earlier waves produced (so that a new change uses a different mechanism); they say nothing about the checks."""
import json, os, sys
ROOT = os.path.dirname(os.path.dirname(os.path.abspath(__file__)))
FOCUS = {
 "C01": ("the clauses about compensating / batch variants, about FIFO order, about the consumer seeing every write of the producer, or about when a try_ operation may fail",
         "a try_push_n that skips a ticket at the ring wrap; a version wait that tests >= instead of =="),
 "C02": ("the batch wake-up paths, the spin-wait pairing, or the clause that a timed exclusive batch pop returns however many elements were available",
         "a waiter flag not set when the slot word is 0x0000FFFF; a timed wait re-armed with the full timeout"),
 "C03": ("automatic growth never dropping or duplicating a key, a full fixed table failing without consuming its arguments, or a lookup that starts after an insertion returned never missing it",
         "a slot claim CAS on a mirrored control byte; try_emplace rewritten as find-then-emplace"),
 "C04": ("two threads asking for the same index getting the same element, every element constructed exactly once before anyone can see it and destroyed exactly once, or snapshots / reserved snapshots / fill_n / copy_n across block boundaries",
         "RetireList::gc() freeing more than it judged expired; a stale retire timestamp after a lost CAS"),
 "C05": ("reset() and a second run, vertices not needed by the targets not running, wait() returning only after every started vertex finished, or each data published once (must manifest under the documented contract: emit only before run() or inside process())",
         "GraphData::bind() publishing the closure pointer early; a fast path in GraphDependency::activate"),
 "C06": ("alignment of blocks, blocks never overlapping the resource's own bookkeeping (page arrays, destructor task arrays), oversize blocks returned with the size and alignment they were obtained with, or the accounting (space_used / space_allocated) after release",
         "shared release() running destructors one thread-part at a time; move assignment keeping each object's own allocator"),
 "C07": ("a failed submission never running the task and yielding an invalid future, tasks spawned into local queues being finished before stop() returns, the task running on a thread that reports is_running_in, or the future becoming ready with the callable's result",
         "STOP tokens pushed before the balance thread is joined; a steal scan that continues after a success"),
 "C08": ("the count-down latch, wait_for returning false only if the requested time elapsed, callbacks never running before the value is set, or then() chains",
         "a timed waiter decrementing the futex word after a stale read; on_finish linking node->next once before its CAS loop"),
 "C09": ("Accessors moved between threads, an unlocked or released Accessor never holding the mark back, slots created or released while low_water_mark() is scanning, or nesting depth bookkeeping",
         "the seq_cst fence in Epoch::lock weakened; a nested lock re-publishing the slot's epoch"),
 "C10": ("retire() blocking on a full queue and resuming without losing tasks, the destructor path, or reclaimers running no later than the return of stop()",
         "a reclaim scan that continues past a blocked task; the low-water mark read before the queue is popped"),
 "C11": ("protobuf wire compatibility of a documented field kind, unknown fields being skipped / absent fields keeping defaults, smart pointers to an empty value reading back as null, or hostile input being rejected without reading outside the input",
         "a length prefix computed after adding the tag size; enum sizes computed through a 32-bit size function"),
 "C12": ("the reusable string, accessors staying valid across the manager's periodic re-creation, logical clear leaving the object equal to a fresh one, or retained capacity never shrinking",
         "prepare_for_insert computing its boundary after shifting the tail; allocation metadata covering only live elements"),
 "C13": ("Cancellable wrappers (empty optional if and only if cancellation won), a task awaiting a task across two executors being resumed on its own executor, or a future awaiter racing set_value",
         "Futex::wake_one advancing through a cleared next pointer; on_finish dropping its re-check of the sealed list"),
 "C14": ("per-thread ids across thread creation and exit, for_each at quiescence reporting exactly the live values, an allocation reusing a freed value instead of minting a new one, or the deposit box (exactly one of several concurrent take calls wins)",
         "the free-list version truncated to 16 bits; deallocate computing the pushed version before its retry loop"),
 "C15": ("concurrent publishers never sharing a slot, items received in publication-index order with the publisher's writes visible, or the end marker after close()",
         "clear() resetting only the used slots; publish_n waking only the first slot of a segment"),
 "C16": ("items of one producer delivered in the order it submitted them, the consume function never running in two places at once, or join() returning only after everything submitted before it was consumed",
         "a refused launch giving back one event instead of clearing the counter; signal_push_event returning early when the counter is above 1"),
 "C17": ("the object pool (strict pool never exceeding the injected objects, a blocked pop resuming when an object comes back, auto-creating pool running the recycler once per returned object and destroying overflow), the cached allocator's destructor, or the counting allocator",
         "a batch deallocate cursor advancing once across the ring wrap; ~BatchPageAllocator walking for_each_alive"),
 "C18": ("reserve, rehash, copy, move or swap, mapped values being the ones first inserted, or automatic growth past several chained tables",
         "begin() comparing chained tables' iterators with the head table's end(); clear() leaving one mirror control byte"),
 "C19": ("a maxer/miner reporting the extreme of the current period, a summer's exact sum and count, for_each_alive visiting exactly live threads, or contributions of threads that have exited or that reuse a dead thread's slot",
         "an instance id deallocated before its column is cleared; compact thread-local move assignment not swapping storage"),
 "C20": ("page-table pages appearing in the scatter list exactly once, entries written to more than one file / a rotating file descriptor, per-thread order of entries, or discard returning all pages",
         "pages deallocated inside the IOV_MAX chunk loop; overflow() counting the whole page after a flush"),
}
pid, wt = sys.argv[1], sys.argv[2]
p = next(json.loads(l) for l in open(os.path.join(ROOT, "properties.jsonl")) if json.loads(l)["id"] == pid)
focus, avoid = FOCUS[pid]
print(f"""You are a careful C++ engineer doing mutation-style robustness research on the open-source library baidu/babylon.
You have your own scratch git worktree of the library at {wt} (work ONLY there; never touch /repo or /verif, and do not read anything under /verif). The library's sources are under {wt}/src/babylon, its tests under {wt}/test. It builds with cmake: `cmake -G Ninja -S {wt} -B {wt}/_build -DCMAKE_BUILD_TYPE=RelWithDebInfo -DCMAKE_CXX_FLAGS=-Wno-error -DBUILD_TESTING=ON -DCMAKE_GTEST_DISCOVER_TESTS_DISCOVERY_MODE=PRE_TEST` then `cmake --build {wt}/_build -j6` and `ctest --test-dir {wt}/_build -j6 --timeout 900` (dependencies abseil/protobuf/gtest/boost/fmt are installed system-wide; there is no network). The machine is shared with other workers: use at most 6 parallel jobs. A full build takes several minutes; while iterating build only the test binaries relevant to what you change (and compile your demo header-only against {wt}/src where possible), but run the complete build + ctest at least once on your final change. A few timing-sensitive tests of the suite can flake on a loaded machine; re-run failed ones (`ctest --rerun-failed --repeat until-pass:3`) before concluding that your change broke them.

Here is a semantic property of the library that users rely on:

  {pid}: {p['title']}
  Statement: {p['statement']}
  Quantified over: {p['quantifier']}

Your task: produce ONE realistic change (a bug a maintainer could plausibly introduce: a weakened memory order, an off-by-one at a boundary, a dropped re-check, a reordered pair of statements, a missing wake-up, a wrong branch in a rarely taken path, two cooperating sites that each look fine alone ...) to the library sources under {wt}/src/babylon that BREAKS this property while the library still compiles and the existing test suite still passes. It must NOT be something ordinary use exposes at once: it should need something specific to manifest (a particular interleaving, a fault at a particular point, a multi-step sequence of operations, an unusual input or boundary size).
Earlier studies already produced changes of these kinds for this property: {avoid}. Choose a DIFFERENT mechanism and, if you can, a different part of the statement; parts that have not been attacked yet are: {focus}. The change must break the property as stated (do not rely on client code that violates the documented contract of the API, and do not merely make things slower).
Then write a demonstration (a small standalone C++ program or gtest, under {wt}/demo/) that FAILS (exits non-zero / asserts) with your change and PASSES without it; if the failure needs a specific interleaving you may force it in the demo with sleeps, hooks compiled only into the demo, or many iterations, and say how reliably it shows. The demo must use the library only through its public, documented API.

Deliverables, all inside {wt}/deliver/:
  - patch.diff  (output of `git -C {wt} diff -- src` for your change; sources only)
  - the demonstration source + a `run_demo.sh` that builds and runs it against the worktree it lives in (use `ROOT=${{BABYLON_ROOT:-$(cd "$(dirname "$0")/.." && pwd)}}` for the include path; exit 0 = property held, non-zero = broken; it must finish within 10 minutes)
  - meta.json: {{"property": "{pid}", "summary": "...what was changed...", "needs": "...what it needs in order to manifest...", "tests": "...what you ran and the result (number of ctest tests passed with the change)...", "demo": "...how the demo behaves with/without the change..."}}
Finally restore the worktree sources (`git -C {wt} checkout -- src`) so that only deliver/ and demo/ remain as untracked files, remove {wt}/_build to free disk space, and reply with a short summary (what you changed, why tests do not notice, how the demo shows it).""")
