#!/usr/bin/env python3
"""Writes the brief for a 'breaker' sub-agent (wave 4): only the property text, a scratch worktree, nothing from /verif.
usage: tools/make_breaker_brief.py <property-id> <worktree> > brief.txt
The focus / avoid texts below are derived from the property statements and from the summaries of the changes
earlier waves produced (so that a new change uses a different mechanism); they say nothing about the checks."""
import json, os, sys
ROOT = os.path.dirname(os.path.dirname(os.path.abspath(__file__)))
FOCUS = {
 "C01": ("the compensating variants (push/pop with a reverse callback, as the page cache and object pool use them), FIFO order between ordered operations, clear()/swap()/reserve-style maintenance followed by further traffic, or the clause about when a try_ operation may fail or come up short",
         "a try_push_n that skips a ticket at the ring wrap; a version wait that tests >= instead of ==; a relaxed failure order on the waiter-registration CAS"),
 "C03": ("automatic growth (a new chained table appended while other threads insert or look up), a full fixed table failing without consuming its arguments, the map's operator[] / mapped values, or reserve / rehash on a populated container",
         "a slot claim CAS on a mirrored control byte; try_emplace rewritten as find-then-emplace; find and emplace probing differently in the last group"),
 "C04": ("fill_n / copy_n / for_each across block boundaries, reserve() and reserved snapshots, operator[] vs ensure() returning the same element, or the destructor destroying every element exactly once",
         "RetireList::gc() freeing more than it judged expired; a stale retire timestamp after a lost CAS; the CAS loser discarding the wrong private blocks"),
 "C05": ("vertices not needed by the targets not running, wait() returning only after every started vertex finished, each data published once, mutable dependencies, or the error path of a failing processor still finishing the closure (must manifest under the documented contract: emit only before run() or inside process())",
         "GraphData::bind() publishing the closure pointer early; a fast path in GraphDependency::activate; reset() keeping a stale runnable-vertex pointer"),
 "C06": ("blocks never overlapping the resource's own bookkeeping (page arrays, destructor task arrays) when a request nearly fills a page, the accounting (space_used / space_allocated) after release and reuse, contains(), or the swiss variant",
         "shared release() running destructors one thread-part at a time; move assignment keeping each object's own allocator; an oversize record keeping the caller's alignment"),
 "C07": ("tasks spawned by tasks into local queues being finished before stop() returns, the future becoming ready with the callable's result (submit with arguments / move-only callables), the always-new-thread executor's join(), or the destructor path",
         "STOP tokens pushed before the balance thread is joined; a steal scan that continues after a success; execute treating only negative invoke results as failure"),
 "C08": ("the count-down latch (count_down(n), readiness exactly at zero), then() chains carrying f(v), on_finish registered after the value is set, or futures of void / reference / move-only types",
         "a timed waiter decrementing the futex word after a stale read; on_finish linking node->next once before its CAS loop; wait_for treating every non-zero futex result as a timeout"),
 "C11": ("protobuf wire compatibility of a documented field kind (packed repeated scalars, sint/fixed kinds, nested messages, maps), absent fields keeping their defaults when an object is re-used for a second parse, smart pointers to an empty value reading back as null, or hostile input with nested limits",
         "a length prefix computed after adding the tag size; enum sizes computed through a 32-bit size function; the unknown-field skipper rejecting a field that ends exactly at the limit"),
 "C12": ("the reusable (monotonic) string against std::string (append/insert/replace/resize/reserve/shrink boundaries, the small-string boundary), accessors staying valid across the manager's periodic re-creation, or retained capacity never shrinking on copy/move assignment",
         "prepare_for_insert computing its boundary after shifting the tail; allocation metadata covering only live elements; assign(count) no longer clearing first"),
 "C13": ("Cancellable wrappers (empty optional if and only if cancellation won; cancel racing completion), a task awaiting a task across two executors being resumed on its own executor, or awaited values of move-only / void / reference types",
         "Futex::wake_one advancing through a cleared next pointer; on_finish dropping its re-check of the sealed list; on_finish linking next once"),
 "C14": ("per-thread ids across thread creation and exit (a new thread reusing a dead thread's id), an allocation reusing a freed value instead of minting a new one, or the deposit box (exactly one of several concurrent take / take_released calls wins; a taken id never matching again)",
         "the free-list version truncated to 16 bits; deallocate computing the pushed version before its retry loop; for_each breaking out of a block with a free tail"),
 "C17": ("the object pool (strict pool never exceeding the injected objects, a blocked pop resuming when an object comes back, auto-creating pool running the recycler once per returned object and destroying overflow), the cached allocator's destructor returning its cache upstream, or the counting allocator",
         "a batch deallocate cursor advancing once across the ring wrap; ~BatchPageAllocator walking for_each_alive; ObjectPool::try_pop using the non-concurrent pop"),
 "C18": ("copy construction / copy assignment / move / swap of a container that has grown past several chained tables, reserve and rehash preserving contents, or mapped values being the ones first inserted",
         "begin() comparing chained tables' iterators with the head table's end(); clear() leaving one mirror control byte; find stepping linearly while emplace probes triangularly"),
 "C19": ("a maxer/miner reporting the extreme of the current period (reset starts a new period), a summer's exact sum and count, a thread reusing a dead thread's slot, or a newly created counter starting from zero when it recycles storage",
         "an instance id deallocated before its column is cleared; compact thread-local move assignment not swapping storage; for_each losing its value counter past a dead block tail"),
 "C20": ("page-table pages (entries long enough for one, two or more page tables) appearing in the scatter list exactly once, entries written to more than one file / a rotating file descriptor, per-thread order of entries, or the log stream front end (begin/end, nested use) committing exactly what was streamed",
         "pages deallocated inside the IOV_MAX chunk loop; overflow() counting the whole page after a flush; discard()'s scratch vectors losing thread_local"),
 "C10": ("retire() blocking on a full queue and resuming without losing tasks, retire(reclaimer, tick) with an explicit tick, or the destructor path",
         "a reclaim scan continuing past a blocked task; the low-water mark read before the queue is popped; the collector leaving its loop after an idle round"),
 "C15": ("concurrent publishers never sharing a slot, const consumers / several consumers seeing the same sequence, or clear() followed by a second round",
         "clear() resetting only used slots; publish_n waking only the first slot; consume(n) trusting a published tail slot"),
 "C16": ("items of one producer delivered in the order it submitted them, the consume function receiving batches (iterator range) without dropping or repeating an item at the batch boundary, or capacity-full execute() blocking and resuming",
         "a refused launch giving back one event; signal_push_event returning early above 1; the consumer's exit exchanging the counter unconditionally"),
 "C09": ("Accessors moved between threads, slots created or released while low_water_mark() is scanning, or a released Accessor's slot being reused",
         "the lock fence weakened; nested lock re-publishing; nesting depth shared across Epoch instances"),
 "C02": ("the spin-wait pairing, batch wake-up of several sleeping waiters on consecutive slots, or the timed exclusive batch pop returning however many elements were available",
         "a waiter flag not set at 0x0000FFFF; a timed wait re-armed with the full timeout; a timed pop taking a blocking pop_n"),
}
pid, wt = sys.argv[1], sys.argv[2]
p = next(json.loads(l) for l in open(os.path.join(ROOT, "properties.jsonl")) if json.loads(l)["id"] == pid)
focus, avoid = FOCUS[pid]
print(f"""You are a careful C++ engineer doing mutation-style robustness research on the open-source library baidu/babylon.
You have your own scratch git worktree of the library at {wt} (work ONLY there; never touch /repo or /verif, and do not read anything under /verif). The library's sources are under {wt}/src/babylon, its tests under {wt}/test. It builds with cmake: `cmake -G Ninja -S {wt} -B {wt}/_build -DCMAKE_BUILD_TYPE=RelWithDebInfo -DCMAKE_CXX_FLAGS=-Wno-error -DBUILD_TESTING=ON -DCMAKE_GTEST_DISCOVER_TESTS_DISCOVERY_MODE=PRE_TEST` then `cmake --build {wt}/_build -j4` and `ctest --test-dir {wt}/_build -j4 --timeout 900` (dependencies abseil/protobuf/gtest/boost/fmt are installed system-wide; there is no network). The machine is shared with other workers: use at most 4 parallel jobs. A full build takes a long time on this shared machine, so do NOT build everything: build only the library target and the test binaries that exercise the files you change (`ninja -C {wt}/_build -t targets all | grep test_` lists them; e.g. `cmake --build {wt}/_build -j4 --target test_concurrent_bounded_queue`) and run those (directly or with `ctest -R`); the coordinator will run the complete suite on your patch afterwards, so be honest with yourself about whether some existing test would notice your change (read the tests that cover the code you touch). Compile your demo header-only against {wt}/src where possible (plus {wt}/_build/libbabylon.a if needed). You have about 40 minutes in total: prefer a small, sharp change with a reliable demo over an elaborate one. A few timing-sensitive tests of the suite can flake on a loaded machine; re-run failed ones (`ctest --rerun-failed --repeat until-pass:3`) before concluding that your change broke them.

Here is a semantic property of the library that users rely on:

  {pid}: {p['title']}
  Statement: {p['statement']}
  Quantified over: {p['quantifier']}

Your task: produce ONE realistic change (a bug a maintainer could plausibly introduce: a weakened memory order, an off-by-one at a boundary, a dropped re-check, a reordered pair of statements, a missing wake-up, a wrong branch in a rarely taken path, two cooperating sites that each look fine alone ...) to the library sources under {wt}/src/babylon that BREAKS this property while the library still compiles and the existing test suite still passes. It must NOT be something ordinary use exposes at once: it should need something specific to manifest (a particular interleaving, a fault at a particular point, a multi-step sequence of operations, an unusual input or boundary size).
Earlier studies already produced changes of these kinds for this property: {avoid}. Choose a DIFFERENT mechanism and, if you can, a different part of the statement; parts that have not been attacked yet are: {focus}. The change must break the property as stated (do not rely on client code that violates the documented contract of the API, and do not merely make things slower).
Then write a demonstration (a small standalone C++ program or gtest, under {wt}/demo/) that FAILS (exits non-zero / asserts) with your change and PASSES without it; if the failure needs a specific interleaving you may force it in the demo with sleeps, hooks compiled only into the demo, or many iterations, and say how reliably it shows. The demo must use the library only through its public, documented API.

Deliverables, all inside {wt}/deliver/:
  - patch.diff  (output of `git -C {wt} diff -- src` for your change; sources only)
  - the demonstration source + a `run_demo.sh` that builds and runs it against the worktree it lives in (use `ROOT=${{BABYLON_ROOT:-$(cd "$(dirname "$0")/.." && pwd)}}` for the include path; exit 0 = property held, non-zero = broken; it must finish within 10 minutes)
  - meta.json: {{"property": "{pid}", "summary": "...what was changed...", "needs": "...what it needs in order to manifest...", "tests": "...what you ran and the result (which test binaries you ran with the change and their results)...", "demo": "...how the demo behaves with/without the change..."}}
Finally restore the worktree sources (`git -C {wt} checkout -- src`) so that only deliver/ and demo/ remain as untracked files, remove {wt}/_build to free disk space, and reply with a short summary (what you changed, why tests do not notice, how the demo shows it).""")
