#!/bin/bash
# Sensitivity run: apply one sed mutation to a scratch copy of /repo/src and run a check against it.
# usage: tools/mutate.sh <scratch-dir> <property-id> <file relative to src/babylon> <sed expression> [tier]
# exit 0 when the check reported a VIOLATION (mutation killed), 1 when it survived, 3 when the sed did not apply.
set -u
D=$1; PID=$2; F=$3; SED=$4; TIER=${5:-quick}
rm -rf "$D/src" "$D/out"; mkdir -p "$D" && cp -r /repo/src "$D/src"
sed -i "$SED" "$D/src/babylon/$F"
if diff -q "/repo/src/babylon/$F" "$D/src/babylon/$F" >/dev/null; then echo "MUTATION DID NOT APPLY"; exit 3; fi
diff -u "/repo/src/babylon/$F" "$D/src/babylon/$F" | head -20
VERIF_REPO="$D" VERIF_BUILD="$D/build" VERIF_OUT="$D/out" "$(dirname "$0")/../vf" check "$PID" --tier "$TIER" > "$D/log.txt" 2>&1
rc=$?
grep -A3 "^VIOLATION" "$D/log.txt" | head -12
tail -1 "$D/log.txt"
if [ $rc -eq 1 ]; then echo "KILLED"; exit 0; fi
echo "SURVIVED (rc=$rc)"; exit 1
