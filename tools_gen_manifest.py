#!/usr/bin/env python3
"""Regenerates MANIFEST.json from the table below (kept in one place so the manifest is always valid)."""
import json, os
ROOT = os.path.dirname(os.path.abspath(__file__))

E1 = "dsched"; E2 = "seqfuzz"
def E1c(ref, oracle, note, extra=""):
    return dict(engine=E1, ref=ref,
        technique="property-based testing: rapidcheck-generated client programs executed on the real code under a deterministic schedule / clock / weak-memory fuzzer (dsched); oracle = " + oracle,
        text="Exploration: generated programs (threads x API operations x configurations) run on the unmodified babylon code under schedules, a virtual clock and stale-read choices that the harness owns (random walk, PCT, starve-one-thread; view-based memory model checked by a litmus self-test), judged by an explicit history oracle; failures are shrunk and replayed deterministically. " + extra + "Holds on everything generated; bounded programs, sampled schedules: not a proof.",
        note=note)
def E2c(ref, oracle, note, extra=""):
    return dict(engine=E2, ref=ref,
        technique="model-based / round-trip fuzzing: libFuzzer (coverage-guided, ASan + UBSan subset) decodes bytes into typed operation sequences or values; oracle = " + oracle,
        text="Exploration by coverage-guided fuzzing with the semantic oracle inside the target (not only crash detection); the input bytes are decoded constructively so every input is a valid case. " + extra + "Holds on everything generated; not a proof.",
        note=note)
def BOTH(ref, oracle, note, extra=""):
    d = E1c(ref, oracle, note, extra)
    d["technique"] = "property-based testing and model-based fuzzing: dsched schedule fuzzer (rapidcheck-generated concurrent programs) plus libFuzzer targets (sequential histories, ASan); oracle = " + oracle
    return d

CLAIMED = {
 "C01": E1c("5/C01", "exactly-once multiset + FIFO between ordered operations + slot ownership marks + happens-before check on payload + sequential try_ model + sequential epilogue (clear/swap/reserve)",
   "Trusts the dsched runtime (scheduler, view model, vector clocks) and the flag pairing rules taken from bounded_queue.h; bounded programs (<=8 threads, <=16 elements per case in quick, 32 in thorough)."),
 "C02": E1c("5/C02", "no deadlock / livelock for balanced programs + virtual-time deadline bound for timed pops",
   "Trusts the futex model (wait = SC fence + compare + sleep atomically, with injected EINTR / spurious returns; wake = SC fence + wake), the multi-copy-atomic reading of mixed-size accesses behind a seq_cst fence, and the fairness rules of the scheduler; liveness is judged only for programs that are balanced by construction.",
   "Liveness is attacked by owning the scheduler: a state with no runnable thread and no timer is a lost wake-up; stale reads make a missing seq_cst fence observable. "),
 "C03": E1c("5/C03", "one winner per key, same element address for every caller, visibility after a returned insertion (real-time in SC mode, happens-before in weak mode), fully constructed elements (Tracked payload), full fixed table keeps its arguments, quiescent size/iteration",
   "Generated colliding hash (few start groups and 7-bit tags); byte-wise control loads (ABSL_HAVE_THREAD_SANITIZER path) instead of the SIMD group load, which the ASan target C18 exercises."),
 "C04": E1c("5/C04", "stable addresses, element construct/destroy exactly once (registry), block and block-table lifetime through a quarantining operator new/delete, cooling period measured on the virtual clock (incl. 16-bit timestamp wrap)",
   "Snapshot use follows the conservative reading of the cooling period (64 s after the begin of the superseding growth call); plain accesses inside babylon are not schedule points."),
 "C05": BOTH("5/C05", "reference interpreter of the documented demand-driven semantics (values, emptiness, ran-set rule, dependencies ready at invocation, each vertex at most once, published once, wait() covers started vertices, reset())",
   "Graphs <= 8 vertices built through the public GraphBuilder API; externally injected inputs come from processors (emit is only legal before run or inside process); ill-formed runs only carry the minimal obligations."),
 "C06": BOTH("5/C06", "alignment, containment in owned memory, pairwise disjoint blocks with canaries, destructors exactly once before memory goes back, every page / oversize block returned exactly once to where it came from with the same size and alignment, zero accounting after release, moved-from owns nothing",
   "Recording page allocators and std::pmr upstreams are the reference; page sizes are powers of two >= the bookkeeping size babylon asserts."),
 "C07": E1c("5/C07", "accepted task runs exactly once before stop() returns on a thread for which is_running_in() holds, futures carry the callable's result, refused submissions never run and yield invalid futures, nothing runs after stop()",
   "Must-run set = tasks whose submit returned before stop() was called (ordered_after) plus their locally spawned children when the spawns fit the local queue; global capacity is sized so that no deadlock is 'by design'."),
 "C08": E1c("5/C08", "every get() returns the set value, callbacks exactly once and never before the value, then-chains carry f(v), wait_for true => value / false => virtual time elapsed, latch ready exactly at zero",
   "All timing is virtual; INT64_MAX timeouts excluded (signed overflow in wait_for_slow, noted in DESIGN); both assert-enabled and NDEBUG builds are run."),
 "C09": E1c("5/C09", "a reader inside a region never dereferences a node that was reclaimed after low_water_mark() passed its tick (poisoning + Tracked), released/unlocked accessors never hold the mark back, nesting and hand-over between threads",
   "One style (thread-local or Accessor) per Epoch instance as documented; a third of the cases use two independent Epoch instances whose regions nest in either order; harness-level shared pointer uses the orders the Epoch tests use."),
 "C10": E1c("5/C10", "every reclaimer exactly once, never while a region that was open at retire time is still open, not later than the return of stop()/destructor, retire blocks on a full queue without loss",
   "Retirers hold no region; every retire() has returned before stop() is called."),
 "C11": E2c("5/C11", "predicted size == bytes produced for every output presentation, parse(serialize(v)) == v for every input presentation, struct <-> protobuf agreement for documented-compatible kinds, hostile bytes: termination without sanitizer report and success => serialize/parse fixpoint",
   "Value family declared in the harness; protobuf compatibility only for the kinds the docs mark compatible; debug and NDEBUG builds."),
 "C12": E2c("5/C12", "element-wise equality with std::vector / std::string after every operation, size <= constructed <= capacity, capacity never shrinks, element lifetime registry, logical clear == fresh object, accessors valid across re-creation, zero space growth once capacity converged",
   "std::vector / std::string are the reference models; standard preconditions (iterators inside the container, no self-range assign)."),
 "C13": E1c("5/C13", "each suspension resumed exactly once on its executor (frame canaries, running/done flags), awaited values, empty optional iff cancel() returned true, wake_one/wake_all counts and conservation, non-matching wait does not suspend, exact DepositBox occupancy before/after",
   "Harness executors derived from babylon::Executor so that global quiescence can be awaited; plain accesses inside babylon are only interleaved at atomic operations and post-write points."),
 "C14": BOTH("5/C14", "no id with two holders, reuse before mint at quiescence, for_each == live set, thread ids unique among live threads and recycled, one taker per deposit (the winning accessor kept, move-constructed, move-assigned or moved into a closure: the slot returns once), stale ids never match after any number of reuses",
   "Thread-id oracles are relative to the live set at case start (the allocator is process-wide and persists across cases)."),
 "C15": E1c("5/C15", "every consumer receives every item exactly once in publication order with complete payload, end marker after close(), batch items contiguous, clear() gives a fresh topic, no lost wake-up",
   "close() only after all publishers were joined (documented precondition); each Consumer object is used by one thread."),
 "C16": E1c("5/C16", "each item consumed exactly once, per-producer order, consume function never in two places, execute() != 0 only after a refused launch, join() returns and covers everything submitted before it",
   "FlakyExecutor refuses a finite generated set of launch attempts; the known join() finding is excluded by its recorded guard (see known_findings.json)."),
 "C17": E1c("5/C17", "page / object owned by at most one party (registry over a never-reusing root allocator), upstream never sees a double or foreign free, conservation at quiescence and after destruction, strict pool bound and blocked pop resumes, recycler once per returned object",
   "set_batch_size is always called; pages come from a per-case arena that never reuses addresses."),
 "C18": E2c("5/C18", "std::unordered_set/map driven by the same operation sequence: size, empty, membership, iteration as a multiset, first-inserted mapped values",
   "Sequential histories only (concurrency is C03); generated hash with four spreading modes; the default-constructed fixed table is the documented zero-capacity placeholder."),
 "C19": E1c("5/C19", "quiescent adder/summer/maxer/miner values exact across thread and instance generations and across long period histories (2^32 periods, period number 2^32-1), overlapping reads bounded by completed/started contributions, local() private and stable, for_each covers every slot ever used, for_each_alive == live threads, new counters read zero",
   "Reads overlapping counting threads interleave only at atomic operations and explicit schedule points (plain accesses are not instrumented): a torn 128-bit summer store cannot be observed."),
 "C20": BOTH("5/C20", "concatenated iovecs == bytes streamed, every backing page exactly once in the scatter list, nothing outstanding after write/discard (incl. an exhaustively enumerated length range for page sizes 32 and 64); appender: every framed entry exactly once, intact, per-thread order, pages returned, also for entries streamed through the AsyncLogStream front end (header formatter, begin args, nested begin/end, noflush resume, ostream-layer pieces, a printer that sets failbit)",
   "Entries have >= 1 byte (zero-length is the appender's stop marker); close() after the writers were joined; writev to a memfd is never short."),
}
REASON_WIP = "check not built yet in this round (work in progress; see DESIGN.md section 5)"

def main():
    props = [json.loads(l) for l in open(os.path.join(ROOT, "properties.jsonl"))]
    checks, na = [], []
    for p in props:
        pid = p["id"]
        c = CLAIMED.get(pid)
        if not c:
            na.append(dict(property_id=pid, reason=REASON_WIP))
            continue
        checks.append(dict(
            property_id=pid,
            quick_cmd="./vf check %s --tier quick" % pid,
            thorough_cmd="./vf check %s --tier thorough" % pid,
            evidence_file="evidence/%s.json" % pid,
            replay_cmd_template="./vf replay {path}",
            engine=c["engine"],
            level_claimed=dict(category="exploration", text=c["text"], design_ref=c["ref"]),
            level_note=c["note"],
            technique=c["technique"]))
    m = dict(
        version=1,
        setup_cmd="./vf setup",
        hooks=dict(guard="BABYLON_VERIF", enable="no source hooks are needed: checks compile /repo/src as it is (clang -fsanitize=thread without the TSan runtime for dsched targets, -fsanitize=fuzzer,address for libFuzzer targets)",
                   baseline_off_cmd="cmake --build /repo/_build -j16 && ctest --test-dir /repo/_build -j8 --timeout 900",
                   source_commits=[], add_only=True),
        engines=[
            dict(name="dsched", path="engine/dsched", serves_properties=[k for k, v in CLAIMED.items() if v["engine"] == E1],
                 kind_free_text="deterministic schedule/clock/visibility fuzzer for real code (implements the __tsan_* ABI, interposes futex/pthread/time); cases generated and shrunk by rapidcheck"),
            dict(name="seqfuzz", path="targets", serves_properties=[k for k, v in CLAIMED.items() if v["engine"] == E2],
                 kind_free_text="structure-aware libFuzzer targets (ASan + UBSan subset) with model-based / round-trip oracles inside the target"),
        ],
        checks=checks,
        not_applicable=na,
        notes="All checks are property-based tests / fuzzers; see DESIGN.md. VERIF_SEED and VERIF_TIER are honoured.")
    json.dump(m, open(os.path.join(ROOT, "MANIFEST.json"), "w"), indent=1)
    print("claimed", len(checks), "not_applicable", len(na))
main()
