#!/usr/bin/env python3
"""Regenerates MANIFEST.json from the table below (kept in one place so the manifest is always valid)."""
import json, os
ROOT = os.path.dirname(os.path.abspath(__file__))

E1 = "dsched"; E2 = "seqfuzz"
CLAIMED = {
 "C01": dict(engine=E1, ref="5/C01", technique="property-based testing: rapidcheck-generated client programs run under a deterministic schedule/visibility fuzzer; oracle = exactly-once multiset + FIFO + ownership marks + happens-before check on payload + sequential try_ model",
   text="Exploration: generated producer/consumer programs over every push/pop variant and flag combination, executed on the real queue under owned schedules (random walk, PCT), a view-based weak-memory model and a virtual clock, with an explicit history oracle. Holds on everything generated; not a proof.",
   note="Trusts the dsched runtime (scheduler, view model, vector clocks) and the flag pairing rules taken from bounded_queue.h; bounded programs (<=6 threads, <=10 elements per case)."),
 "C02": dict(engine=E1, ref="5/C02", technique="property-based testing: generated balanced blocking programs under an owned scheduler with stale reads; oracle = no deadlock/livelock + virtual-time deadline bound for timed pops",
   text="Exploration of liveness under a scheduler the harness owns: every generated program is balanced by construction, so a state with no runnable thread and no timer is a lost wake-up. Stale reads make a missing seq_cst fence observable.",
   note="Trusts the futex model (wait = SC fence + compare + sleep atomically; wake = SC fence + wake) and fairness rules of the scheduler."),
 "C18": dict(engine=E2, ref="5/C18", technique="model-based fuzzing: libFuzzer-decoded operation sequences over hash set/map/fixed table compared with std::unordered_set/map after every step (ASan + UBSan subset)",
   text="Exploration by coverage-guided fuzzing of operation histories (construct default|n, emplace, find, clear, reserve, rehash, copy, move, swap, iterate, size) with colliding generated hashes; every step is compared with a reference container.",
   note="Sequential histories only (concurrency is C03); trusts std::unordered_set/map as the reference; the default-constructed fixed table is treated as the documented zero-capacity placeholder."),
}
REASON_WIP = "check not built yet in this round (work in progress; see DESIGN.md section 5)"

def main():
    props = [json.loads(l) for l in open(os.path.join(ROOT, "properties.jsonl"))]
    checks, na = [], []
    for p in props:
        pid = p["id"]
        c = CLAIMED.get(pid)
        if not c:
            na.append(dict(property_id=pid, reason=REASON_WIP))
            continue
        checks.append(dict(
            property_id=pid,
            quick_cmd="./vf check %s --tier quick" % pid,
            thorough_cmd="./vf check %s --tier thorough" % pid,
            evidence_file="evidence/%s.json" % pid,
            replay_cmd_template="./vf replay {path}",
            engine=c["engine"],
            level_claimed=dict(category="exploration", text=c["text"], design_ref=c["ref"]),
            level_note=c["note"],
            technique=c["technique"]))
    m = dict(
        version=1,
        setup_cmd="./vf setup",
        hooks=dict(guard="BABYLON_VERIF", enable="no source hooks are needed: checks compile /repo/src as it is (clang -fsanitize=thread without the TSan runtime for dsched targets, -fsanitize=fuzzer,address for libFuzzer targets)",
                   baseline_off_cmd="cmake --build /repo/_build -j16 && ctest --test-dir /repo/_build -j8 --timeout 900",
                   source_commits=[], add_only=True),
        engines=[
            dict(name="dsched", path="engine/dsched", serves_properties=[k for k, v in CLAIMED.items() if v["engine"] == E1],
                 kind_free_text="deterministic schedule/clock/visibility fuzzer for real code (implements the __tsan_* ABI, interposes futex/pthread/time); cases generated and shrunk by rapidcheck"),
            dict(name="seqfuzz", path="targets", serves_properties=[k for k, v in CLAIMED.items() if v["engine"] == E2],
                 kind_free_text="structure-aware libFuzzer targets (ASan + UBSan subset) with model-based / round-trip oracles inside the target"),
        ],
        checks=checks,
        not_applicable=na,
        notes="All checks are property-based tests / fuzzers; see DESIGN.md. VERIF_SEED and VERIF_TIER are honoured.")
    json.dump(m, open(os.path.join(ROOT, "MANIFEST.json"), "w"), indent=1)
    print("claimed", len(checks), "not_applicable", len(na))
main()
