"""Target registry for vf (one entry per target binary)."""

def register(CHECKS, T):
    CHECKS["C18"] = [T("c18_hashmodel", "targets/c18_hashmodel.cpp", kind="fuzz", lib=True, quick_cases=20000, thorough_s=600, max_len=256)]

ASSUMPTIONS = {
    "C01": ["queue flag pairing rules from bounded_queue.h are respected by the generator (one mode per queue; CONCURRENT=false only on an end a single thread touches)",
            "batch sizes do not exceed the capacity", "dsched runtime: scheduler, view-based memory model, futex model"],
    "C02": ["every generated program is balanced (elements pushed == elements popped), so a state with no runnable thread is a lost wake-up",
            "timed exclusive pop is used by a single consumer only", "virtual clock: timing oracles never read the wall clock"],
}
