"""Target registry for vf (one entry per target binary)."""

import glob, json, os

def register(CHECKS, T):
    """Every targets/*.reg.json registers one target binary:
    {"property":"C18","name":"c18_hashmodel","src":"targets/c18_hashmodel.cpp","kind":"fuzz","lib":true,
     "quick_cases":20000,"thorough_s":600,"max_len":256,"defs":[],"assumptions":[...]}"""
    root = os.path.dirname(os.path.abspath(__file__))
    for path in sorted(glob.glob(os.path.join(root, "targets", "*.reg.json"))):
        try:
            r = json.load(open(path))
            pid = r.pop("property")
            r["name"], r["src"]
        except Exception as e:  # a half-written registration must not take the other checks down
            import sys
            sys.stderr.write("[vf] ignoring %s: %s\n" % (path, e))
            continue
        for a in r.pop("assumptions", []):
            ASSUMPTIONS.setdefault(pid, [])
            if a not in ASSUMPTIONS[pid]:
                ASSUMPTIONS[pid].append(a)
        name, src = r.pop("name"), r.pop("src")
        CHECKS.setdefault(pid, []).append(T(name, src, **r))

ASSUMPTIONS = {
    "C01": ["queue flag pairing rules from bounded_queue.h are respected by the generator (one mode per queue; CONCURRENT=false only on an end a single thread touches)",
            "batch sizes do not exceed the capacity", "dsched runtime: scheduler, view-based memory model, futex model"],
    "C02": ["every generated program is balanced (elements pushed == elements popped), so a state with no runnable thread is a lost wake-up",
            "timed exclusive pop is used by a single consumer only", "virtual clock: timing oracles never read the wall clock"],
}
