// Driver shared by every dsched (E1) target: rapidcheck generates and shrinks
// the case, each case runs in a fork()ed child under dsched, the parent collects
// verdicts / labels / samples, minimises the decision list of a failure, writes
// the replay file and the per-shard evidence fragment.
#pragma once
#include <stdint.h>

#include <string>
#include <vector>

#include "../dsched/dsched.h"

namespace vf {

// Choice sequence the target decodes its program from (constructive generation:
// every value maps to a valid choice; exhausted input yields the minimum).
struct Chooser {
  const std::vector<uint32_t>* data;
  size_t pos = 0;
  volatile uint32_t* consumed_out = nullptr;  // progress is visible to the driver even if the case dies
  explicit Chooser(const std::vector<uint32_t>& d) : data(&d) {}
  uint32_t raw() {
    uint32_t v = pos < data->size() ? (*data)[pos] : 0u;
    pos++;
    if (consumed_out) *consumed_out = (uint32_t)pos;
    return v;
  }
  uint32_t below(uint32_t n) { return n <= 1 ? (raw(), 0u) : raw() % n; }
  int range(int lo, int hi) { return lo + (int)below((uint32_t)(hi - lo + 1)); }
  bool flip() { return below(2) == 1; }
  bool chance(uint32_t num, uint32_t den) { return below(den) >= den - num; }  // raw 0 => false
  template <class T, size_t N>
  T pick(const T (&arr)[N]) { return arr[below((uint32_t)N)]; }
};

struct CaseParams {
  uint64_t sched_seed = 1;
  int strategy = 0;
  int pct_depth = 2;
  int p_switch = 200;
  int p_stale = 0;
  int p_eintr = 0;  // futex_wait early-return probability (x1000); 0 = never (and no decision is consumed)
};

struct Target {
  const char* name;         // e.g. "c01_queue"
  const char* property_id;  // e.g. "C01"
  // Runs one case as dsched thread 0 (inside the forked child).
  void (*run_case)(Chooser&);
  // Optional: tweak dsched params per target (max steps, clock base, livelock policy...)
  void (*tune)(dsched::Params&, Chooser&) = nullptr;
  // Optional: true if this program matches a known (listed) finding.
  const char* (*known_finding)(const std::vector<uint32_t>& prog) = nullptr;
  size_t prog_len = 192;
  bool allow_weak = true;       // may run cases with stale reads
  int weak_percent = 50;        // share of cases in weak mode
  int eintr_percent = 0;        // share of cases in which futex_wait may return early (EINTR / spurious 0)
  const char* nontrivial_rule = "";
};

int main_driver(int argc, char** argv, const Target& t);

// true when the check runs in the thorough tier (targets may widen their bounds)
bool thorough();

}  // namespace vf
