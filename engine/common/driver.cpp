#include "driver.h"

#include <errno.h>
#include <rapidcheck.h>
#include <signal.h>
#include <stdio.h>
#include <stdlib.h>
#include <string.h>
#include <sys/mman.h>
#include <sys/stat.h>
#include <sys/wait.h>
#include <sys/syscall.h>
#include <linux/futex.h>
#include <stddef.h>
#include <time.h>
#include <unistd.h>

#include <algorithm>
#include <fstream>
#include <map>
#include <set>
#include <sstream>

namespace vf {
namespace {

struct Case {
  std::vector<uint32_t> prog;
  CaseParams cp;
};

struct Outcome {
  int verdict = dsched::V_NONE;
  std::string oracle, message, describe;
  std::vector<uint16_t> decisions;
  uint64_t steps = 0, switches = 0, hash = 0;
  uint32_t nthreads = 0, futex_sleeps = 0, futex_wakes = 0, stale_reads = 0, consumed = 0;
  bool nontrivial = false;
  std::vector<std::pair<std::string, uint32_t>> labels;
  int signal = 0;
};

dsched::Result* g_shared = nullptr;
const Target* g_target = nullptr;
double g_case_timeout_s = 10.0;

double now_s() {
  struct timespec ts;
  clock_gettime(CLOCK_MONOTONIC, &ts);
  return (double)ts.tv_sec + ts.tv_nsec * 1e-9;
}

std::string jstr(const std::string& s) {
  std::string o = "\"";
  for (unsigned char c : s) {
    if (c == '"' || c == '\\') { o += '\\'; o += (char)c; }
    else if (c == '\n') o += "\\n";
    else if (c < 0x20) { char b[8]; snprintf(b, sizeof b, "\\u%04x", c); o += b; }
    else o += (char)c;
  }
  return o + "\"";
}

void fill_params(dsched::Params& p, const Case& c, const std::vector<uint16_t>* replay) {
  p.seed = c.cp.sched_seed;
  p.strategy = c.cp.strategy;
  p.pct_depth = c.cp.pct_depth;
  p.p_switch_x1000 = (uint32_t)c.cp.p_switch;
  p.p_stale_x1000 = (uint32_t)c.cp.p_stale;
  p.p_eintr_x1000 = (uint32_t)c.cp.p_eintr;
  if (replay) {
    p.replay = true;
    p.decisions = *replay;
  }
  if (g_target->tune) {
    Chooser ch(c.prog);
    g_target->tune(p, ch);
  }
}

// ---------------------------------------------------------------------------
// fork() costs ~1.5 ms in this sandbox and is serialised machine-wide, so the
// search runs its cases back to back inside a persistent worker process; a
// fresh process per case is used only to confirm, shrink and replay failures.
struct Control {
  volatile uint32_t cmd_seq;
  volatile uint32_t done_seq;
  CaseParams cp;
  uint32_t prog_len;
  uint32_t prog[4096];
};
Control* g_ctl = nullptr;
pid_t g_worker = -1;
uint32_t g_worker_cases = 0;

long raw_futex_wait(volatile uint32_t* a, uint32_t v, long timeout_ns) {
  struct timespec ts = {timeout_ns / 1000000000L, timeout_ns % 1000000000L};
  return syscall(SYS_futex, a, FUTEX_WAIT, v, &ts, nullptr, 0);
}
void raw_futex_wake(volatile uint32_t* a) { syscall(SYS_futex, a, FUTEX_WAKE, 1, nullptr, nullptr, 0); }

void collect(Outcome& o) {
  o.verdict = g_shared->verdict;
  o.oracle = g_shared->oracle;
  o.message = g_shared->message;
  o.describe = g_shared->describe;
  o.steps = g_shared->steps;
  o.switches = g_shared->switches;
  o.hash = g_shared->case_hash;
  o.nthreads = g_shared->nthreads;
  o.futex_sleeps = g_shared->futex_sleeps;
  o.futex_wakes = g_shared->futex_wakes;
  o.stale_reads = g_shared->stale_reads;
  o.consumed = g_shared->consumed;
  o.nontrivial = g_shared->nontrivial != 0;
  for (uint32_t i = 0; i < g_shared->nlabels && i < 96; i++)
    o.labels.emplace_back(g_shared->labels[i].name, g_shared->labels[i].count);
  uint32_t nd = g_shared->ndecisions;
  if (nd > (1u << 20)) nd = 1u << 20;
  o.decisions.assign(g_shared->decisions, g_shared->decisions + nd);
}

void classify_death(Outcome& o, bool timed_out, int status) {
  if (timed_out) {
    o.verdict = dsched::V_INCONCLUSIVE;
    o.oracle = "wall-clock";
    o.message = "case exceeded the wall-clock limit";
  } else if (WIFSIGNALED(status)) {
    o.signal = WTERMSIG(status);
    if (o.verdict == dsched::V_NONE || o.verdict == dsched::V_PASS) {
      o.verdict = dsched::V_CRASH;
      o.oracle = "signal";
      o.message = std::string("child killed by signal ") + std::to_string(o.signal) + " (" + strsignal(o.signal) + ")";
    }
  } else if (o.verdict == dsched::V_NONE) {
    // exited without a verdict: exit()/abort handlers from inside the case
    o.verdict = dsched::V_CRASH;
    o.oracle = "exit";
    o.message = "child exited with status " + std::to_string(WEXITSTATUS(status)) + " without a verdict";
  }
}

void clear_result() {
  memset(g_shared, 0, offsetof(dsched::Result, decisions));
  g_shared->verdict = dsched::V_NONE;
}

void run_one_in_this_process(const Case& c, const std::vector<uint16_t>* replay) {
  dsched::set_result_block(g_shared);
  dsched::Params p;
  fill_params(p, c, replay);
  Chooser ch(c.prog);
  ch.consumed_out = &g_shared->consumed;
  dsched::run(p, [&] { g_target->run_case(ch); });
}

// fresh process for exactly one case
Outcome run_child(const Case& c, const std::vector<uint16_t>* replay) {
  clear_result();
  fflush(stdout);
  fflush(stderr);
  pid_t pid = fork();
  if (pid == 0) {
    run_one_in_this_process(c, replay);
    _exit(0);
  }
  Outcome o;
  int status = 0;
  double t0 = now_s();
  bool timed_out = false;
  for (;;) {
    pid_t r = waitpid(pid, &status, WNOHANG);
    if (r == pid) break;
    if (r < 0 && errno != EINTR) break;
    if (now_s() - t0 > g_case_timeout_s) {
      kill(pid, SIGKILL);
      waitpid(pid, &status, 0);
      timed_out = true;
      break;
    }
    struct timespec ts = {0, (now_s() - t0 < 0.002) ? 50000 : 500000};
    nanosleep(&ts, nullptr);
  }
  collect(o);
  classify_death(o, timed_out, status);
  return o;
}

void worker_loop() {
  uint32_t seen = 0;
  for (;;) {
    while (g_ctl->cmd_seq == seen) raw_futex_wait(&g_ctl->cmd_seq, seen, 200000000L);
    seen = g_ctl->cmd_seq;
    Case c;
    c.cp = g_ctl->cp;
    c.prog.assign(g_ctl->prog, g_ctl->prog + g_ctl->prog_len);
    run_one_in_this_process(c, nullptr);  // leaves by _exit on any non-PASS verdict
    g_ctl->done_seq = seen;
    raw_futex_wake(&g_ctl->done_seq);
  }
}

void kill_worker() {
  if (g_worker > 0) {
    kill(g_worker, SIGKILL);
    int st;
    waitpid(g_worker, &st, 0);
    g_worker = -1;
  }
}

// run a case in the persistent worker (state of earlier cases may linger there)
Outcome run_in_worker(const Case& c) {
  if (g_worker > 0 && g_worker_cases >= 400) kill_worker();
  if (g_worker <= 0) {
    fflush(stdout);
    fflush(stderr);
    g_ctl->cmd_seq = 0;
    g_ctl->done_seq = 0;
    g_worker = fork();
    if (g_worker == 0) {
      worker_loop();
      _exit(0);
    }
    g_worker_cases = 0;
  }
  clear_result();
  g_ctl->cp = c.cp;
  g_ctl->prog_len = (uint32_t)std::min<size_t>(c.prog.size(), 4096);
  memcpy(g_ctl->prog, c.prog.data(), g_ctl->prog_len * sizeof(uint32_t));
  uint32_t seq = g_ctl->cmd_seq + 1;
  __atomic_store_n(&g_ctl->cmd_seq, seq, __ATOMIC_SEQ_CST);
  raw_futex_wake(&g_ctl->cmd_seq);
  g_worker_cases++;
  Outcome o;
  double t0 = now_s();
  int status = 0;
  bool died = false, timed_out = false;
  while (__atomic_load_n(&g_ctl->done_seq, __ATOMIC_SEQ_CST) != seq) {
    raw_futex_wait(&g_ctl->done_seq, seq - 1, 2000000L);
    if (__atomic_load_n(&g_ctl->done_seq, __ATOMIC_SEQ_CST) == seq) break;
    pid_t r = waitpid(g_worker, &status, WNOHANG);
    if (r == g_worker) { died = true; g_worker = -1; break; }
    if (now_s() - t0 > g_case_timeout_s) {
      kill_worker();
      timed_out = true;
      died = true;
      break;
    }
  }
  collect(o);
  if (died) classify_death(o, timed_out, status);
  return o;
}

bool is_failure(const Outcome& o) {
  return o.verdict == dsched::V_VIOLATION || o.verdict == dsched::V_DEADLOCK || o.verdict == dsched::V_LIVELOCK ||
         o.verdict == dsched::V_CRASH;
}
bool same_failure(const Outcome& a, const Outcome& b) {
  return is_failure(b) && a.verdict == b.verdict && a.oracle == b.oracle;
}

// ---------------------------------------------------------------------------
struct Stats {
  uint64_t cases = 0;
  uint64_t by_verdict[8] = {};
  uint64_t nontrivial_cases = 0;
  std::set<uint64_t> distinct_nontrivial;
  std::map<std::string, std::pair<uint64_t, uint64_t>> labels;  // name -> (cases, total)
  std::vector<std::string> samples;
  uint64_t steps = 0, switches = 0, futex_sleeps = 0, futex_wakes = 0, stale_reads = 0;
  uint64_t weak_cases = 0, by_strategy[3] = {};
  uint64_t excluded_known = 0;
  std::map<std::string, uint64_t> inconclusive_why;
  uint64_t history_dependent = 0;
  std::vector<std::string> history_notes;
} S;

std::string sample_json(const Case& c, const Outcome& o) {
  std::ostringstream s;
  s << "{\"case\":" << jstr(o.describe) << ",\"verdict\":" << jstr(dsched::verdict_name(o.verdict))
    << ",\"strategy\":" << c.cp.strategy << ",\"weak\":" << (c.cp.p_stale > 0 ? "true" : "false")
    << ",\"threads\":" << o.nthreads << ",\"steps\":" << o.steps << ",\"switches\":" << o.switches
    << ",\"first_decisions\":[";
  for (size_t i = 0; i < o.decisions.size() && i < 24; i++) s << (i ? "," : "") << o.decisions[i];
  s << "]}";
  return s.str();
}

void account(const Case& c, const Outcome& o) {
  S.cases++;
  S.by_verdict[o.verdict & 7]++;
  S.steps += o.steps;
  S.switches += o.switches;
  S.futex_sleeps += o.futex_sleeps;
  S.futex_wakes += o.futex_wakes;
  S.stale_reads += o.stale_reads;
  if (c.cp.p_stale > 0) S.weak_cases++;
  S.by_strategy[c.cp.strategy % 3]++;
  for (auto& l : o.labels) {
    auto& e = S.labels[l.first];
    e.first++;
    e.second += l.second;
  }
  if (o.verdict == dsched::V_DISCARD && o.oracle.rfind("known:", 0) == 0) S.excluded_known++;
  if (o.verdict == dsched::V_INCONCLUSIVE) S.inconclusive_why[o.oracle]++;
  if (o.verdict == dsched::V_PASS && o.nontrivial) {
    S.nontrivial_cases++;
    uint64_t h = o.hash;
    for (uint16_t d : o.decisions) h = (h ^ d) * 0x100000001b3ULL;
    for (size_t i = 0; i < c.prog.size() && i < o.consumed; i++) h = (h ^ c.prog[i]) * 0x100000001b3ULL;
    bool fresh = S.distinct_nontrivial.insert(h).second;
    if (fresh && S.samples.size() < 4) S.samples.push_back(sample_json(c, o));
  }
}

// ---------------------------------------------------------------------------
void write_replay(const std::string& path, const Case& c, const std::vector<uint16_t>& dec, const Outcome& o) {
  std::ofstream f(path);
  f << "{\n \"target\": " << jstr(g_target->name) << ",\n \"property\": " << jstr(g_target->property_id)
    << ",\n \"verdict\": " << jstr(dsched::verdict_name(o.verdict)) << ",\n \"oracle\": " << jstr(o.oracle)
    << ",\n \"message\": " << jstr(o.message) << ",\n \"case\": " << jstr(o.describe)
    << ",\n \"sched_seed\": " << c.cp.sched_seed << ",\n \"strategy\": " << c.cp.strategy
    << ",\n \"pct_depth\": " << c.cp.pct_depth << ",\n \"p_switch\": " << c.cp.p_switch
    << ",\n \"p_stale\": " << c.cp.p_stale << ",\n \"p_eintr\": " << c.cp.p_eintr << ",\n \"allow_known\": " << jstr(getenv("VF_ALLOW_KNOWN") ? getenv("VF_ALLOW_KNOWN") : "")
    << ",\n \"prog\": [";
  for (size_t i = 0; i < c.prog.size(); i++) f << (i ? "," : "") << c.prog[i];
  f << "],\n \"decisions\": [";
  for (size_t i = 0; i < dec.size(); i++) f << (i ? "," : "") << dec[i];
  f << "]\n}\n";
}

bool find_key(const std::string& s, const char* key, size_t* pos) {
  std::string k = std::string("\"") + key + "\":";
  size_t p = s.find(k);
  if (p == std::string::npos) return false;
  *pos = p + k.size();
  return true;
}
long long read_int(const std::string& s, const char* key, long long def) {
  size_t p;
  if (!find_key(s, key, &p)) return def;
  return strtoll(s.c_str() + p, nullptr, 10);
}
template <class T>
std::vector<T> read_arr(const std::string& s, const char* key) {
  std::vector<T> v;
  size_t p;
  if (!find_key(s, key, &p)) return v;
  p = s.find('[', p);
  if (p == std::string::npos) return v;
  p++;
  while (p < s.size() && s[p] != ']') {
    char* e;
    unsigned long long x = strtoull(s.c_str() + p, &e, 10);
    if (e == s.c_str() + p) { p++; continue; }
    v.push_back((T)x);
    p = (size_t)(e - s.c_str());
  }
  return v;
}

bool load_replay(const std::string& path, Case* c, std::vector<uint16_t>* dec) {
  std::ifstream f(path);
  if (!f) return false;
  std::stringstream ss;
  ss << f.rdbuf();
  std::string s = ss.str();
  // normalise "key": value -> "key":value
  std::string t;
  for (size_t i = 0; i < s.size(); i++) {
    t += s[i];
    if (s[i] == ':' && i > 0 && s[i - 1] == '"')
      while (i + 1 < s.size() && s[i + 1] == ' ') i++;
  }
  c->cp.sched_seed = (uint64_t)read_int(t, "sched_seed", 1);
  c->cp.strategy = (int)read_int(t, "strategy", 0);
  c->cp.pct_depth = (int)read_int(t, "pct_depth", 2);
  c->cp.p_switch = (int)read_int(t, "p_switch", 200);
  c->cp.p_stale = (int)read_int(t, "p_stale", 0);
  c->cp.p_eintr = (int)read_int(t, "p_eintr", 0);
  {
    // the environment switch the case was recorded under (known-finding witnesses)
    size_t p;
    if (find_key(t, "allow_known", &p) && p < t.size() && t[p] == '"') {
      size_t e = t.find('"', p + 1);
      if (e != std::string::npos && e > p + 1) setenv("VF_ALLOW_KNOWN", t.substr(p + 1, e - p - 1).c_str(), 1);
    }
  }
  c->prog = read_arr<uint32_t>(t, "prog");
  *dec = read_arr<uint16_t>(t, "decisions");
  return true;
}

// Minimise the decision list while the same failure reproduces.
std::vector<uint16_t> minimise_decisions(const Case& c, const Outcome& fail, std::vector<uint16_t> dec, int budget) {
  auto still = [&](const std::vector<uint16_t>& d) {
    if (budget-- <= 0) return false;
    Outcome o = run_child(c, &d);
    return same_failure(fail, o);
  };
  // drop the tail (defaults take over)
  size_t lo = 0, hi = dec.size();
  while (lo < hi && budget > 0) {
    size_t mid = (lo + hi) / 2;
    std::vector<uint16_t> d(dec.begin(), dec.begin() + (long)mid);
    if (still(d)) hi = mid; else lo = mid + 1;
  }
  {
    std::vector<uint16_t> d(dec.begin(), dec.begin() + (long)hi);
    if (hi < dec.size() && still(d)) dec = d;
  }
  // replace chunks, then single decisions, by the default
  for (size_t chunk = std::max<size_t>(1, dec.size() / 4); chunk >= 1 && budget > 0; chunk /= 2) {
    for (size_t i = 0; i < dec.size() && budget > 0; i += chunk) {
      std::vector<uint16_t> d = dec;
      bool any = false;
      for (size_t j = i; j < std::min(dec.size(), i + chunk); j++)
        if (d[j] != dsched::D_DEFAULT) { d[j] = dsched::D_DEFAULT; any = true; }
      if (any && still(d)) dec = d;
    }
    if (chunk == 1) break;
  }
  while (!dec.empty() && dec.back() == dsched::D_DEFAULT) dec.pop_back();
  return dec;
}

struct Args {
  uint64_t seed = 1;
  int shard = 0;
  int cases = 200;
  double budget_s = 0;  // 0: by case count only
  double shrink_budget_s = 45;
  std::string out, replay, replay_dir = "replays";
  bool quiet = false;
};

void write_fragment(const Args& a, double wall, int violations, const std::string& viol_json) {
  if (a.out.empty()) return;
  std::ofstream f(a.out);
  f << "{\"target\":" << jstr(g_target->name) << ",\"property_id\":" << jstr(g_target->property_id)
    << ",\"shard\":" << a.shard << ",\"seed\":" << a.seed << ",\"cases\":" << S.cases
    << ",\"nontrivial_cases\":" << S.nontrivial_cases << ",\"wall_s\":" << wall << ",\"violations\":" << violations
    << ",\"verdicts\":{";
  for (int i = 0; i < 8; i++) f << (i ? "," : "") << jstr(dsched::verdict_name(i)) << ":" << S.by_verdict[i];
  f << "},\"distinct_nontrivial_hashes\":[";
  bool first = true;
  for (uint64_t h : S.distinct_nontrivial) { f << (first ? "" : ",") << "\"" << std::hex << h << std::dec << "\""; first = false; }
  f << "],\"labels\":{";
  first = true;
  for (auto& l : S.labels) {
    f << (first ? "" : ",") << jstr(l.first) << ":[" << l.second.first << "," << l.second.second << "]";
    first = false;
  }
  f << "},\"inconclusive_why\":{";
  first = true;
  for (auto& l : S.inconclusive_why) { f << (first ? "" : ",") << jstr(l.first) << ":" << l.second; first = false; }
  f << "},\"steps\":" << S.steps << ",\"switches\":" << S.switches << ",\"futex_sleeps\":" << S.futex_sleeps
    << ",\"futex_wakes\":" << S.futex_wakes << ",\"stale_reads\":" << S.stale_reads << ",\"weak_cases\":" << S.weak_cases
    << ",\"strategy_mix\":{\"random\":" << S.by_strategy[0] << ",\"pct\":" << S.by_strategy[1] << ",\"starve\":" << S.by_strategy[2]
    << "},\"excluded_known\":" << S.excluded_known << ",\"history_dependent\":" << S.history_dependent << ",\"rule\":" << jstr(g_target->nontrivial_rule) << ",\"samples\":[";
  for (size_t i = 0; i < S.samples.size(); i++) f << (i ? "," : "") << S.samples[i];
  f << "],\"violation\":" << (viol_json.empty() ? "null" : viol_json) << "}\n";
}

}  // namespace

bool thorough() {
  static int v = -1;
  if (v < 0) { const char* e = getenv("VERIF_TIER"); v = (e && !strcmp(e, "thorough")) ? 1 : 0; }
  return v == 1;
}

int main_driver(int argc, char** argv, const Target& t) {
  g_target = &t;
  Args a;
  for (int i = 1; i < argc; i++) {
    std::string k = argv[i];
    auto val = [&]() -> const char* { return i + 1 < argc ? argv[++i] : ""; };
    if (k == "--seed") a.seed = strtoull(val(), nullptr, 10);
    else if (k == "--shard") a.shard = atoi(val());
    else if (k == "--cases") a.cases = atoi(val());
    else if (k == "--budget") a.budget_s = atof(val());
    else if (k == "--shrink-budget") a.shrink_budget_s = atof(val());
    else if (k == "--out") a.out = val();
    else if (k == "--replay") a.replay = val();
    else if (k == "--replay-dir") a.replay_dir = val();
    else if (k == "--case-timeout") g_case_timeout_s = atof(val());
    else if (k == "--quiet") a.quiet = true;
  }
  g_shared = (dsched::Result*)mmap(nullptr, sizeof(dsched::Result), PROT_READ | PROT_WRITE, MAP_SHARED | MAP_ANONYMOUS, -1, 0);
  if (g_shared == MAP_FAILED) { perror("mmap"); return 2; }
  g_ctl = (Control*)mmap(nullptr, sizeof(Control), PROT_READ | PROT_WRITE, MAP_SHARED | MAP_ANONYMOUS, -1, 0);
  if (g_ctl == MAP_FAILED) { perror("mmap"); return 2; }

  if (!a.replay.empty()) {
    Case c;
    std::vector<uint16_t> dec;
    if (!load_replay(a.replay, &c, &dec)) { fprintf(stderr, "cannot read %s\n", a.replay.c_str()); return 2; }
    int fails = 0;
    Outcome last;
    for (int i = 0; i < 3; i++) {
      last = run_child(c, &dec);
      if (is_failure(last)) fails++;
    }
    printf("REPLAY target=%s file=%s verdict=%s oracle=%s fails=%d/3\n  %s\n  case: %s\n", t.name, a.replay.c_str(),
           dsched::verdict_name(last.verdict), last.oracle.c_str(), fails, last.message.c_str(), last.describe.c_str());
    return fails == 3 ? 1 : 0;
  }

  double t0 = now_s();
  // rapidcheck is configured only through RC_PARAMS
  {
    char buf[256];
    uint64_t rc_seed = a.seed * 1000003ULL + (uint64_t)a.shard * 7919ULL + 1;
    snprintf(buf, sizeof buf, "seed=%llu max_success=%d max_size=100 max_discard_ratio=100 noshrink=0", (unsigned long long)rc_seed, a.cases);
    setenv("RC_PARAMS", buf, 1);
  }
  Case last_fail_case;
  Outcome last_fail;
  bool have_fail = false;
  size_t prog_len = t.prog_len;
  bool budget_hit = false;

  auto gen_case = rc::gen::exec([prog_len, &t]() {
    Case c;
    c.prog = *rc::gen::container<std::vector<uint32_t>>(prog_len, rc::gen::resize(100, rc::gen::inRange<uint32_t>(0, 0xFFFFFFFFu)));
    c.cp.sched_seed = *rc::gen::resize(100, rc::gen::inRange<uint64_t>(1, 1ULL << 40));
    c.cp.strategy = *rc::gen::resize(100, rc::gen::inRange<int>(0, 3));  // upper bound exclusive
    c.cp.pct_depth = *rc::gen::resize(100, rc::gen::inRange<int>(1, 6));
    c.cp.p_switch = *rc::gen::resize(100, rc::gen::element(30, 100, 250, 500));
    int weak = *rc::gen::resize(100, rc::gen::inRange<int>(0, 100));
    c.cp.p_stale = (t.allow_weak && weak < t.weak_percent) ? *rc::gen::resize(100, rc::gen::element(100, 300, 600)) : 0;
    // derived from the schedule seed, not drawn: targets that do not opt in generate exactly what they did before
    c.cp.p_eintr = (t.eintr_percent > 0 && (int)((c.cp.sched_seed * 2654435761ULL >> 16) % 100) < t.eintr_percent) ? ((c.cp.sched_seed & 1) ? 60 : 250) : 0;
    return c;
  });

  double shrink_t0 = 0;
  int shrink_runs = 0;
  double normal_timeout = g_case_timeout_s;
  auto same_prefix = [&](const Case& c) {
    if (!have_fail) return false;
    const Case& f = last_fail_case;
    if (c.cp.sched_seed != f.cp.sched_seed || c.cp.strategy != f.cp.strategy || c.cp.pct_depth != f.cp.pct_depth ||
        c.cp.p_switch != f.cp.p_switch || c.cp.p_stale != f.cp.p_stale || c.cp.p_eintr != f.cp.p_eintr)
      return false;
    size_t n = std::min<size_t>(last_fail.consumed, f.prog.size());
    if (last_fail.consumed == 0) return false;
    for (size_t i = 0; i < n; i++)
      if (c.prog[i] != f.prog[i]) return false;
    return true;
  };
  bool ok = rc::check(std::string(t.name), [&]() {
    if (budget_hit) return;  // budget exhausted: remaining cases are skipped
    Case c = *gen_case;
    if (have_fail) {
      // shrinking: bounded by time and runs; an identical consumed prefix needs no run
      if (same_prefix(c)) { last_fail_case = c; RC_FAIL(last_fail.oracle); }
      if (now_s() - shrink_t0 > a.shrink_budget_s || shrink_runs > 3000) return;
      shrink_runs++;
      g_case_timeout_s = std::min(normal_timeout, 3.0);
    }
    Outcome o = have_fail ? run_child(c, nullptr) : run_in_worker(c);
    if (!have_fail && is_failure(o)) {
      // confirm in a fresh process: only failures that do not depend on what
      // earlier cases left behind in the worker are shrunk and reported
      Outcome o2 = run_child(c, nullptr);
      if (same_failure(o, o2)) {
        o = o2;
      } else {
        S.history_dependent++;
        if (S.history_notes.size() < 3) S.history_notes.push_back(o.oracle + ": " + o.message + " | " + o.describe);
        o.verdict = dsched::V_INCONCLUSIVE;
        o.oracle = "history-dependent";
      }
    }
    if (!have_fail) account(c, o);
    if (a.budget_s > 0 && now_s() - t0 > a.budget_s) budget_hit = true;
    if (is_failure(o) && (!have_fail || same_failure(last_fail, o))) {
      if (!have_fail) shrink_t0 = now_s();
      last_fail_case = c;
      last_fail = o;
      have_fail = true;
      RC_FAIL(o.oracle + ": " + o.message);
    }
  });
  g_case_timeout_s = normal_timeout;
  kill_worker();
  (void)ok;

  int violations = 0;
  std::string viol_json;
  if (have_fail) {
    // rapidcheck's last failing invocation is the shrunk case
    std::vector<uint16_t> dec = minimise_decisions(last_fail_case, last_fail, last_fail.decisions, 400);
    int fails = 0;
    Outcome o;
    for (int i = 0; i < 3; i++) {
      o = run_child(last_fail_case, &dec);
      if (same_failure(last_fail, o)) fails++;
    }
    mkdir(a.replay_dir.c_str(), 0755);
    char name[512];
    snprintf(name, sizeof name, "%s/%s-%s-s%llu-k%d.json", a.replay_dir.c_str(), t.property_id, t.name,
             (unsigned long long)a.seed, a.shard);
    if (fails == 3) {
      write_replay(name, last_fail_case, dec, o);
      violations = 1;
      printf("VIOLATION property=%s replay=%s\n", t.property_id, name);
      printf("  target=%s verdict=%s oracle=%s\n  %s\n  case: %s\n", t.name, dsched::verdict_name(o.verdict), o.oracle.c_str(),
             o.message.c_str(), o.describe.c_str());
      std::ostringstream vj;
      vj << "{\"replay\":" << jstr(name) << ",\"verdict\":" << jstr(dsched::verdict_name(o.verdict)) << ",\"oracle\":" << jstr(o.oracle)
         << ",\"message\":" << jstr(o.message) << ",\"case\":" << jstr(o.describe) << "}";
      viol_json = vj.str();
    } else {
      // not reproducible from its own decision list: a harness problem, never a verdict
      std::string n2 = std::string(name) + ".unreproducible";
      write_replay(n2, last_fail_case, last_fail.decisions, last_fail);
      printf("UNREPRODUCIBLE target=%s oracle=%s fails=%d/3 file=%s\n  %s\n", t.name, last_fail.oracle.c_str(), fails, n2.c_str(),
             last_fail.message.c_str());
      S.inconclusive_why["unreproducible"]++;
    }
  }
  write_fragment(a, now_s() - t0, violations, viol_json);
  if (!a.quiet)
    fprintf(stderr, "[%s shard %d] cases=%llu pass=%llu nontrivial=%llu distinct=%zu inconclusive=%llu discard=%llu wall=%.1fs\n", t.name,
            a.shard, (unsigned long long)S.cases, (unsigned long long)S.by_verdict[0], (unsigned long long)S.nontrivial_cases,
            S.distinct_nontrivial.size(), (unsigned long long)S.by_verdict[5], (unsigned long long)S.by_verdict[6], now_s() - t0);
  return violations ? 1 : 0;
}

}  // namespace vf
