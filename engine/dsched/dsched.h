// dsched: deterministic schedule / clock / visibility fuzzer runtime.
//
// Code under test is compiled with `-fsanitize=thread` (atomics only) but linked
// WITHOUT the TSan runtime: this library implements the `__tsan_*` entry points
// and interposes futex/pthread/time entry points so that exactly one thread runs
// at a time and every scheduling, timing and visibility decision is ours.
#pragma once
#include <stddef.h>
#include <stdint.h>

#include <functional>
#include <string>
#include <vector>

namespace dsched {

enum Verdict : int {
  V_PASS = 0,
  V_VIOLATION = 1,
  V_DEADLOCK = 2,
  V_LIVELOCK = 3,
  V_CRASH = 4,
  V_INCONCLUSIVE = 5,
  V_DISCARD = 6,
  V_NONE = 7,  // child died before writing anything
};
const char* verdict_name(int v);

enum Strategy : int { S_RANDOM = 0, S_PCT = 1, S_STARVE = 2 };

// Threads per case. The default keeps per-cell bookkeeping small; a target that needs many threads (for example to
// push babylon's per-thread ids across a 128-slot block) is built with -DDSCHED_MAXT=<n> (vf builds a matching engine).
#ifndef DSCHED_MAXT
#define DSCHED_MAXT 24
#endif
constexpr int MAXT = DSCHED_MAXT;
constexpr uint16_t D_DEFAULT = 0xFFFF;

struct Params {
  uint64_t seed = 1;
  int strategy = S_RANDOM;
  int pct_depth = 2;
  int pct_est_steps = 400;
  uint32_t p_switch_x1000 = 200;   // RANDOM: probability to switch at a point
  uint32_t p_stale_x1000 = 0;      // weak mode when > 0
  uint32_t p_spurious_x1000 = 0;   // weak CAS spurious failure
  uint32_t p_eintr_x1000 = 0;      // futex_wait that would sleep returns early instead: EINTR, or 0 without a wake (futex(2): both may happen)
  uint64_t max_steps = 300000;
  int64_t clock_base_ns = 1000000000000LL;  // value of every clock at start
  bool livelock_is_violation = true;
  bool replay = false;
  std::vector<uint16_t> decisions;  // replay only
};

// Result block shared between the forked child and the driver.
struct Result {
  volatile int verdict;
  char oracle[64];
  char message[2048];
  uint64_t steps;
  uint64_t switches;
  uint32_t nthreads;
  uint32_t futex_sleeps;      // threads that really slept in futex_wait
  uint32_t futex_wakes;       // sleepers released by futex_wake
  uint32_t stale_reads;       // loads that returned a non-latest message
  volatile uint32_t nontrivial;
  uint64_t case_hash;
  volatile uint32_t consumed; // program choices consumed
  uint32_t nlabels;
  struct Label { char name[40]; uint32_t count; } labels[96];
  char describe[16384];
  volatile uint32_t ndecisions;
  uint32_t decisions_overflow;
  uint16_t decisions[1 << 20];
};

void set_result_block(Result* r);  // driver: before fork
Result* result_block();

// Run `body` as thread 0 under the scheduler. Returns after every thread that
// was started has finished. Ends the process on any non-PASS verdict.
void run(const Params&, const std::function<void()>& body);

// Set-up phases (pre-fill, epoch pump, long pre-histories) may run unscheduled: no schedule points, real atomics.
// Legal while no other thread exists, or while every other thread is parked at a schedule point for the whole
// phase (they hold no references into the runtime's tables); quiet_end() forgets every recorded atomic history.
void quiet_begin();
void quiet_end();

bool active();              // inside run() on a scheduled thread
bool weak_mode();           // stale reads enabled for this case
int tid();                  // scheduled thread id (0 = body)
uint64_t step();            // logical time: number of schedule points so far
void point();               // explicit schedule point
void yield_point();         // schedule point that prefers another thread
int64_t now_ns();           // virtual clock (offset since start)
void advance_clock(int64_t ns);
// virtual time at which the calling thread last read any clock (clock_gettime, gettimeofday, absl::GetCurrentTimeNanos)
int64_t last_clock_read_ns();

struct Stamp { int tid; uint32_t clk; uint64_t step; };
Stamp stamp();                       // mark "this thread, now"
bool happens_after(const Stamp&);    // current thread is hb-after the stamp
// real-time order in SC mode, happens-before in weak mode
bool ordered_after(const Stamp&);

[[noreturn]] void fail(const char* oracle, const char* fmt, ...)
    __attribute__((format(printf, 2, 3)));
[[noreturn]] void discard(const char* why);
void label(const char* name);
void label_n(const char* name, uint32_t n);
void nontrivial();
void describe(const char* fmt, ...) __attribute__((format(printf, 1, 2)));
void mix_hash(uint64_t v);

// statistics available to targets for their NT rules
uint32_t stat_futex_sleeps();
uint32_t stat_futex_wakes();
uint64_t stat_switches();

// payload under the happens-before check
struct TrackState {
  uint32_t wclk = 0;
  int16_t wtid = -1;
  uint32_t rclk[MAXT] = {};
};
void track_write(TrackState*, const char* what);
void track_read(TrackState*, const char* what);
void track_reset(TrackState*);

template <class T>
struct Tracked {
  T v{};
  mutable TrackState ts;
  void set(const T& x, const char* what = "payload") {
    track_write(&ts, what);
    v = x;
  }
  T get(const char* what = "payload") const {
    track_read(&ts, what);
    return v;
  }
  T peek() const { return v; }  // unchecked (harness-internal, quiescent)
};

// memory lifetime hooks (freed ranges forget their atomic history)
void on_free(void* p, size_t n);

}  // namespace dsched
