// dsched runtime. Compiled WITHOUT -fsanitize=thread: atomics in here are real.
// See dsched.h and DESIGN.md section 2.
#include "dsched.h"

#include <dlfcn.h>
#include <errno.h>
#include <linux/futex.h>
#include <pthread.h>
#include <sched.h>
#include <stdarg.h>
#include <stdio.h>
#include <stdlib.h>
#include <string.h>
#include <sys/syscall.h>
#include <sys/time.h>
#include <time.h>
#include <unistd.h>

#include <string>

namespace dsched {
namespace {

////////////////////////////////////////////////////////////////////////////////
// raw helpers that never go through our own interposers
long raw_futex(volatile uint32_t* addr, int op, uint32_t val) {
  long ret;
  register long r10 __asm__("r10") = 0;
  __asm__ volatile("syscall"
                   : "=a"(ret)
                   : "0"((long)SYS_futex), "D"(addr), "S"((long)op), "d"((long)val), "r"(r10)
                   : "rcx", "r11", "memory");
  return ret;
}

struct Rng {
  uint64_t s;
  uint64_t next() {
    uint64_t z = (s += 0x9e3779b97f4a7c15ULL);
    z = (z ^ (z >> 30)) * 0xbf58476d1ce4e5b9ULL;
    z = (z ^ (z >> 27)) * 0x94d049bb133111ebULL;
    return z ^ (z >> 31);
  }
  uint32_t below(uint32_t n) { return n ? (uint32_t)(next() % n) : 0; }
  bool chance1000(uint32_t p) { return p && below(1000) < p; }
};

////////////////////////////////////////////////////////////////////////////////
struct VC {
  uint32_t c[MAXT];
  void clear() { memset(c, 0, sizeof c); }
  void join(const VC& o);
};

enum TState { T_UNUSED = 0, T_RUNNABLE, T_BLOCKED, T_FINISHED };
enum BlockKind { B_NONE = 0, B_FUTEX, B_MUTEX, B_COND, B_JOIN, B_SLEEP, B_ONCE, B_JOINALL };

struct Thread {
  int id;
  TState st;
  BlockKind bk;
  uintptr_t wait_addr;
  int64_t deadline;  // virtual ns, -1 none
  bool timed_out;
  volatile uint32_t baton;
  pthread_t pth;
  void* (*fn)(void*);
  void* arg;
  bool detached;
  bool joined;
  VC vc, acq_pending, rel_fence;
  int64_t prio;
  uint32_t spin;         // consecutive yields without progress
  uint32_t load_streak;  // consecutive atomic loads without a write
  int64_t last_clock_read;  // virtual time of this thread's last clock read
  uint32_t sc_clk;       // own clock value at this thread's last seq_cst fence (0: none yet)
};

struct MutexSt { uintptr_t addr; int owner; int count; VC vc; };
struct OnceSt { uintptr_t addr; int state; VC vc; };  // 0 none 1 running 2 done

// ---- atomic cells (view model) ------------------------------------------------
constexpr int RING = 8;
struct WriteRec {
  uint64_t wid;
  uint64_t step;
  int16_t wtid;       // -1: known to everybody
  uint32_t wclk;
  uint8_t mask;       // bytes covered
  uint8_t val[8];
  uint64_t stale_by[(MAXT + 63) / 64];  // bitmask of tids whose last read of it was stale
  VC rel;
  uint32_t rd[MAXT];  // min reader clock per tid (0 none)
};
struct Cell {
  uintptr_t base;     // 8-byte aligned address
  uint8_t base_val[8];
  uint64_t base_wid;
  VC base_rel;
  int n;
  WriteRec w[RING];
};

struct Global {
  bool active;
  Params P;
  Rng rng;
  Thread th[MAXT];
  int nth;
  int cur;
  uint64_t steps, switches;
  int64_t vclock;  // ns since start
  uint64_t last_progress_step;
  int64_t last_real_progress_vclock;
  uint64_t timeouts_since_progress;
  VC sc;
  uint64_t wid_counter;
  size_t replay_pos;
  // PCT
  uint64_t pct_change[8];
  int64_t pct_low;
  // STARVE: one thread is kept off the CPU for a window of steps
  int starve_victim;
  uint64_t starve_from, starve_to;
  // tables
  Cell** cells;
  size_t cells_cap, cells_n;
  MutexSt mtx[512];
  int nmtx;
  OnceSt once[256];
  int nonce;
  uint64_t hash;
} G;

inline void VC::join(const VC& o) {
  int n = G.nth < MAXT ? G.nth : MAXT;  // components beyond the threads created so far are zero
  for (int i = 0; i < n; i++)
    if (o.c[i] > c[i]) c[i] = o.c[i];
}

Result* R = nullptr;
Result local_result;
pthread_key_t exit_key;
bool key_made = false;
thread_local Thread* tl_self = nullptr;

// real functions
typedef int (*pthread_create_t)(pthread_t*, const pthread_attr_t*, void* (*)(void*), void*);
typedef int (*pthread_join_t)(pthread_t, void**);
typedef int (*pthread_detach_t)(pthread_t);
typedef int (*mutex_fn_t)(pthread_mutex_t*);
typedef int (*cond_wait_t)(pthread_cond_t*, pthread_mutex_t*);
typedef int (*cond_timedwait_t)(pthread_cond_t*, pthread_mutex_t*, const struct timespec*);
typedef int (*cond_fn_t)(pthread_cond_t*);
typedef int (*once_t)(pthread_once_t*, void (*)(void));
typedef long (*syscall_t)(long, ...);
typedef int (*clock_gettime_t)(clockid_t, struct timespec*);
typedef int (*gettimeofday_t)(struct timeval*, void*);
typedef time_t (*time_fn_t)(time_t*);
typedef int (*usleep_t)(useconds_t);
typedef int (*nanosleep_t)(const struct timespec*, struct timespec*);
typedef int (*clock_nanosleep_t)(clockid_t, int, const struct timespec*, struct timespec*);
typedef int (*sched_yield_t)(void);

template <class F>
F real(const char* name) {
  return (F)dlsym(RTLD_NEXT, name);
}
#define REAL(type, name)                          \
  static type real_##name = nullptr;              \
  if (!real_##name) real_##name = real<type>(#name)

////////////////////////////////////////////////////////////////////////////////
void write_result(int verdict, const char* oracle, const char* msg) {
  if (!R) R = &local_result;
  R->steps = G.steps;
  R->switches = G.switches;
  R->nthreads = (uint32_t)G.nth;
  R->case_hash = G.hash;
  if (oracle) snprintf(R->oracle, sizeof R->oracle, "%s", oracle);
  if (msg) snprintf(R->message, sizeof R->message, "%s", msg);
  __atomic_store_n(&R->verdict, verdict, __ATOMIC_SEQ_CST);
}

[[noreturn]] void finish(int verdict, const char* oracle, const char* msg) {
  write_result(verdict, oracle, msg);
  _exit(verdict == V_PASS ? 0 : 10 + verdict);
}

void record_decision(uint16_t d) {
  if (!R) return;
  uint32_t n = R->ndecisions;
  if (n < (1u << 20)) {
    R->decisions[n] = d;
    R->ndecisions = n + 1;
  } else {
    R->decisions_overflow = 1;
  }
}

// returns true and sets *d if a replay decision is available
uint16_t replay_next() {
  if (G.replay_pos < G.P.decisions.size()) return G.P.decisions[G.replay_pos++];
  return D_DEFAULT;
}

void progress() { G.last_progress_step = G.steps; }
// progress that is not merely a timer firing (value-changing write, wake-up, thread birth/death, lock hand-over)
void real_progress() {
  G.last_real_progress_vclock = G.vclock;
  G.timeouts_since_progress = 0;
}

////////////////////////////////////////////////////////////////////////////////
// baton
void wait_baton(Thread* t) {
  while (__atomic_load_n(&t->baton, __ATOMIC_ACQUIRE) == 0) {
    raw_futex(&t->baton, FUTEX_WAIT | FUTEX_PRIVATE_FLAG, 0);
  }
  __atomic_store_n(&t->baton, 0, __ATOMIC_RELAXED);
}
void give_baton(Thread* t) {
  G.cur = t->id;
  __atomic_store_n(&t->baton, 1, __ATOMIC_RELEASE);
  raw_futex(&t->baton, FUTEX_WAKE | FUTEX_PRIVATE_FLAG, 1);
}

void make_runnable(Thread* t, bool timed_out) {
  if (timed_out) G.timeouts_since_progress++;
  else real_progress();
  t->st = T_RUNNABLE;
  t->bk = B_NONE;
  t->timed_out = timed_out;
  t->deadline = -1;
  t->spin = 0;
  progress();
}

void fire_timers() {
  for (int i = 0; i < G.nth; i++) {
    Thread* t = &G.th[i];
    if (t->st == T_BLOCKED && t->deadline >= 0 && t->deadline <= G.vclock) make_runnable(t, true);
  }
}

int64_t next_deadline() {
  int64_t best = -1;
  for (int i = 0; i < G.nth; i++) {
    Thread* t = &G.th[i];
    if (t->st == T_BLOCKED && t->deadline >= 0 && (best < 0 || t->deadline < best)) best = t->deadline;
  }
  return best;
}

void describe_threads(char* buf, size_t n) {
  size_t off = 0;
  static const char* bk[] = {"none", "futex", "mutex", "cond", "join", "sleep", "once", "joinall"};
  for (int i = 0; i < G.nth && off + 64 < n; i++) {
    Thread* t = &G.th[i];
    off += snprintf(buf + off, n - off, "T%d:%s%s%s ", i,
                    t->st == T_RUNNABLE ? "run" : t->st == T_BLOCKED ? "blocked-" : t->st == T_FINISHED ? "done" : "?",
                    t->st == T_BLOCKED ? bk[t->bk] : "", (t->st == T_BLOCKED && t->deadline >= 0) ? "(timed)" : "");
  }
}

// Pick the next thread to run. `me` may be null / not runnable. Never returns -1
// unless every thread is finished.
int pick(Thread* me, bool me_yields) {
  for (;;) {
    fire_timers();
    int cands[MAXT];
    int nc = 0;
    bool all_done = true;
    for (int i = 0; i < G.nth; i++) {
      if (G.th[i].st == T_RUNNABLE) cands[nc++] = i;
      if (G.th[i].st != T_FINISHED) all_done = false;
    }
    if (nc == 0) {
      if (all_done) return -1;
      int64_t d = next_deadline();
      if (d >= 0) {
        if (d > G.vclock) G.vclock = d;
        continue;
      }
      char buf[1024];
      describe_threads(buf, sizeof buf);
      finish(V_DEADLOCK, "deadlock", buf);
    }
    // pollers that only ever time out: nothing but timers has happened for a long virtual time
    if (G.timeouts_since_progress > 300 && G.vclock - G.last_real_progress_vclock > 20000000000LL) {
      char buf[1024];
      describe_threads(buf, sizeof buf);
      finish(G.P.livelock_is_violation ? V_LIVELOCK : V_INCONCLUSIVE, "livelock",
             (std::string("only timers fired for 20 s of virtual time: ") + buf).c_str());
    }
    // livelock / clock jump: everybody runnable is spinning through yields
    bool all_spin = true;
    uint32_t min_spin = ~0u;
    for (int i = 0; i < nc; i++) {
      uint32_t s = G.th[cands[i]].spin;
      if (s < min_spin) min_spin = s;
      if (s < 3) all_spin = false;
    }
    if (all_spin) {
      int64_t d = next_deadline();
      if (d >= 0 && d > G.vclock) {
        G.vclock = d;
        for (int i = 0; i < nc; i++) G.th[cands[i]].spin = 0;
        continue;
      }
      if (d < 0 && min_spin >= 2000) {
        char buf[1024];
        describe_threads(buf, sizeof buf);
        finish(G.P.livelock_is_violation ? V_LIVELOCK : V_INCONCLUSIVE, "livelock", buf);
      }
    }
    if (nc == 1) return cands[0];
    bool me_ok = me && me->st == T_RUNNABLE;
    int def;
    if (me_ok && !me_yields) {
      def = me->id;
    } else {
      // default: the runnable thread after me in id order (round robin)
      def = cands[0];
      if (me)
        for (int i = 0; i < nc; i++)
          if (cands[i] > me->id) { def = cands[i]; break; }
      if (me_ok && def == me->id && nc > 1) def = cands[0] == me->id ? cands[1] : cands[0];
    }
    int chosen = def;
    if (G.P.replay) {
      uint16_t d = replay_next();
      if (d != D_DEFAULT) chosen = cands[d % nc];
    } else if (G.P.strategy == S_PCT) {
      int64_t bestp = INT64_MIN;
      for (int i = 0; i < nc; i++) {
        Thread* t = &G.th[cands[i]];
        if (me_yields && t == me) continue;
        if (t->prio > bestp) { bestp = t->prio; chosen = t->id; }
      }
    } else {
      bool sw = me_yields || !me_ok || G.rng.chance1000(G.P.p_switch_x1000);
      if (G.P.strategy == S_STARVE && G.steps >= G.starve_from && G.steps < G.starve_to) {
        // the victim stays off the CPU while anybody else can run
        int others[MAXT], no = 0;
        for (int i = 0; i < nc; i++)
          if (cands[i] != G.starve_victim) others[no++] = cands[i];
        if (no > 0 && no < nc) {
          if (me_ok && !me_yields && me->id != G.starve_victim && !sw) chosen = me->id;
          else chosen = others[G.rng.below((uint32_t)no)];
          sw = false;
        }
      }
      if (sw) {
        // uniformly among the others when yielding, among all otherwise
        if (me_ok && me_yields && nc > 1) {
          int k = (int)G.rng.below((uint32_t)(nc - 1));
          for (int i = 0, j = 0; i < nc; i++) {
            if (cands[i] == me->id) continue;
            if (j++ == k) { chosen = cands[i]; break; }
          }
        } else {
          chosen = cands[G.rng.below((uint32_t)nc)];
        }
      }
    }
    if (chosen == def) {
      record_decision(D_DEFAULT);
    } else {
      int idx = 0;
      for (int i = 0; i < nc; i++)
        if (cands[i] == chosen) idx = i;
      record_decision((uint16_t)idx);
    }
    return chosen;
  }
}

void switch_to(Thread* me, int next) {
  if (next == me->id) return;
  G.switches++;
  give_baton(&G.th[next]);
  wait_baton(me);
}

void pct_step(Thread* me) {
  if (G.P.strategy != S_PCT) return;
  for (int i = 0; i < G.P.pct_depth - 1 && i < 8; i++) {
    if (G.pct_change[i] == G.steps) me->prio = --G.pct_low;
  }
}

void sched_point_impl(Thread* me, bool yields) {
  G.steps++;
  G.vclock += 100;
  if (G.steps > G.P.max_steps) finish(V_INCONCLUSIVE, "step-budget", "max_steps reached");
  pct_step(me);
  if (yields) {
    me->spin++;
    if (G.P.strategy == S_PCT) me->prio = --G.pct_low;
  }
  int next = pick(me, yields);
  switch_to(me, next);
}

bool g_quiet = false;
inline Thread* self() { return (G.active && !g_quiet) ? tl_self : nullptr; }

// block the calling thread; returns true if it timed out
bool block(Thread* me, BlockKind bk, uintptr_t addr, int64_t deadline) {
  me->st = T_BLOCKED;
  me->bk = bk;
  me->wait_addr = addr;
  me->deadline = deadline;
  me->timed_out = false;
  G.steps++;
  G.vclock += 100;
  progress();
  int next = pick(me, false);
  if (next < 0) finish(V_DEADLOCK, "deadlock", "blocked with nobody left");
  if (next != me->id) {
    G.switches++;
    give_baton(&G.th[next]);
    wait_baton(me);
  }
  return me->timed_out;
}

////////////////////////////////////////////////////////////////////////////////
// thread lifecycle
void on_thread_exit(void* p) {
  Thread* t = (Thread*)p;
  if (!G.active) return;
  t->vc.c[t->id]++;
  t->st = T_FINISHED;
  progress();
  real_progress();
  for (int i = 0; i < G.nth; i++) {
    Thread* o = &G.th[i];
    if (o->st == T_BLOCKED && o->bk == B_JOIN && o->wait_addr == (uintptr_t)t->id) make_runnable(o, false);
    if (o->st == T_BLOCKED && o->bk == B_JOINALL) {
      bool all = true;
      for (int j = 0; j < G.nth; j++)
        if (j != o->id && G.th[j].st != T_FINISHED) all = false;
      if (all) make_runnable(o, false);
    }
  }
  tl_self = nullptr;
  G.steps++;
  int next = pick(nullptr, false);
  if (next >= 0) {
    G.switches++;
    give_baton(&G.th[next]);
  }
}

void* trampoline(void* p) {
  Thread* t = (Thread*)p;
  tl_self = t;
  pthread_setspecific(exit_key, t);
  wait_baton(t);
  return t->fn(t->arg);
}

Thread* find_by_pthread(pthread_t p) {
  // glibc recycles pthread_t values as soon as a thread was joined: newest first, joined records skipped
  for (int i = G.nth - 1; i > 0; i--)
    if (G.th[i].st != T_UNUSED && !G.th[i].joined && pthread_equal(G.th[i].pth, p)) return &G.th[i];
  return nullptr;
}

////////////////////////////////////////////////////////////////////////////////
// mutex / once model
MutexSt* mutex_state(uintptr_t a) {
  for (int i = 0; i < G.nmtx; i++)
    if (G.mtx[i].addr == a) return &G.mtx[i];
  if (G.nmtx >= 512) finish(V_INCONCLUSIVE, "harness", "too many mutexes");
  MutexSt* m = &G.mtx[G.nmtx++];
  m->addr = a;
  m->owner = -1;
  m->count = 0;
  m->vc.clear();
  return m;
}
void mutex_forget(uintptr_t a) {
  for (int i = 0; i < G.nmtx; i++)
    if (G.mtx[i].addr == a) {
      G.mtx[i] = G.mtx[--G.nmtx];
      return;
    }
}

int model_mutex_lock(Thread* me, pthread_mutex_t* pm, bool try_only) {
  sched_point_impl(me, false);
  MutexSt* m = mutex_state((uintptr_t)pm);
  bool recursive = (pm->__data.__kind & 3) == PTHREAD_MUTEX_RECURSIVE_NP;
  if (m->owner == me->id) {
    if (recursive) { m->count++; return 0; }
    if (try_only) return EBUSY;
    finish(V_DEADLOCK, "deadlock", "relock of a non-recursive mutex by its owner");
  }
  while (m->owner >= 0) {
    if (try_only) return EBUSY;
    block(me, B_MUTEX, (uintptr_t)pm, -1);
    m = mutex_state((uintptr_t)pm);
  }
  m->owner = me->id;
  m->count = 1;
  me->vc.join(m->vc);
  return 0;
}
int model_mutex_unlock(Thread* me, pthread_mutex_t* pm) {
  MutexSt* m = mutex_state((uintptr_t)pm);
  if (m->owner != me->id) return EPERM;
  if (--m->count > 0) return 0;
  me->vc.c[me->id]++;
  m->vc = me->vc;
  m->owner = -1;
  for (int i = 0; i < G.nth; i++) {
    Thread* o = &G.th[i];
    if (o->st == T_BLOCKED && o->bk == B_MUTEX && o->wait_addr == (uintptr_t)pm) make_runnable(o, false);
  }
  sched_point_impl(me, false);
  return 0;
}

////////////////////////////////////////////////////////////////////////////////
// cells
size_t cell_slot(uintptr_t base) {
  uint64_t h = (base >> 3) * 0x9e3779b97f4a7c15ULL;
  return (size_t)(h >> 20) & (G.cells_cap - 1);
}
void cells_grow() {
  size_t ocap = G.cells_cap;
  Cell** old = G.cells;
  G.cells_cap = ocap ? ocap * 2 : 1024;
  G.cells = (Cell**)calloc(G.cells_cap, sizeof(Cell*));
  for (size_t i = 0; i < ocap; i++)
    if (old[i] && old[i] != (Cell*)1) {
      size_t s = cell_slot(old[i]->base);
      while (G.cells[s]) s = (s + 1) & (G.cells_cap - 1);
      G.cells[s] = old[i];
    }
  free(old);
}
Cell* cell_find(uintptr_t base) {
  if (!G.cells_cap) return nullptr;
  size_t s = cell_slot(base);
  while (G.cells[s]) {
    if (G.cells[s] != (Cell*)1 && G.cells[s]->base == base) return G.cells[s];
    s = (s + 1) & (G.cells_cap - 1);
  }
  return nullptr;
}
void cell_reset(Cell* c) {
  memcpy(c->base_val, (void*)c->base, 8);
  c->base_wid = ++G.wid_counter;
  c->base_rel.clear();
  c->n = 0;
}
Cell* cell_get(uintptr_t base) {
  Cell* c = cell_find(base);
  if (c) return c;
  if ((G.cells_n + 1) * 2 > G.cells_cap) cells_grow();
  c = (Cell*)calloc(1, sizeof(Cell));
  c->base = base;
  cell_reset(c);
  size_t s = cell_slot(base);
  while (G.cells[s] && G.cells[s] != (Cell*)1) s = (s + 1) & (G.cells_cap - 1);
  G.cells[s] = c;
  G.cells_n++;
  return c;
}
void cell_erase(uintptr_t base) {
  if (!G.cells_cap) return;
  size_t s = cell_slot(base);
  while (G.cells[s]) {
    if (G.cells[s] != (Cell*)1 && G.cells[s]->base == base) {
      free(G.cells[s]);
      G.cells[s] = (Cell*)1;  // tombstone
      return;
    }
    s = (s + 1) & (G.cells_cap - 1);
  }
}

// latest value of byte lane b according to the history
uint8_t lane_latest(Cell* c, int b) {
  for (int i = c->n - 1; i >= 0; i--)
    if (c->w[i].mask & (1u << b)) return c->w[i].val[b];
  return c->base_val[b];
}

// fold external (uninstrumented / plain) writes into the history
void cell_sync(Cell* c, int off, int size) {
  const uint8_t* mem = (const uint8_t*)c->base;
  for (int b = off; b < off + size; b++)
    if (lane_latest(c, b) != mem[b]) {
      cell_reset(c);
      return;
    }
}

// Mixed-size accesses (a 16-bit store into a word others CAS as 32 bits) are outside ISO C++; the reading chosen
// here is the one every multi-copy-atomic machine gives (x86, ARMv8): once a thread's own write V to a cell has
// been followed by one of its seq_cst fences, every write that overlaps V and precedes it in the cell's order is
// globally performed, so the thread's later loads cannot take ANY lane from before such a write (for accesses of
// one size this is plain write-read coherence and removes nothing). Without the fence the lanes V does not
// cover stay free, which is what makes a missing fence in a "store half, re-load whole" waker observable.
bool covered_by_own_fenced_write(const Thread* t, const Cell* c, int idx) {
  const WriteRec& w = c->w[idx];
  for (int j = idx + 1; j < c->n; j++) {
    const WriteRec& v = c->w[j];
    if (v.wtid == t->id && (v.mask & w.mask) && t->sc_clk && v.wclk <= t->sc_clk) return true;
  }
  return false;
}

bool known(const Thread* t, const WriteRec& w) {
  if (w.wtid < 0) return true;
  if (t->vc.c[w.wtid] >= w.wclk) return true;
  for (int i = 0; i < G.nth; i++)
    if (w.rd[i] && t->vc.c[i] >= w.rd[i]) return true;
  return false;
}

void evict_oldest(Cell* c) {
  WriteRec& w = c->w[0];
  for (int b = 0; b < 8; b++)
    if (w.mask & (1u << b)) c->base_val[b] = w.val[b];
  c->base_wid = w.wid;
  c->base_rel.join(w.rel);
  memmove(&c->w[0], &c->w[1], sizeof(WriteRec) * (size_t)(c->n - 1));
  c->n--;
}

WriteRec* append_write(Thread* me, Cell* c, int off, int size, uint64_t v, const VC& rel) {
  if (c->n == RING) evict_oldest(c);
  WriteRec& w = c->w[c->n++];
  memset(&w, 0, sizeof w);
  w.wid = ++G.wid_counter;
  w.step = G.steps;
  w.wtid = (int16_t)me->id;
  w.wclk = me->vc.c[me->id];
  w.mask = (uint8_t)(((1u << size) - 1) << off);
  memcpy(w.val + off, &v, (size_t)size);
  w.rel = rel;
  memcpy((uint8_t*)c->base + off, &v, (size_t)size);  // real memory = latest
  return &w;
}

constexpr uint64_t STALE_AGE_STEPS = 3000;

// Choose, for each byte lane of the access, the index into c->w (or -1 = base)
// that this load reads. `allow_stale` false => latest everywhere.
void choose_lanes(Thread* me, Cell* c, int off, int size, bool allow_stale, int* out, bool* was_stale) {
  *was_stale = false;
  int latest[8], floor_[8], ncand_max = 1;
  for (int b = off; b < off + size; b++) {
    int lat = -1;
    for (int i = c->n - 1; i >= 0; i--)
      if (c->w[i].mask & (1u << b)) { lat = i; break; }
    latest[b] = lat;
    out[b] = lat;
    floor_[b] = lat;
  }
  if (!allow_stale || c->n == 0) return;
  for (int b = off; b < off + size; b++) {
    // walk back from the latest while the write is not yet forced on us
    int cur = latest[b];
    int ncand = 1;
    while (cur >= 0) {
      const WriteRec& w = c->w[cur];
      // the message below `cur` is readable only if `cur` itself is not known to
      // us, was not read stale by us last time, and is still young.
      if (known(me, w) || covered_by_own_fenced_write(me, c, cur)) break;
      if (G.steps - w.step > STALE_AGE_STEPS) break;
      int prev = -1;
      for (int i = cur - 1; i >= 0; i--)
        if (c->w[i].mask & (1u << b)) { prev = i; break; }
      // fairness: do not hand out the same stale message twice in a row
      if (prev >= 0 && (c->w[prev].stale_by[me->id >> 6] & (1ull << (me->id & 63)))) break;
      if (prev < 0) {
        // base is the candidate below; always allowed (known to all) unless it was
        // read stale by us already
        cur = -1;
        ncand++;
        break;
      }
      cur = prev;
      ncand++;
    }
    floor_[b] = cur;
    if (ncand > ncand_max) ncand_max = ncand;
  }
  if (ncand_max <= 1) return;
  // one decision drives every lane
  uint16_t d;
  if (G.P.replay) {
    d = replay_next();
  } else {
    d = G.rng.chance1000(G.P.p_stale_x1000) ? (uint16_t)(1 + G.rng.below(0xFFF0)) : D_DEFAULT;
    record_decision(d);
  }
  if (d == D_DEFAULT) return;
  for (int b = off; b < off + size; b++) {
    // candidates of lane b from floor_[b] .. latest[b] (indices covering b, and -1)
    int list[RING + 1], nl = 0;
    if (floor_[b] < 0) list[nl++] = -1;
    for (int i = (floor_[b] < 0 ? 0 : floor_[b]); i <= latest[b]; i++)
      if (i >= 0 && (c->w[i].mask & (1u << b))) list[nl++] = i;
    if (nl == 0) { out[b] = latest[b]; continue; }
    uint32_t h = (uint32_t)d * 2654435761u;
    out[b] = list[h % (uint32_t)nl];
  }
  // single-copy atomicity: a lane may not be older than a multi-byte write that
  // another lane of this same load reads from.
  bool changed = true;
  while (changed) {
    changed = false;
    for (int b = off; b < off + size; b++) {
      int i = out[b];
      if (i < 0) continue;
      for (int j = off; j < off + size; j++)
        if (j != b && (c->w[i].mask & (1u << j)) && out[j] < i) { out[j] = i; changed = true; }
    }
  }
  for (int b = off; b < off + size; b++)
    if (out[b] != latest[b]) *was_stale = true;
}

void note_read(Thread* me, WriteRec& w, bool stale) {
  uint32_t clk = me->vc.c[me->id];
  if (!w.rd[me->id] || w.rd[me->id] > clk) w.rd[me->id] = clk;
  if (stale) w.stale_by[me->id >> 6] |= (1ull << (me->id & 63));
  else w.stale_by[me->id >> 6] &= ~(1ull << (me->id & 63));
}

bool is_acq(int mo) { return mo == 1 || mo == 2 || mo == 4 || mo == 5; }
bool is_rel(int mo) { return mo == 3 || mo == 4 || mo == 5; }

// DSCHED_TRACE=1 (for replays): one line per atomic access / futex call on stderr
static int g_trace = -1;
static inline bool tracing() {
  if (g_trace < 0) { const char* e = getenv("DSCHED_TRACE"); g_trace = (e && *e == '1') ? 1 : 0; }
  return g_trace == 1;
}
#define TRACE(...) do { if (tracing()) fprintf(stderr, __VA_ARGS__); } while (0)

void fence_impl(Thread* me, int mo) {
  TRACE("[T%d] fence mo=%d\n", me->id, mo);
  me->vc.c[me->id]++;
  if (is_acq(mo)) me->vc.join(me->acq_pending);
  if (mo == 5) {
    me->vc.join(G.sc);
    G.sc = me->vc;
    me->sc_clk = me->vc.c[me->id];
  }
  if (is_rel(mo)) me->rel_fence = me->vc;
}

uint64_t do_load(Thread* me, uintptr_t a, int size, int mo, bool allow_stale) {
  me->vc.c[me->id]++;
  if (mo == 5) fence_impl(me, 5);
  uintptr_t base = a & ~(uintptr_t)7;
  int off = (int)(a - base);
  Cell* c = cell_get(base);
  cell_sync(c, off, size);
  int idx[8];
  bool stale = false;
  choose_lanes(me, c, off, size, allow_stale && G.P.p_stale_x1000 > 0, idx, &stale);
  uint64_t v = 0;
  uint8_t* vb = (uint8_t*)&v;
  VC acq;
  acq.clear();
  for (int b = off; b < off + size; b++) {
    if (idx[b] < 0) {
      vb[b - off] = c->base_val[b];
      acq.join(c->base_rel);
    } else {
      WriteRec& w = c->w[idx[b]];
      vb[b - off] = w.val[b];
      acq.join(w.rel);
      note_read(me, w, stale && idx[b] >= 0);
    }
  }
  if (stale) {
    if (R) R->stale_reads++;
  }
  if (is_acq(mo)) me->vc.join(acq);
  else me->acq_pending.join(acq);
  if (mo == 5) fence_impl(me, 5);
  me->load_streak++;
  TRACE("[T%d] load  %p/%d mo=%d -> %#llx%s\n", me->id, (void*)a, size, mo, (unsigned long long)v, stale ? " (STALE)" : "");
  return v;
}

// the release view a new write carries, given the previous latest (for RMW
// release-sequence continuation) -- `prev` may be null for plain stores.
void do_store(Thread* me, uintptr_t a, int size, uint64_t v, int mo) {
  me->vc.c[me->id]++;
  if (mo == 5) fence_impl(me, 5);
  uintptr_t base = a & ~(uintptr_t)7;
  int off = (int)(a - base);
  Cell* c = cell_get(base);
  cell_sync(c, off, size);
  VC rel;
  if (is_rel(mo)) rel = me->vc;
  else rel = me->rel_fence;
  append_write(me, c, off, size, v, rel);
  TRACE("[T%d] store %p/%d mo=%d <- %#llx\n", me->id, (void*)a, size, mo, (unsigned long long)v);
  if (mo == 5) fence_impl(me, 5);
  me->load_streak = 0;
  me->spin = 0;
  progress();
  real_progress();
}

// read-modify-write: reads the latest, op computes new value; returns old.
template <class Op>
uint64_t do_rmw(Thread* me, uintptr_t a, int size, int mo, int fmo, Op op, bool* did_write) {
  me->vc.c[me->id]++;
  if (mo == 5) fence_impl(me, 5);
  uintptr_t base = a & ~(uintptr_t)7;
  int off = (int)(a - base);
  Cell* c = cell_get(base);
  cell_sync(c, off, size);
  uint64_t old = 0;
  memcpy(&old, (uint8_t*)c->base + off, (size_t)size);
  VC acq;
  acq.clear();
  for (int b = off; b < off + size; b++) {
    int lat = -1;
    for (int i = c->n - 1; i >= 0; i--)
      if (c->w[i].mask & (1u << b)) { lat = i; break; }
    if (lat < 0) acq.join(c->base_rel);
    else {
      acq.join(c->w[lat].rel);
      note_read(me, c->w[lat], false);
    }
  }
  uint64_t nv = 0;
  bool write = op(old, &nv);
  *did_write = write;
  TRACE("[T%d] rmw   %p/%d mo=%d old=%#llx %s new=%#llx\n", me->id, (void*)a, size, mo, (unsigned long long)old, write ? "WRITE" : "nowrite", (unsigned long long)nv);
  if (write) {
    if (is_acq(mo)) me->vc.join(acq);
    else me->acq_pending.join(acq);
    VC rel = acq;  // continue the release sequence
    if (is_rel(mo)) rel.join(me->vc);
    else rel.join(me->rel_fence);
    append_write(me, c, off, size, nv, rel);
    me->load_streak = 0;
    if (nv != old) { me->spin = 0; progress(); real_progress(); }
  } else {
    // failed compare-exchange: a load with the failure order
    if (is_acq(fmo)) me->vc.join(acq);
    else me->acq_pending.join(acq);
    me->load_streak++;
  }
  if (mo == 5) fence_impl(me, 5);
  return old;
}

}  // namespace

////////////////////////////////////////////////////////////////////////////////
// public API
const char* verdict_name(int v) {
  static const char* n[] = {"PASS", "VIOLATION", "DEADLOCK", "LIVELOCK", "CRASH", "INCONCLUSIVE", "DISCARD", "NONE"};
  return (v >= 0 && v <= 7) ? n[v] : "?";
}
void set_result_block(Result* r) { R = r; }
void quiet_begin() { g_quiet = true; }
void quiet_end() {
  // histories recorded so far may be out of date: forget them all
  for (size_t i = 0; i < G.cells_cap; i++) {
    Cell* c = G.cells[i];
    if (c && c != (Cell*)1) free(c);
    G.cells[i] = nullptr;
  }
  G.cells_n = 0;
  g_quiet = false;
}
Result* result_block() { return R ? R : &local_result; }
bool active() { return self() != nullptr; }
bool weak_mode() { return G.P.p_stale_x1000 > 0; }
int tid() { Thread* t = self(); return t ? t->id : -1; }
uint64_t step() { return G.steps; }
void point() { if (Thread* t = self()) sched_point_impl(t, false); }
void yield_point() { if (Thread* t = self()) sched_point_impl(t, true); }
int64_t now_ns() { return G.vclock; }
int64_t last_clock_read_ns() { Thread* t = self(); return t ? t->last_clock_read : 0; }
void advance_clock(int64_t ns) {
  if (ns > 0) G.vclock += ns;
  real_progress();
  if (Thread* t = self()) sched_point_impl(t, false);
}
Stamp stamp() {
  Thread* t = self();
  Stamp s{-1, 0, G.steps};
  if (t) {
    s.tid = t->id;
    s.clk = ++t->vc.c[t->id];
    t->vc.c[t->id]++;
  }
  return s;
}
bool happens_after(const Stamp& s) {
  Thread* t = self();
  if (!t || s.tid < 0) return true;
  return t->vc.c[s.tid] >= s.clk;
}
bool ordered_after(const Stamp& s) {
  if (!weak_mode()) return G.steps >= s.step;
  return happens_after(s);
}

void fail(const char* oracle, const char* fmt, ...) {
  char buf[2048];
  va_list ap;
  va_start(ap, fmt);
  vsnprintf(buf, sizeof buf, fmt, ap);
  va_end(ap);
  finish(V_VIOLATION, oracle, buf);
}
void discard(const char* why) { finish(V_DISCARD, "discard", why); }
void label_n(const char* name, uint32_t n) {
  Result* r = result_block();
  for (uint32_t i = 0; i < r->nlabels; i++)
    if (!strncmp(r->labels[i].name, name, sizeof r->labels[i].name - 1)) {
      r->labels[i].count += n;
      return;
    }
  if (r->nlabels < 96) {
    snprintf(r->labels[r->nlabels].name, sizeof r->labels[0].name, "%s", name);
    r->labels[r->nlabels].count = n;
    r->nlabels++;
  }
}
void label(const char* name) { label_n(name, 1); }
void nontrivial() { result_block()->nontrivial = 1; }
void describe(const char* fmt, ...) {
  Result* r = result_block();
  size_t off = strlen(r->describe);
  if (off + 2 >= sizeof r->describe) return;
  va_list ap;
  va_start(ap, fmt);
  vsnprintf(r->describe + off, sizeof r->describe - off, fmt, ap);
  va_end(ap);
}
void mix_hash(uint64_t v) {
  G.hash ^= v + 0x9e3779b97f4a7c15ULL + (G.hash << 6) + (G.hash >> 2);
  G.hash *= 0xff51afd7ed558ccdULL;
}
uint32_t stat_futex_sleeps() { return result_block()->futex_sleeps; }
uint32_t stat_futex_wakes() { return result_block()->futex_wakes; }
uint64_t stat_switches() { return G.switches; }

void track_reset(TrackState* s) { *s = TrackState(); }
void track_write(TrackState* s, const char* what) {
  Thread* t = self();
  if (!t) return;
  if (s->wtid >= 0 && s->wtid != t->id && t->vc.c[s->wtid] < s->wclk)
    fail("hb-race", "write of %s by T%d is not ordered after the write by T%d (clk %u, seen %u)", what, t->id,
         s->wtid, s->wclk, t->vc.c[s->wtid]);
  for (int i = 0; i < G.nth; i++)
    if (i != t->id && s->rclk[i] && t->vc.c[i] < s->rclk[i])
      fail("hb-race", "write of %s by T%d is not ordered after the read by T%d", what, t->id, i);
  s->wtid = (int16_t)t->id;
  s->wclk = ++t->vc.c[t->id];
  memset(s->rclk, 0, sizeof s->rclk);
}
void track_read(TrackState* s, const char* what) {
  Thread* t = self();
  if (!t) return;
  if (s->wtid >= 0 && s->wtid != t->id && t->vc.c[s->wtid] < s->wclk)
    fail("hb-race", "read of %s by T%d is not ordered after the write by T%d (clk %u, seen %u)", what, t->id,
         s->wtid, s->wclk, t->vc.c[s->wtid]);
  s->rclk[t->id] = ++t->vc.c[t->id];
}

void on_free(void* p, size_t n) {
  if (!G.active || !tl_self || !G.cells_cap) return;
  uintptr_t lo = (uintptr_t)p & ~(uintptr_t)7, hi = (uintptr_t)p + n;
  if ((hi - lo) / 8 <= 8192) {
    for (uintptr_t a = lo; a < hi; a += 8) cell_erase(a);
  } else {
    for (size_t i = 0; i < G.cells_cap; i++) {
      Cell* c = G.cells[i];
      if (c && c != (Cell*)1 && c->base >= lo && c->base < hi) {
        free(c);
        G.cells[i] = (Cell*)1;
      }
    }
  }
}

void run(const Params& p, const std::function<void()>& body) {
  if (!key_made) {
    pthread_key_create(&exit_key, on_thread_exit);
    key_made = true;
  }
  G.P = p;
  G.rng.s = p.seed * 0x2545F4914F6CDD1DULL + 12345;
  G.nth = 1;
  G.cur = 0;
  G.steps = G.switches = 0;
  G.vclock = 0;
  G.replay_pos = 0;
  G.pct_low = 0;
  G.hash = 0x1234;
  // state of an earlier case in this process is forgotten
  for (size_t i = 0; i < G.cells_cap; i++) {
    Cell* c = G.cells[i];
    if (c && c != (Cell*)1) free(c);
    G.cells[i] = nullptr;
  }
  G.cells_n = 0;
  G.nmtx = 0;
  G.nonce = 0;
  G.sc.clear();
  G.last_progress_step = 0;
  G.last_real_progress_vclock = 0;
  G.timeouts_since_progress = 0;
  g_quiet = false;
  Thread* t0 = &G.th[0];
  memset(t0, 0, sizeof *t0);
  t0->id = 0;
  t0->st = T_RUNNABLE;
  t0->deadline = -1;
  t0->prio = 1000 + (int64_t)G.rng.below(1000);
  for (int i = 0; i < 8; i++) G.pct_change[i] = 1 + G.rng.below((uint32_t)(p.pct_est_steps > 0 ? p.pct_est_steps : 1));
  G.starve_victim = 1 + (int)G.rng.below(5);
  G.starve_from = G.rng.below((uint32_t)(p.pct_est_steps > 0 ? p.pct_est_steps : 1));
  G.starve_to = G.starve_from + 20 + G.rng.below(300);
  tl_self = t0;
  G.active = true;
  body();
  // let everything that is still alive finish
  for (;;) {
    bool all = true;
    for (int j = 1; j < G.nth; j++)
      if (G.th[j].st != T_FINISHED) all = false;
    if (all) break;
    block(t0, B_JOINALL, 0, -1);
  }
  G.active = false;
  tl_self = nullptr;
  write_result(V_PASS, "", "");
}

}  // namespace dsched

////////////////////////////////////////////////////////////////////////////////
// __tsan_* entry points
using namespace dsched;

extern "C" {
void __tsan_init() {}
void __tsan_acquire(void*) {}
void __tsan_release(void*) {}
void __tsan_func_entry(void*) {}
void __tsan_func_exit() {}
void __tsan_vptr_read(void**) {}
void __tsan_vptr_update(void**, void*) {}

#define DS_RW(N)                             \
  void __tsan_read##N(void*) {}              \
  void __tsan_write##N(void*) {}             \
  void __tsan_unaligned_read##N(void*) {}    \
  void __tsan_unaligned_write##N(void*) {}   \
  void __tsan_read##N##_pc(void*, void*) {}  \
  void __tsan_write##N##_pc(void*, void*) {}
DS_RW(1) DS_RW(2) DS_RW(4) DS_RW(8) DS_RW(16)
void __tsan_read_range(void*, unsigned long) {}
void __tsan_write_range(void*, unsigned long) {}

// A schedule point right after a write: lets another thread run between a
// publishing / releasing write and the plain accesses that follow it in program
// order ("released, then still read" windows).
static inline void post_point(dsched::Thread* me) { sched_point_impl(me, false); }

void __tsan_atomic_thread_fence(int mo) {
  Thread* me = self();
  if (!me) { __atomic_thread_fence(__ATOMIC_SEQ_CST); return; }
  sched_point_impl(me, false);
  fence_impl(me, mo);
}
void __tsan_atomic_signal_fence(int) {}

#define DS_ATOMIC(N, T)                                                                                   \
  T __tsan_atomic##N##_load(const volatile T* a, int mo) {                                                \
    Thread* me = self();                                                                                  \
    if (!me) return __atomic_load_n(a, __ATOMIC_SEQ_CST);                                                 \
    bool spin = me->load_streak > 64;                                                                     \
    sched_point_impl(me, spin);                                                                           \
    if (spin) me->load_streak = 0;                                                                        \
    return (T)do_load(me, (uintptr_t)a, sizeof(T), mo, true);                                             \
  }                                                                                                       \
  void __tsan_atomic##N##_store(volatile T* a, T v, int mo) {                                             \
    Thread* me = self();                                                                                  \
    if (!me) { __atomic_store_n(a, v, __ATOMIC_SEQ_CST); return; }                                        \
    sched_point_impl(me, false);                                                                          \
    do_store(me, (uintptr_t)a, sizeof(T), (uint64_t)v, mo);                                               \
    post_point(me);                                                                                       \
  }                                                                                                       \
  T __tsan_atomic##N##_exchange(volatile T* a, T v, int mo) {                                             \
    Thread* me = self();                                                                                  \
    if (!me) return __atomic_exchange_n(a, v, __ATOMIC_SEQ_CST);                                          \
    sched_point_impl(me, false);                                                                          \
    bool w;                                                                                               \
    T old = (T)do_rmw(me, (uintptr_t)a, sizeof(T), mo, mo, [&](uint64_t, uint64_t* n) { *n = (uint64_t)v; return true; }, &w); \
    post_point(me);                                                                                       \
    return old;                                                                                           \
  }                                                                                                       \
  T __tsan_atomic##N##_compare_exchange_val(volatile T* a, T c, T v, int mo, int fmo) {                   \
    Thread* me = self();                                                                                  \
    if (!me) { __atomic_compare_exchange_n(a, &c, v, false, __ATOMIC_SEQ_CST, __ATOMIC_SEQ_CST); return c; } \
    sched_point_impl(me, false);                                                                          \
    bool w;                                                                                               \
    T old = (T)do_rmw(me, (uintptr_t)a, sizeof(T), mo, fmo,                                               \
                      [&](uint64_t o, uint64_t* n) { *n = (uint64_t)v; return (T)o == c; }, &w);          \
    if (w) post_point(me);                                                                                \
    return old;                                                                                           \
  }                                                                                                       \
  int __tsan_atomic##N##_compare_exchange_strong(volatile T* a, T* c, T v, int mo, int fmo) {             \
    T old = __tsan_atomic##N##_compare_exchange_val(a, *c, v, mo, fmo);                                   \
    if (old == *c) return 1;                                                                              \
    *c = old;                                                                                             \
    return 0;                                                                                             \
  }                                                                                                       \
  int __tsan_atomic##N##_compare_exchange_weak(volatile T* a, T* c, T v, int mo, int fmo) {               \
    return __tsan_atomic##N##_compare_exchange_strong(a, c, v, mo, fmo);                                  \
  }

#define DS_FETCH(N, T, NAME, EXPR, BUILTIN)                                                               \
  T __tsan_atomic##N##_fetch_##NAME(volatile T* a, T v, int mo) {                                         \
    Thread* me = self();                                                                                  \
    if (!me) return BUILTIN(a, v, __ATOMIC_SEQ_CST);                                                      \
    sched_point_impl(me, false);                                                                          \
    bool w;                                                                                               \
    T old = (T)do_rmw(me, (uintptr_t)a, sizeof(T), mo, mo,                                                \
                      [&](uint64_t o64, uint64_t* n) { T o = (T)o64; *n = (uint64_t)(T)(EXPR); return true; }, &w); \
    post_point(me);                                                                                       \
    return old;                                                                                           \
  }

#define DS_ALL(N, T)                                        \
  DS_ATOMIC(N, T)                                           \
  DS_FETCH(N, T, add, o + v, __atomic_fetch_add)            \
  DS_FETCH(N, T, sub, o - v, __atomic_fetch_sub)            \
  DS_FETCH(N, T, and, o & v, __atomic_fetch_and)            \
  DS_FETCH(N, T, or, o | v, __atomic_fetch_or)              \
  DS_FETCH(N, T, xor, o ^ v, __atomic_fetch_xor)            \
  DS_FETCH(N, T, nand, ~(o & v), __atomic_fetch_nand)

DS_ALL(8, unsigned char)
DS_ALL(16, unsigned short)
DS_ALL(32, unsigned int)
DS_ALL(64, unsigned long long)

////////////////////////////////////////////////////////////////////////////////
// interposers

static int64_t ts_to_ns(const struct timespec* ts) { return (int64_t)ts->tv_sec * 1000000000LL + ts->tv_nsec; }

static void virtual_time(clockid_t clk, struct timespec* ts) {
  (void)clk;
  if (Thread* me = self()) me->last_clock_read = G.vclock;
  int64_t t = G.P.clock_base_ns + G.vclock;
  ts->tv_sec = t / 1000000000LL;
  ts->tv_nsec = t % 1000000000LL;
}

long syscall(long number, ...) {
  va_list ap;
  va_start(ap, number);
  long a1 = va_arg(ap, long), a2 = va_arg(ap, long), a3 = va_arg(ap, long), a4 = va_arg(ap, long),
       a5 = va_arg(ap, long), a6 = va_arg(ap, long);
  va_end(ap);
  Thread* me = self();
  if (me && number == SYS_futex) {
    uint32_t* addr = (uint32_t*)a1;
    int op = (int)a2 & ~(FUTEX_PRIVATE_FLAG | FUTEX_CLOCK_REALTIME);
    uint32_t val = (uint32_t)a3;
    if (op == FUTEX_WAIT || op == FUTEX_WAIT_BITSET) {
      const struct timespec* to = (const struct timespec*)a4;
      sched_point_impl(me, false);
      fence_impl(me, 5);
      uint32_t cur = (uint32_t)do_load(me, (uintptr_t)addr, 4, 0, true);
      TRACE("[T%d] futex_wait %p expect=%#x cur=%#x %s\n", me->id, (void*)addr, val, cur, cur != val ? "EAGAIN" : "SLEEP");
      if (cur != val) {
        errno = EAGAIN;
        return -1;
      }
      if (G.P.p_eintr_x1000 > 0) {
        // futex(2): FUTEX_WAIT may fail with EINTR (signal or spurious wake-up) and "a return value of 0 can mean a
        // spurious wake-up". An injected fault of the environment, decided (and recorded) like a scheduling choice.
        uint16_t d;
        if (G.P.replay) d = replay_next();
        else {
          d = G.rng.chance1000(G.P.p_eintr_x1000) ? (uint16_t)(1 + G.rng.below(2)) : D_DEFAULT;
          record_decision(d);
        }
        if (d != D_DEFAULT) {
          TRACE("[T%d] futex_wait %p returns early (%s)\n", me->id, (void*)addr, d == 1 ? "EINTR" : "spurious 0");
          dsched::label_n("futex_wait_returned_early", 1);
          if (d == 1) { errno = EINTR; return -1; }
          return 0;
        }
      }
      int64_t deadline = -1;
      if (to) {
        int64_t ns = ts_to_ns(to);
        if (op == FUTEX_WAIT) deadline = G.vclock + (ns < 0 ? 0 : ns);
        else deadline = ns - G.P.clock_base_ns;
      }
      if (R) R->futex_sleeps++;
      bool timed_out = block(me, B_FUTEX, (uintptr_t)addr, deadline);
      if (timed_out) {
        errno = ETIMEDOUT;
        return -1;
      }
      return 0;
    }
    if (op == FUTEX_WAKE || op == FUTEX_WAKE_BITSET) {
      sched_point_impl(me, false);
      fence_impl(me, 5);
      int woken = 0;
      int limit = (int)val < 0 ? INT32_MAX : (int)val;
      TRACE("[T%d] futex_wake %p n=%d\n", me->id, (void*)addr, limit);
      // candidates in id order; which ones are woken when limit < waiters is a decision
      int w[MAXT], nw = 0;
      for (int i = 0; i < G.nth; i++)
        if (G.th[i].st == T_BLOCKED && G.th[i].bk == B_FUTEX && G.th[i].wait_addr == (uintptr_t)addr) w[nw++] = i;
      while (nw > 0 && woken < limit) {
        int k = 0;
        if (nw > 1) {
          if (G.P.replay) {
            uint16_t d = replay_next();
            k = d == D_DEFAULT ? 0 : d % nw;
          } else {
            k = (int)G.rng.below((uint32_t)nw);
            record_decision(k == 0 ? D_DEFAULT : (uint16_t)k);
          }
        }
        Thread* o = &G.th[w[k]];
        o->vc.join(me->vc);
        make_runnable(o, false);
        if (R) R->futex_wakes++;
        w[k] = w[--nw];
        // keep id order for determinism
        for (int x = 0; x < nw; x++)
          for (int y = x + 1; y < nw; y++)
            if (w[y] < w[x]) { int t = w[x]; w[x] = w[y]; w[y] = t; }
        woken++;
      }
      return woken;
    }
  }
  REAL(syscall_t, syscall);
  return real_syscall(number, a1, a2, a3, a4, a5, a6);
}

int pthread_create(pthread_t* out, const pthread_attr_t* attr, void* (*fn)(void*), void* arg) {
  REAL(pthread_create_t, pthread_create);
  Thread* me = self();
  if (!me) return real_pthread_create(out, attr, fn, arg);
  if (G.nth >= MAXT) finish(V_INCONCLUSIVE, "harness", "too many threads");
  Thread* t = &G.th[G.nth];
  memset(t, 0, sizeof *t);
  t->id = G.nth;
  t->st = T_RUNNABLE;
  t->deadline = -1;
  t->fn = fn;
  t->arg = arg;
  me->vc.c[me->id]++;
  t->vc = me->vc;
  t->prio = 1000 + (int64_t)G.rng.below(1000000);
  if (attr) {
    int ds = 0;
    pthread_attr_getdetachstate(attr, &ds);
    t->detached = ds == PTHREAD_CREATE_DETACHED;
  }
  G.nth++;
  int rc = real_pthread_create(&t->pth, attr, trampoline, t);
  if (rc != 0) {
    G.nth--;
    return rc;
  }
  *out = t->pth;
  progress();
  real_progress();
  sched_point_impl(me, false);
  return 0;
}

int pthread_join(pthread_t p, void** ret) {
  REAL(pthread_join_t, pthread_join);
  Thread* me = self();
  if (!me) return real_pthread_join(p, ret);
  Thread* t = find_by_pthread(p);
  if (!t) return real_pthread_join(p, ret);
  sched_point_impl(me, false);
  while (t->st != T_FINISHED) block(me, B_JOIN, (uintptr_t)t->id, -1);
  me->vc.join(t->vc);
  t->joined = true;
  return real_pthread_join(p, ret);
}

int pthread_detach(pthread_t p) {
  REAL(pthread_detach_t, pthread_detach);
  if (self()) {
    Thread* t = find_by_pthread(p);
    if (t) t->detached = true;
  }
  return real_pthread_detach(p);
}

int pthread_mutex_lock(pthread_mutex_t* m) {
  Thread* me = self();
  if (me) return model_mutex_lock(me, m, false);
  REAL(mutex_fn_t, pthread_mutex_lock);
  return real_pthread_mutex_lock ? real_pthread_mutex_lock(m) : 0;
}
int pthread_mutex_trylock(pthread_mutex_t* m) {
  Thread* me = self();
  if (me) return model_mutex_lock(me, m, true);
  REAL(mutex_fn_t, pthread_mutex_trylock);
  return real_pthread_mutex_trylock ? real_pthread_mutex_trylock(m) : 0;
}
int pthread_mutex_unlock(pthread_mutex_t* m) {
  Thread* me = self();
  if (me) return model_mutex_unlock(me, m);
  REAL(mutex_fn_t, pthread_mutex_unlock);
  return real_pthread_mutex_unlock ? real_pthread_mutex_unlock(m) : 0;
}
int pthread_mutex_destroy(pthread_mutex_t* m) {
  if (self()) mutex_forget((uintptr_t)m);
  REAL(mutex_fn_t, pthread_mutex_destroy);
  return real_pthread_mutex_destroy ? real_pthread_mutex_destroy(m) : 0;
}

static int cond_wait_impl(Thread* me, pthread_cond_t* c, pthread_mutex_t* m, int64_t deadline) {
  // release the mutex completely, sleep on the condition, re-acquire
  MutexSt* ms = mutex_state((uintptr_t)m);
  int saved = ms->count;
  ms->count = 1;
  // unlock without a schedule point in between so that wait is atomic
  me->vc.c[me->id]++;
  ms->vc = me->vc;
  ms->owner = -1;
  ms->count = 0;
  for (int i = 0; i < G.nth; i++) {
    Thread* o = &G.th[i];
    if (o->st == T_BLOCKED && o->bk == B_MUTEX && o->wait_addr == (uintptr_t)m) make_runnable(o, false);
  }
  bool to = block(me, B_COND, (uintptr_t)c, deadline);
  model_mutex_lock(me, m, false);
  mutex_state((uintptr_t)m)->count = saved;
  return to ? ETIMEDOUT : 0;
}
int pthread_cond_wait(pthread_cond_t* c, pthread_mutex_t* m) {
  Thread* me = self();
  if (me) return cond_wait_impl(me, c, m, -1);
  REAL(cond_wait_t, pthread_cond_wait);
  return real_pthread_cond_wait(c, m);
}
int pthread_cond_timedwait(pthread_cond_t* c, pthread_mutex_t* m, const struct timespec* abs) {
  Thread* me = self();
  if (me) return cond_wait_impl(me, c, m, ts_to_ns(abs) - G.P.clock_base_ns);
  REAL(cond_timedwait_t, pthread_cond_timedwait);
  return real_pthread_cond_timedwait(c, m, abs);
}
int pthread_cond_clockwait(pthread_cond_t* c, pthread_mutex_t* m, clockid_t, const struct timespec* abs) {
  return pthread_cond_timedwait(c, m, abs);
}
static int cond_wake(pthread_cond_t* c, bool all) {
  Thread* me = self();
  sched_point_impl(me, false);
  for (int i = 0; i < G.nth; i++) {
    Thread* o = &G.th[i];
    if (o->st == T_BLOCKED && o->bk == B_COND && o->wait_addr == (uintptr_t)c) {
      o->vc.join(me->vc);
      make_runnable(o, false);
      if (!all) break;
    }
  }
  return 0;
}
int pthread_cond_signal(pthread_cond_t* c) {
  if (self()) return cond_wake(c, false);
  REAL(cond_fn_t, pthread_cond_signal);
  return real_pthread_cond_signal(c);
}
int pthread_cond_broadcast(pthread_cond_t* c) {
  if (self()) return cond_wake(c, true);
  REAL(cond_fn_t, pthread_cond_broadcast);
  return real_pthread_cond_broadcast(c);
}

int pthread_once(pthread_once_t* o, void (*fn)(void)) {
  Thread* me = self();
  if (!me) {
    REAL(once_t, pthread_once);
    return real_pthread_once(o, fn);
  }
  sched_point_impl(me, false);
  OnceSt* s = nullptr;
  for (int i = 0; i < G.nonce; i++)
    if (G.once[i].addr == (uintptr_t)o) s = &G.once[i];
  if (!s) {
    // was it completed before the scheduler started (glibc: value 2 == done)?
    if (*(volatile int*)o == 2) return 0;
    if (G.nonce >= 256) finish(V_INCONCLUSIVE, "harness", "too many once controls");
    s = &G.once[G.nonce++];
    s->addr = (uintptr_t)o;
    s->state = 0;
    s->vc.clear();
  }
  while (s->state == 1) block(me, B_ONCE, (uintptr_t)o, -1);
  if (s->state == 2) {
    me->vc.join(s->vc);
    return 0;
  }
  s->state = 1;
  fn();
  me->vc.c[me->id]++;
  s->vc = me->vc;
  s->state = 2;
  *(volatile int*)o = 2;
  for (int i = 0; i < G.nth; i++) {
    Thread* t = &G.th[i];
    if (t->st == T_BLOCKED && t->bk == B_ONCE && t->wait_addr == (uintptr_t)o) make_runnable(t, false);
  }
  return 0;
}

// Function-local statics: the guard must give the happens-before edge from the initialising thread to
// every later user, and a second thread arriving during initialisation must block in the scheduler.
// Layout (Itanium ABI): byte 0 = initialised; we use byte 1 as "in progress" while scheduled.
typedef int (*guard_acquire_t)(uint64_t*);
typedef void (*guard_release_t)(uint64_t*);
int __cxa_guard_acquire(uint64_t* g) {
  Thread* me = self();
  if (!me) {
    REAL(guard_acquire_t, __cxa_guard_acquire);
    return real___cxa_guard_acquire(g);
  }
  unsigned char* b = (unsigned char*)g;
  for (;;) {
    sched_point_impl(me, false);
    if (do_load(me, (uintptr_t)b, 1, 2, false) != 0) return 0;
    if (b[1] == 0) {
      b[1] = 1;
      return 1;
    }
    block(me, B_ONCE, (uintptr_t)g, -1);
  }
}
static void guard_wake(uint64_t* g) {
  for (int i = 0; i < G.nth; i++) {
    Thread* t = &G.th[i];
    if (t->st == T_BLOCKED && t->bk == B_ONCE && t->wait_addr == (uintptr_t)g) make_runnable(t, false);
  }
}
void __cxa_guard_release(uint64_t* g) {
  Thread* me = self();
  if (!me) {
    REAL(guard_release_t, __cxa_guard_release);
    real___cxa_guard_release(g);
    return;
  }
  unsigned char* b = (unsigned char*)g;
  sched_point_impl(me, false);
  do_store(me, (uintptr_t)b, 1, 1, 3);
  b[1] = 0;  // only now: a thread arriving before the store must still see "in progress"
  guard_wake(g);
}
void __cxa_guard_abort(uint64_t* g) {
  Thread* me = self();
  if (!me) {
    REAL(guard_release_t, __cxa_guard_abort);
    real___cxa_guard_abort(g);
    return;
  }
  ((unsigned char*)g)[1] = 0;
  guard_wake(g);
}

int sched_yield(void) {
  Thread* me = self();
  if (me) {
    sched_point_impl(me, true);
    return 0;
  }
  REAL(sched_yield_t, sched_yield);
  return real_sched_yield();
}

static void virtual_sleep(Thread* me, int64_t ns) {
  if (ns <= 0) {
    sched_point_impl(me, true);
    return;
  }
  block(me, B_SLEEP, 0, G.vclock + ns);
}
int usleep(useconds_t us) {
  Thread* me = self();
  if (me) {
    virtual_sleep(me, (int64_t)us * 1000);
    return 0;
  }
  REAL(usleep_t, usleep);
  return real_usleep(us);
}
int nanosleep(const struct timespec* req, struct timespec* rem) {
  Thread* me = self();
  if (me) {
    virtual_sleep(me, ts_to_ns(req));
    if (rem) rem->tv_sec = rem->tv_nsec = 0;
    return 0;
  }
  REAL(nanosleep_t, nanosleep);
  return real_nanosleep(req, rem);
}
int clock_nanosleep(clockid_t clk, int flags, const struct timespec* req, struct timespec* rem) {
  Thread* me = self();
  if (me) {
    int64_t ns = ts_to_ns(req);
    if (flags & TIMER_ABSTIME) ns = ns - (G.P.clock_base_ns + G.vclock);
    virtual_sleep(me, ns);
    if (rem) rem->tv_sec = rem->tv_nsec = 0;
    return 0;
  }
  REAL(clock_nanosleep_t, clock_nanosleep);
  return real_clock_nanosleep(clk, flags, req, rem);
}
unsigned int sleep(unsigned int s) {
  Thread* me = self();
  if (me) {
    virtual_sleep(me, (int64_t)s * 1000000000LL);
    return 0;
  }
  struct timespec ts = {(time_t)s, 0};
  REAL(nanosleep_t, nanosleep);
  real_nanosleep(&ts, nullptr);
  return 0;
}

int clock_gettime(clockid_t clk, struct timespec* ts) {
  if (self() && clk != CLOCK_PROCESS_CPUTIME_ID && clk != CLOCK_THREAD_CPUTIME_ID) {
    virtual_time(clk, ts);
    return 0;
  }
  REAL(clock_gettime_t, clock_gettime);
  return real_clock_gettime(clk, ts);
}
int gettimeofday(struct timeval* tv, void* tz) {
  if (self()) {
    struct timespec ts;
    virtual_time(CLOCK_REALTIME, &ts);
    tv->tv_sec = ts.tv_sec;
    tv->tv_usec = ts.tv_nsec / 1000;
    return 0;
  }
  REAL(gettimeofday_t, gettimeofday);
  return real_gettimeofday(tv, tz);
}
time_t time(time_t* out) {
  if (self()) {
    struct timespec ts;
    virtual_time(CLOCK_REALTIME, &ts);
    if (out) *out = ts.tv_sec;
    return ts.tv_sec;
  }
  REAL(time_fn_t, time);
  return real_time(out);
}

}  // extern "C"

// abseil's clock uses the cycle counter; route it to the virtual clock
#include "absl/base/config.h"
namespace absl {
ABSL_NAMESPACE_BEGIN
int64_t GetCurrentTimeNanos();
int64_t GetCurrentTimeNanos() {
  if (dsched::active()) {
    if (dsched::tl_self) dsched::tl_self->last_clock_read = dsched::G.vclock;
    return dsched::G.P.clock_base_ns + dsched::G.vclock;
  }
  struct timespec ts;
  clock_gettime(CLOCK_REALTIME, &ts);
  return (int64_t)ts.tv_sec * 1000000000LL + ts.tv_nsec;
}
ABSL_NAMESPACE_END
}  // namespace absl
