// Self-test of the dsched visibility model: classic litmus shapes must be
// allowed / forbidden exactly as RC11 says (forbidden outcomes never appear,
// required-weak outcomes do appear, so the model is neither unsound nor SC).
// Compiled with the same -fsanitize=thread flags as every dsched target.
#include <linux/futex.h>
#include <stdio.h>
#include <stdlib.h>
#include <string.h>
#include <sys/syscall.h>
#include <sys/wait.h>
#include <unistd.h>

#include <atomic>
#include <map>
#include <string>
#include <thread>

#include "dsched.h"

using std::memory_order_acq_rel;
using std::memory_order_acquire;
using std::memory_order_relaxed;
using std::memory_order_release;
using std::memory_order_seq_cst;

namespace {

struct Shared {
  std::atomic<int> x{0}, y{0};
  std::atomic<uint32_t> word{0};
  int r[8] = {};
  dsched::Tracked<int> data;
};

typedef void (*Body)(Shared&);

struct Test {
  const char* name;
  Body body;
  const char* forbidden;  // outcome strings that must never appear (';' separated), may be ""
  const char* required;   // outcomes that must appear at least once, may be ""
  int stale;              // p_stale per mille
};

std::string outcome(const Shared& s, int n) {
  std::string o;
  for (int i = 0; i < n; i++) o += (i ? "," : "") + std::to_string(s.r[i]);
  return o;
}

// ---- bodies -------------------------------------------------------------------
void sb_relaxed(Shared& s) {
  std::thread a([&] { s.x.store(1, memory_order_relaxed); s.r[0] = s.y.load(memory_order_relaxed); });
  std::thread b([&] { s.y.store(1, memory_order_relaxed); s.r[1] = s.x.load(memory_order_relaxed); });
  a.join(); b.join();
}
void sb_relacq(Shared& s) {
  std::thread a([&] { s.x.store(1, memory_order_release); s.r[0] = s.y.load(memory_order_acquire); });
  std::thread b([&] { s.y.store(1, memory_order_release); s.r[1] = s.x.load(memory_order_acquire); });
  a.join(); b.join();
}
void sb_sc(Shared& s) {
  std::thread a([&] { s.x.store(1, memory_order_seq_cst); s.r[0] = s.y.load(memory_order_seq_cst); });
  std::thread b([&] { s.y.store(1, memory_order_seq_cst); s.r[1] = s.x.load(memory_order_seq_cst); });
  a.join(); b.join();
}
void sb_fences(Shared& s) {
  std::thread a([&] { s.x.store(1, memory_order_relaxed); std::atomic_thread_fence(memory_order_seq_cst); s.r[0] = s.y.load(memory_order_relaxed); });
  std::thread b([&] { s.y.store(1, memory_order_relaxed); std::atomic_thread_fence(memory_order_seq_cst); s.r[1] = s.x.load(memory_order_relaxed); });
  a.join(); b.join();
}
void sb_one_fence(Shared& s) {
  std::thread a([&] { s.x.store(1, memory_order_relaxed); std::atomic_thread_fence(memory_order_seq_cst); s.r[0] = s.y.load(memory_order_relaxed); });
  std::thread b([&] { s.y.store(1, memory_order_relaxed); s.r[1] = s.x.load(memory_order_relaxed); });
  a.join(); b.join();
}
void mp_relacq(Shared& s) {
  std::thread a([&] { s.x.store(1, memory_order_relaxed); s.y.store(1, memory_order_release); });
  std::thread b([&] { s.r[0] = s.y.load(memory_order_acquire); s.r[1] = s.x.load(memory_order_relaxed); });
  a.join(); b.join();
}
void mp_relaxed(Shared& s) {
  std::thread a([&] { s.x.store(1, memory_order_relaxed); s.y.store(1, memory_order_relaxed); });
  std::thread b([&] { s.r[0] = s.y.load(memory_order_relaxed); s.r[1] = s.x.load(memory_order_relaxed); });
  a.join(); b.join();
}
void mp_fences(Shared& s) {
  std::thread a([&] { s.x.store(1, memory_order_relaxed); std::atomic_thread_fence(memory_order_release); s.y.store(1, memory_order_relaxed); });
  std::thread b([&] { s.r[0] = s.y.load(memory_order_relaxed); std::atomic_thread_fence(memory_order_acquire); s.r[1] = s.x.load(memory_order_relaxed); });
  a.join(); b.join();
}
void mp_consumer_relaxed(Shared& s) {  // release store, relaxed load, no fence: weak outcome allowed
  std::thread a([&] { s.x.store(1, memory_order_relaxed); s.y.store(1, memory_order_release); });
  std::thread b([&] { s.r[0] = s.y.load(memory_order_relaxed); s.r[1] = s.x.load(memory_order_relaxed); });
  a.join(); b.join();
}
void corr(Shared& s) {
  std::thread a([&] { s.x.store(1, memory_order_relaxed); s.x.store(2, memory_order_relaxed); });
  std::thread b([&] { s.r[0] = s.x.load(memory_order_relaxed); s.r[1] = s.x.load(memory_order_relaxed); });
  a.join(); b.join();
}
void corr_hb(Shared& s) {
  // read-read coherence across a synchronisation: c must not read older than b did
  std::thread a([&] { s.x.store(1, memory_order_relaxed); });
  std::thread b([&] { s.r[0] = s.x.load(memory_order_relaxed); s.y.store(1, memory_order_release); });
  std::thread c([&] { s.r[1] = s.y.load(memory_order_acquire); s.r[2] = s.x.load(memory_order_relaxed); });
  a.join(); b.join(); c.join();
}
void cowr(Shared& s) {
  std::thread a([&] { s.x.store(1, memory_order_relaxed); s.r[0] = s.x.load(memory_order_relaxed); });
  std::thread b([&] { s.x.store(2, memory_order_relaxed); });
  a.join(); b.join();
}
void iriw_acq(Shared& s) {
  std::thread a([&] { s.x.store(1, memory_order_release); });
  std::thread b([&] { s.y.store(1, memory_order_release); });
  std::thread c([&] { s.r[0] = s.x.load(memory_order_acquire); s.r[1] = s.y.load(memory_order_acquire); });
  std::thread d([&] { s.r[2] = s.y.load(memory_order_acquire); s.r[3] = s.x.load(memory_order_acquire); });
  a.join(); b.join(); c.join(); d.join();
}
void iriw_sc(Shared& s) {
  std::thread a([&] { s.x.store(1, memory_order_seq_cst); });
  std::thread b([&] { s.y.store(1, memory_order_seq_cst); });
  std::thread c([&] { s.r[0] = s.x.load(memory_order_seq_cst); s.r[1] = s.y.load(memory_order_seq_cst); });
  std::thread d([&] { s.r[2] = s.y.load(memory_order_seq_cst); s.r[3] = s.x.load(memory_order_seq_cst); });
  a.join(); b.join(); c.join(); d.join();
}
void lb(Shared& s) {
  std::thread a([&] { s.r[0] = s.x.load(memory_order_relaxed); s.y.store(1, memory_order_relaxed); });
  std::thread b([&] { s.r[1] = s.y.load(memory_order_relaxed); s.x.store(1, memory_order_relaxed); });
  a.join(); b.join();
}
void rmw_atomic(Shared& s) {
  std::thread a([&] { s.r[0] = s.x.fetch_add(1, memory_order_relaxed); });
  std::thread b([&] { s.r[1] = s.x.fetch_add(1, memory_order_relaxed); });
  std::thread c([&] { int e = 0; s.r[2] = s.y.compare_exchange_strong(e, 1, memory_order_relaxed); });
  std::thread d([&] { int e = 0; s.r[3] = s.y.compare_exchange_strong(e, 1, memory_order_relaxed); });
  a.join(); b.join(); c.join(); d.join();
  s.r[4] = s.x.load(memory_order_relaxed);
}
void release_sequence(Shared& s) {
  // payload published by a release store, continued by a relaxed RMW of another thread
  std::thread a([&] { s.data.set(7, "litmus.data"); s.x.store(1, memory_order_release); });
  std::thread b([&] { int e = 1; s.x.compare_exchange_strong(e, 2, memory_order_relaxed); });
  std::thread c([&] { if (s.x.load(memory_order_acquire) == 2) s.r[0] = s.data.get("litmus.data"); else s.r[0] = -1; });
  a.join(); b.join(); c.join();
}
void fence_fence_payload(Shared& s) {
  std::thread a([&] { s.data.set(9, "litmus.data"); std::atomic_thread_fence(memory_order_release); s.x.store(1, memory_order_relaxed); });
  std::thread b([&] { if (s.x.load(memory_order_relaxed) == 1) { std::atomic_thread_fence(memory_order_acquire); s.r[0] = s.data.get("litmus.data"); } else s.r[0] = -1; });
  a.join(); b.join();
}
void mixed_size(Shared& s) {
  // 16-bit store into the low half of a 32-bit word that others CAS as 32 bits (queue's futex word)
  auto* half = reinterpret_cast<std::atomic<uint16_t>*>(&s.word);
  std::thread a([&] { half->store(1, memory_order_release); s.r[0] = (int)s.word.load(memory_order_relaxed); });
  std::thread b([&] { uint32_t e = 0; s.r[1] = s.word.compare_exchange_strong(e, 0x10000u, memory_order_relaxed); });
  a.join(); b.join();
  s.r[2] = (int)s.word.load(memory_order_relaxed);
}

// The piggy-back shape of the queue's futex word: one thread sets the waiter flag (32-bit CAS), a second one sees
// the flag already set and goes to sleep without a write of its own, the waker publishes with a 16-bit store,
// a seq_cst fence and a 32-bit re-load. On every multi-copy-atomic machine the outcome "the sleeper saw the flag
// but not the version, and the waker missed the flag" is impossible; the model must not produce it either.
void mixed_size_piggyback(Shared& s) {
  auto* half = reinterpret_cast<std::atomic<uint16_t>*>(&s.word);
  std::thread flagger([&] { uint32_t e = 0; s.word.compare_exchange_strong(e, 0x10000u, memory_order_acquire); });
  std::thread sleeper([&] { std::atomic_thread_fence(memory_order_seq_cst); s.r[0] = (int)s.word.load(memory_order_relaxed); });
  std::thread waker([&] {
    half->store(1, memory_order_release);
    std::atomic_thread_fence(memory_order_seq_cst);
    s.r[1] = (int)s.word.load(memory_order_relaxed);
  });
  flagger.join(); sleeper.join(); waker.join();
}
// the same without the waker's fence: the lanes its own store does not cover may still be stale
void mixed_size_piggyback_unfenced(Shared& s) {
  auto* half = reinterpret_cast<std::atomic<uint16_t>*>(&s.word);
  std::thread flagger([&] { uint32_t e = 0; s.word.compare_exchange_strong(e, 0x10000u, memory_order_acquire); });
  std::thread sleeper([&] { std::atomic_thread_fence(memory_order_seq_cst); s.r[0] = (int)s.word.load(memory_order_relaxed); });
  std::thread waker([&] {
    half->store(1, memory_order_release);
    s.r[1] = (int)s.word.load(memory_order_relaxed);
  });
  flagger.join(); sleeper.join(); waker.join();
}

long futex_wait(std::atomic<uint32_t>* a, uint32_t v) { return syscall(SYS_futex, a, FUTEX_WAIT | FUTEX_PRIVATE_FLAG, v, nullptr); }
long futex_wake(std::atomic<uint32_t>* a) { return syscall(SYS_futex, a, FUTEX_WAKE | FUTEX_PRIVATE_FLAG, INT32_MAX); }

// waiter registers itself in the high half, waker publishes in the low half (the queue's protocol)
void futex_protocol_fenced(Shared& s) {
  auto* half = reinterpret_cast<std::atomic<uint16_t>*>(&s.word);
  std::thread waker([&] {
    half->store(1, memory_order_release);
    std::atomic_thread_fence(memory_order_seq_cst);
    if (s.word.load(memory_order_relaxed) > 0xFFFF) futex_wake(&s.word);
  });
  std::thread waiter([&] {
    uint32_t cur = s.word.load(memory_order_acquire);
    while ((cur & 0xFFFF) == 0) {
      if (cur <= 0xFFFF) {
        if (!s.word.compare_exchange_strong(cur, cur + 0x10000u, memory_order_acquire)) continue;
        cur += 0x10000u;
      }
      futex_wait(&s.word, cur);
      cur = s.word.load(memory_order_acquire);
    }
  });
  waker.join(); waiter.join();
}
void futex_protocol_unfenced(Shared& s) {
  auto* half = reinterpret_cast<std::atomic<uint16_t>*>(&s.word);
  std::thread waker([&] {
    half->store(1, memory_order_release);
    if (s.word.load(memory_order_relaxed) > 0xFFFF) futex_wake(&s.word);
  });
  std::thread waiter([&] {
    uint32_t cur = s.word.load(memory_order_acquire);
    while ((cur & 0xFFFF) == 0) {
      if (cur <= 0xFFFF) {
        if (!s.word.compare_exchange_strong(cur, cur + 0x10000u, memory_order_acquire)) continue;
        cur += 0x10000u;
      }
      futex_wait(&s.word, cur);
      cur = s.word.load(memory_order_acquire);
    }
  });
  waker.join(); waiter.join();
}
// exchange-based single wake-up (the queue's non-batch path): never loses a wake-up
void futex_protocol_exchange(Shared& s) {
  std::thread waker([&] {
    uint32_t old = s.word.exchange(1, memory_order_release);
    if (old > 0xFFFF) futex_wake(&s.word);
  });
  std::thread waiter([&] {
    uint32_t cur = s.word.load(memory_order_acquire);
    while ((cur & 0xFFFF) == 0) {
      if (cur <= 0xFFFF) {
        if (!s.word.compare_exchange_strong(cur, cur + 0x10000u, memory_order_acquire)) continue;
        cur += 0x10000u;
      }
      futex_wait(&s.word, cur);
      cur = s.word.load(memory_order_acquire);
    }
  });
  waker.join(); waiter.join();
}

const Test tests[] = {
    {"SB relaxed", sb_relaxed, "", "0,0;1,1;0,1;1,0", 500},
    {"SB release/acquire", sb_relacq, "", "0,0", 500},
    {"SB seq_cst", sb_sc, "0,0", "0,1;1,0;1,1", 500},
    {"SB relaxed + seq_cst fences", sb_fences, "0,0", "0,1;1,0;1,1", 500},
    {"SB one fence only", sb_one_fence, "", "0,0", 500},
    {"MP release/acquire", mp_relacq, "1,0", "0,0;1,1;0,1", 500},
    {"MP relaxed", mp_relaxed, "", "1,0", 500},
    {"MP fences", mp_fences, "1,0", "1,1;0,0", 500},
    {"MP relaxed consumer", mp_consumer_relaxed, "", "1,0", 500},
    {"CoRR", corr, "2,1;1,0;2,0", "0,0;1,1;2,2;0,1;0,2;1,2", 500},
    {"CoRR across hb", corr_hb, "1,1,0", "1,1,1;0,1,0;0,1,1", 500},
    {"CoWR", cowr, "0", "1;2", 500},
    {"IRIW acquire", iriw_acq, "", "1,0,1,0", 600},
    {"IRIW seq_cst", iriw_sc, "1,0,1,0", "", 600},
    {"LB (not produced by this model)", lb, "1,1", "0,0;0,1;1,0", 500},
    {"RMW atomicity", rmw_atomic, "0,0,0,0,2;1,1,0,0,2;0,1,1,1,2;1,0,1,1,2;0,1,0,0,2;1,0,0,0,2;0,0,1,0,2;0,0,0,1,2;1,1,1,0,2;1,1,0,1,2", "0,1,1,0,2;1,0,0,1,2", 500},
    {"release sequence through relaxed RMW", release_sequence, "", "7;-1", 500},
    {"fence-fence synchronisation (payload)", fence_fence_payload, "", "9;-1", 500},
    {"mixed-size piggy-back waiter, fenced waker (multi-copy atomic)", mixed_size_piggyback, "65536,1", "65536,65537;0,1;0,65537", 500},
    {"mixed-size piggy-back waiter, unfenced waker", mixed_size_piggyback_unfenced, "", "65536,1;65536,65537", 500},
    {"mixed-size 16/32", mixed_size, "0,1,65536;0,1,1;65537,0,1;1,1,1;1,0,65537", "65537,1,65537;1,1,65537;1,0,1", 500},
};

int run_test(const Test& t, int iters, bool verbose) {
  std::map<std::string, int> seen;
  int nres = 0;
  for (const char* p = t.required; *p; p++) (void)p;
  for (int it = 0; it < iters; it++) {
    Shared s;
    for (int k = 0; k < 8; k++) s.r[k] = -9;
    dsched::Params p;
    p.seed = (uint64_t)it * 7919 + 13;
    p.strategy = it % 3 == 2 ? dsched::S_PCT : dsched::S_RANDOM;
    p.pct_depth = 1 + it % 3;
    p.pct_est_steps = 30;
    p.p_switch_x1000 = 300;
    p.p_stale_x1000 = (uint32_t)t.stale;
    dsched::Result* r = dsched::result_block();
    memset(r, 0, offsetof(dsched::Result, decisions));
    dsched::run(p, [&] { t.body(s); });
    // how many result registers does the test use?
    int n = 0;
    for (int k = 0; k < 8; k++) if (s.r[k] != -9) n = k + 1;
    nres = n;
    seen[outcome(s, n)]++;
  }
  int bad = 0;
  auto each = [&](const char* list, bool forbidden) {
    std::string cur;
    for (const char* p = list;; p++) {
      if (*p == ';' || *p == 0) {
        if (!cur.empty()) {
          bool has = seen.count(cur) != 0;
          if (forbidden && has) { printf("  FAIL %s: forbidden outcome %s observed %d times\n", t.name, cur.c_str(), seen[cur]); bad++; }
          if (!forbidden && !has) { printf("  FAIL %s: outcome %s is allowed and expected but was never produced\n", t.name, cur.c_str()); bad++; }
        }
        cur.clear();
        if (*p == 0) break;
      } else cur += *p;
    }
  };
  each(t.forbidden, true);
  each(t.required, false);
  if (verbose || bad) {
    printf("%-44s %s  outcomes:", t.name, bad ? "FAIL" : "ok  ");
    for (auto& kv : seen) printf(" %s x%d", kv.first.c_str(), kv.second);
    printf("\n");
  }
  (void)nres;
  return bad;
}

// runs `body` repeatedly in a forked child; returns the child's exit status code
int run_forked(Body body, int iters, int stale) {
  fflush(stdout);
  pid_t pid = fork();
  if (pid == 0) {
    for (int it = 0; it < iters; it++) {
      Shared s;
      dsched::Params p;
      p.seed = (uint64_t)it * 104729 + 7;
      p.strategy = it % 2 ? dsched::S_PCT : dsched::S_RANDOM;
      p.pct_depth = 1 + it % 3;
      p.pct_est_steps = 40;
      p.p_switch_x1000 = 300;
      p.p_stale_x1000 = (uint32_t)stale;
      dsched::run(p, [&] { body(s); });
    }
    _exit(0);
  }
  int st = 0;
  waitpid(pid, &st, 0);
  return WIFEXITED(st) ? WEXITSTATUS(st) : 1000 + WTERMSIG(st);
}

}  // namespace

int main(int argc, char** argv) {
  int iters = argc > 1 ? atoi(argv[1]) : 1500;
  bool verbose = argc > 2;
  int bad = 0;
  for (const Test& t : tests) bad += run_test(t, iters, verbose);
  // liveness shapes (a deadlock ends the child with exit code 10 + V_DEADLOCK)
  int dl = 10 + dsched::V_DEADLOCK;
  int rc = run_forked(futex_protocol_fenced, iters, 500);
  printf("%-44s %s (child exit %d)\n", "futex wake protocol with seq_cst fence", rc == 0 ? "ok  " : "FAIL", rc);
  if (rc != 0) bad++;
  rc = run_forked(futex_protocol_exchange, iters, 500);
  printf("%-44s %s (child exit %d)\n", "futex wake protocol with exchange", rc == 0 ? "ok  " : "FAIL", rc);
  if (rc != 0) bad++;
  rc = run_forked(futex_protocol_unfenced, iters * 4, 500);
  printf("%-44s %s (child exit %d; a lost wake-up must be reachable)\n", "futex wake protocol WITHOUT the fence", rc == dl ? "ok  " : "FAIL", rc);
  if (rc != dl) bad++;
  rc = run_forked(futex_protocol_unfenced, iters, 0);
  printf("%-44s %s (child exit %d; under SC interleaving the unfenced protocol is safe)\n", "unfenced protocol, SC mode", rc == 0 ? "ok  " : "FAIL", rc);
  if (rc != 0) bad++;
  printf("model selftest: %s (%d problems)\n", bad ? "FAIL" : "pass", bad);
  return bad ? 1 : 0;
}
