// NOT a fuzz seed: real-thread witness for finding F7 (the dsched engine has no schedule point in the window).
// build: g++ -std=c++20 -O2 -I/repo/src f7_wake_all_probe.cpp /repo/src/babylon/coroutine/futex.cpp /repo/src/babylon/basic_executor.cpp /repo/_build/libbabylon.a -lpthread -labsl_base -labsl_time -labsl_synchronization
// run:   ./a.out 60 3   (seconds, interfering threads). Unchanged tree: "wake_all() returned 1 and 1 were resumed" within seconds;
//        with `next` read before resume/finish_released in Futex::wake_all: 0 anomalies in 15M iterations; 0 interfering threads: 0 anomalies.
// stress probe for: Futex::wake_all reads node->next after finish_released(node->id)
#include <babylon/coroutine/futex.h>
#include <babylon/executor.h>
#include <atomic>
#include <chrono>
#include <cstdio>
#include <thread>
using babylon::coroutine::Futex;
using babylon::coroutine::Task;
struct InlineEx : public babylon::Executor {
  int invoke(babylon::MoveOnlyFunction<void(void)>&& f) noexcept override { RunnerScope s{*this}; f(); return 0; }
};
std::atomic<long> resumed{0};
std::atomic<bool> stop{false};
Task<> waiterA(Futex* f) { co_await f->wait(0); resumed.fetch_add(1, std::memory_order_relaxed); }
Task<> waiterB(Futex* g) { co_await g->wait(0); }
int main(int argc, char** argv) {
  int secs = argc > 1 ? atoi(argv[1]) : 30;
  int nb = argc > 2 ? atoi(argv[2]) : 2;
  Futex F;
  std::vector<std::thread> bs;
  for (int i = 0; i < nb; i++) bs.emplace_back([&] {
    InlineEx ex; Futex G;
    while (!stop.load(std::memory_order_relaxed)) { ex.submit(waiterB, &G); G.wake_one(); }
  });
  InlineEx ex;
  auto t0 = std::chrono::steady_clock::now();
  long iters = 0, bad = 0;
  while (std::chrono::steady_clock::now() - t0 < std::chrono::seconds(secs)) {
    for (int k = 0; k < 1000; k++) {
      long r0 = resumed.load();
      ex.submit(waiterA, &F); ex.submit(waiterA, &F); ex.submit(waiterA, &F);
      int n = F.wake_all();
      long r1 = resumed.load();
      iters++;
      if (n != 3 || r1 - r0 != 3) {
        bad++;
        printf("iteration %ld: 3 coroutines suspended on the futex, wake_all() returned %d and %ld were resumed\n", iters, n, r1 - r0);
        int again = F.wake_all();
        printf("  a second wake_all() returned %d, resumed now %ld of 3\n", again, resumed.load() - r0);
        if (bad >= 3) goto out;
      }
    }
  }
out:
  stop = true;
  for (auto& t : bs) t.join();
  printf("iterations=%ld anomalies=%ld\n", iters, bad);
}
