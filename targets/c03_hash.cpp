// C03: ConcurrentFixedSwissTable / ConcurrentTransientHashSet / ConcurrentTransientHashMap
// under the schedule fuzzer: linearizable insert-if-absent.
//   * per key exactly one insertion reports `inserted`
//   * every insertion and every lookup of a key returns the same, fully constructed element
//   * a lookup (or insertion) ordered after a call that returned the key's element finds it
//   * a full fixed table fails without consuming its arguments, and only when really full
//   * growth (chained tables) never drops or duplicates a key: final size / find / iteration
// The hash functor is generated (few start indexes, few 7-bit tags) so same-window, same-tag
// and full-window collisions are the common case.
#include <babylon/concurrent/transient_hash_table.h>

#include <stdio.h>
#include <stdlib.h>
#include <string.h>

#include <new>

#include <map>
#include <set>
#include <thread>
#include <vector>

#include "../engine/common/driver.h"

using dsched::Tracked;
using vf::Chooser;

namespace {

enum Kind { K_SET = 0, K_FIXED = 1, K_MAP = 2 };
const char* kind_name[] = {"set", "fixed", "map"};

constexpr int PREFILL_BASE = 100;  // keys >= PREFILL_BASE exist only in the pre-fill

struct HashSpec {
  int ns = 1, nt = 1;
  uint32_t starts[3] = {0, 0, 0};
  uint8_t tags[3] = {0, 0, 0};
  int key_start[8] = {};
  int key_tag[8] = {};
  size_t hash_of(int k) const {
    uint32_t s;
    uint8_t t;
    if (k < PREFILL_BASE) {
      s = starts[key_start[k & 7]];
      t = tags[key_tag[k & 7]];
    } else {
      int p = k - PREFILL_BASE;
      s = starts[p % ns];
      t = tags[(p / 3) % nt];
    }
    return ((size_t)s << 7) | (size_t)(t & 0x7F);
  }
};

struct World;
World* W = nullptr;
long g_live = 0;  // elements constructed - destroyed (per case; reset in run_case)

// Table storage (control bytes + value array; the only over-aligned allocations babylon makes here)
// is registered by the replaced aligned operator new below: the allocating thread marks the block,
// and a thread that is handed an element inside the block must happen-after that mark. This makes
// the plain initialisation of a chained table (TableNode members, memset control bytes) visible to
// the happens-before check although plain accesses themselves are not instrumented.
struct Storage {
  uintptr_t lo, hi;
  dsched::TrackState ts;
};
constexpr int MAX_STORAGE = 128;
Storage g_storage[MAX_STORAGE];
int g_nstorage = 0;
bool g_case_active = false;

void storage_add(void* p, size_t n) {
  if (!g_case_active || g_nstorage >= MAX_STORAGE) return;
  Storage& s = g_storage[g_nstorage++];
  s.lo = (uintptr_t)p;
  s.hi = s.lo + n;
  dsched::track_reset(&s.ts);
  dsched::track_write(&s.ts, "table storage (allocation)");
}
void storage_remove(void* p) {
  for (int i = 0; i < g_nstorage; i++)
    if (g_storage[i].lo == (uintptr_t)p) {
      if (dsched::active()) dsched::on_free(p, g_storage[i].hi - g_storage[i].lo);
      g_storage[i] = g_storage[--g_nstorage];
      return;
    }
}
void storage_check(const void* addr) {
  uintptr_t a = (uintptr_t)addr;
  for (int i = 0; i < g_nstorage; i++)
    if (a >= g_storage[i].lo && a < g_storage[i].hi) {
      dsched::track_read(&g_storage[i].ts, "table storage (initialised by the thread that allocated the table)");
      return;
    }
}

uint64_t mixa(int k, uint64_t t) { return (uint64_t)k * 1000003u + t * 7 + 1; }
uint64_t mixb(int k, uint64_t t) { return ~((uint64_t)k * 31 + t); }

// move-only argument: moving from it is observable
struct Token {
  uint64_t v;
  bool consumed = false;
  explicit Token(uint64_t x) : v(x) {}
  Token(const Token&) = delete;
  Token& operator=(const Token&) = delete;
  Token(Token&& o) noexcept : v(o.v) {
    o.consumed = true;
    o.v = 0;
  }
};

struct KeyArg {
  int k;
};

// ---- element of the fixed table and of the set -----------------------------------
struct Elem {
  Tracked<int> key;
  Tracked<uint64_t> a;
  Tracked<uint64_t> tok;
  Tracked<uint64_t> b;
  bool moved_from = false;

  void init(int k, uint64_t t) {
    g_live++;
    key.set(k, "elem.key");
    a.set(mixa(k, t), "elem.a");
    dsched::point();  // a reader may arrive between the BUSY mark and the publishing store
    tok.set(t, "elem.tok");
    b.set(mixb(k, t), "elem.b");
  }
  Elem(const KeyArg& k, Token&& t) {
    Token mine(std::move(t));
    init(k.k, mine.v);
  }
  explicit Elem(const KeyArg& k) { init(k.k, 0); }
  Elem(const Elem& o) { init(o.key.peek(), o.tok.peek()); }
  Elem(Elem&& o) noexcept {
    o.moved_from = true;
    init(o.key.peek(), o.tok.peek());
  }
  Elem& operator=(const Elem&) = delete;
  ~Elem() { g_live--; }
};
// the table compares a stored element (left) with the probe key (right)
bool operator==(const Elem& e, const KeyArg& k) { return e.key.get("elem.key") == k.k; }
bool operator==(const Elem& e, const Elem& o) { return e.key.get("elem.key") == o.key.peek(); }

// ---- key / mapped value of the map --------------------------------------------------
struct MKey {
  Tracked<int> k;
  MKey(const KeyArg& a) {
    g_live++;
    k.set(a.k, "mkey");
  }
  MKey(const MKey& o) {
    g_live++;
    k.set(o.k.peek(), "mkey");
  }
  ~MKey() { g_live--; }
};
bool operator==(const MKey& m, const KeyArg& a) { return m.k.get("mkey") == a.k; }
bool operator==(const MKey& m, const MKey& o) { return m.k.get("mkey") == o.k.peek(); }

struct MVal {
  Tracked<uint64_t> a;
  Tracked<uint64_t> tok;
  Tracked<uint64_t> b;
  bool moved_from = false;
  void init(uint64_t t) {
    g_live++;
    a.set(mixa(0, t), "mval.a");
    dsched::point();
    tok.set(t, "mval.tok");
    b.set(mixb(0, t), "mval.b");
  }
  MVal() { init(0); }
  MVal(Token&& t) {
    Token mine(std::move(t));
    init(mine.v);
  }
  MVal(MVal&& o) noexcept {
    o.moved_from = true;
    init(o.tok.peek());
  }
  MVal(const MVal&) = delete;
  ~MVal() { g_live--; }
};

struct Hash {
  size_t operator()(const KeyArg& k) const noexcept;
  size_t operator()(const Elem& e) const noexcept;
  size_t operator()(const MKey& m) const noexcept;
};

using Fixed = babylon::ConcurrentFixedSwissTable<Elem, Hash>;
using Set = babylon::ConcurrentTransientHashSet<Elem, Hash>;
using Map = babylon::ConcurrentTransientHashMap<MKey, MVal, Hash>;

// ---- history ------------------------------------------------------------------------
enum OpKind { O_INS0 = 0, O_INS1, O_INS2, O_INS3, O_FIND, O_CONTAINS, O_COUNT, O_FIND2, O_NKINDS };
bool is_insert(int k) { return k <= O_INS3; }
const char* op_names[3][O_NKINDS] = {
    {"emplace(k,tok)", "insert(Elem&&)", "insert(const Elem&)", "emplace(k)", "find", "contains", "count", "find"},
    {"emplace(k,tok)", "insert(Elem&&)", "insert(const Elem&)", "emplace(k)", "find", "contains", "count", "find"},
    {"try_emplace(k,tok)", "insert(pair&&)", "emplace(k,tok)", "operator[]", "find", "contains", "count", "find"}};

struct Op {
  int kind;
  int key;
};
struct Res {
  bool found = false;     // the call designated an element (insert: iterator != end())
  bool inserted = false;  // insert only
  const void* addr = nullptr;
  bool has_addr = false;
  uint64_t tok = 0;
  bool arg_untouched = true;  // move-only / rvalue argument still intact after the call
};
struct OpRec {
  int thread, kind, key;
  uint64_t tok_offered;
  uint64_t begin = 0, end = 0;
  dsched::Stamp done{};
  bool finished = false;
  Res r;
};

struct World {
  Kind kind;
  HashSpec hs;
  bool placeholder = false;  // default-constructed fixed table: zero capacity by contract
  size_t fixed_capacity = 0;
  std::vector<OpRec> ops;
  std::set<int> prefilled;             // contended keys inserted before the threads start
  size_t n_extra = 0;                  // further pre-fill keys PREFILL_BASE .. PREFILL_BASE + n_extra - 1
  bool default_head = false;           // set/map whose head is the zero-capacity placeholder
  std::map<int, const void*> addr_of;   // key -> element address first observed
  std::map<int, uint64_t> tok_of;       // key -> token first observed in the element
  std::map<int, int> winner_of;         // key -> op index that reported inserted
};

size_t Hash::operator()(const KeyArg& k) const noexcept { return W->hs.hash_of(k.k); }
size_t Hash::operator()(const Elem& e) const noexcept { return W->hs.hash_of(e.key.peek()); }
size_t Hash::operator()(const MKey& m) const noexcept { return W->hs.hash_of(m.k.peek()); }

uint64_t verify_elem(const Elem& e, int k, const char* via) {
  int kk = e.key.get("elem.key");
  uint64_t a = e.a.get("elem.a");
  uint64_t t = e.tok.get("elem.tok");
  uint64_t b = e.b.get("elem.b");
  if (kk != k || a != mixa(kk, t) || b != mixb(kk, t))
    dsched::fail("fully-constructed", "%s(%d) returned an element that is not the fully constructed element of that key: key=%d a=%lx tok=%lx b=%lx",
                 via, k, kk, (unsigned long)a, (unsigned long)t, (unsigned long)b);
  return t;
}
uint64_t verify_pair(const Map::value_type& p, int k, const char* via) {
  int kk = p.first.k.get("mkey");
  uint64_t a = p.second.a.get("mval.a");
  uint64_t t = p.second.tok.get("mval.tok");
  uint64_t b = p.second.b.get("mval.b");
  if (kk != k || a != mixa(0, t) || b != mixb(0, t))
    dsched::fail("fully-constructed", "%s(%d) returned a pair that is not fully constructed: key=%d a=%lx tok=%lx b=%lx", via, k, kk,
                 (unsigned long)a, (unsigned long)t, (unsigned long)b);
  return t;
}

// ---- container adapters -------------------------------------------------------------
template <class C>
struct ElemBox {  // Fixed and Set
  C* c;
  Res insert(int variant, int k, uint64_t tokv) {
    Res r;
    const char* via = op_names[0][variant];
    auto take = [&](std::pair<typename C::iterator, bool> pr) {
      r.inserted = pr.second;
      r.found = pr.first != c->end();
      if (r.found) {
        const Elem& e = *pr.first;
        r.addr = &e;
        r.has_addr = true;
        r.tok = verify_elem(e, k, via);
      }
    };
    switch (variant) {
      case O_INS0: {
        Token t(tokv);
        take(c->emplace(KeyArg{k}, std::move(t)));
        r.arg_untouched = !t.consumed && t.v == tokv;
        break;
      }
      case O_INS1: {
        Token t(tokv);
        Elem local(KeyArg{k}, std::move(t));
        take(c->insert(std::move(local)));
        r.arg_untouched = !local.moved_from;
        break;
      }
      case O_INS2: {
        Token t(tokv);
        const Elem local(KeyArg{k}, std::move(t));
        take(c->insert(local));
        break;
      }
      default:
        take(c->emplace(KeyArg{k}));
        break;
    }
    return r;
  }
  Res lookup(int variant, int k) {
    Res r;
    if (variant == O_CONTAINS) {
      r.found = c->contains(KeyArg{k});
    } else if (variant == O_COUNT) {
      size_t n = c->count(KeyArg{k});
      if (n > 1) dsched::fail("one-winner", "count(%d) == %zu", k, n);
      r.found = n == 1;
    } else {
      auto it = c->find(KeyArg{k});
      r.found = it != c->end();
      if (r.found) {
        const Elem& e = *it;
        r.addr = &e;
        r.has_addr = true;
        r.tok = verify_elem(e, k, "find");
      }
    }
    return r;
  }
  size_t size() { return c->size(); }
  void keys(std::vector<std::pair<int, const void*>>& out) {
    size_t guard = 0;
    for (auto it = c->begin(); it != c->end(); ++it) {
      const Elem& e = *it;
      out.emplace_back(e.key.get("elem.key"), &e);
      if (++guard > 4096) dsched::fail("iteration", "iteration does not terminate");
    }
  }
  void prefill(int k) {
    auto pr = c->emplace(KeyArg{k}, Token(0xF00 + (uint64_t)k));
    if (!pr.second || pr.first == c->end()) dsched::fail("harness", "pre-fill of key %d failed", k);
  }
};

struct MapBox {
  Map* c;
  Res insert(int variant, int k, uint64_t tokv) {
    Res r;
    const char* via = op_names[2][variant];
    auto take = [&](std::pair<Map::iterator, bool> pr) {
      r.inserted = pr.second;
      r.found = pr.first != c->end();
      if (r.found) {
        const Map::value_type& p = *pr.first;
        r.addr = &p.second;
        r.has_addr = true;
        r.tok = verify_pair(p, k, via);
      }
    };
    switch (variant) {
      case O_INS0: {
        Token t(tokv);
        take(c->try_emplace(KeyArg{k}, std::move(t)));
        break;
      }
      case O_INS1: {
        Map::value_type v(KeyArg{k}, Token(tokv));
        take(c->insert(std::move(v)));
        break;
      }
      case O_INS2: {
        Token t(tokv);
        take(c->emplace(KeyArg{k}, std::move(t)));
        break;
      }
      default: {
        // operator[]: inserts a default mapped value when absent; `inserted` is not reported
        MVal& v = (*c)[KeyArg{k}];
        r.found = true;
        r.addr = &v;
        r.has_addr = true;
        uint64_t a = v.a.get("mval.a"), t = v.tok.get("mval.tok"), b = v.b.get("mval.b");
        if (a != mixa(0, t) || b != mixb(0, t))
          dsched::fail("fully-constructed", "operator[](%d) returned a mapped value that is not fully constructed", k);
        r.tok = t;
        break;
      }
    }
    return r;
  }
  Res lookup(int variant, int k) {
    Res r;
    if (variant == O_CONTAINS) {
      r.found = c->contains(KeyArg{k});
    } else if (variant == O_COUNT) {
      size_t n = c->count(KeyArg{k});
      if (n > 1) dsched::fail("one-winner", "count(%d) == %zu", k, n);
      r.found = n == 1;
    } else {
      auto it = c->find(KeyArg{k});
      r.found = it != c->end();
      if (r.found) {
        const Map::value_type& p = *it;
        r.addr = &p.second;
        r.has_addr = true;
        r.tok = verify_pair(p, k, "find");
      }
    }
    return r;
  }
  size_t size() { return c->size(); }
  void keys(std::vector<std::pair<int, const void*>>& out) {
    size_t guard = 0;
    for (auto it = c->begin(); it != c->end(); ++it) {
      const Map::value_type& p = *it;
      out.emplace_back(p.first.k.get("mkey"), &p.second);
      if (++guard > 4096) dsched::fail("iteration", "iteration does not terminate");
    }
  }
  void prefill(int k) {
    auto pr = c->try_emplace(KeyArg{k}, Token(0xF00 + (uint64_t)k));
    if (!pr.second) dsched::fail("harness", "pre-fill of key %d failed", k);
  }
};

// ---- one operation with its in-thread checks ---------------------------------------------
template <class Box>
void run_op(Box& box, int thread, const Op& op, int opseq_in_thread) {
  World& w = *W;
  int idx = (int)w.ops.size();
  w.ops.push_back(OpRec{});
  {
    OpRec& rec = w.ops[(size_t)idx];
    rec.thread = thread;
    rec.kind = op.kind;
    rec.key = op.key;
    rec.tok_offered = op.kind == O_INS3 ? 0 : ((uint64_t)thread << 8) | (uint64_t)(opseq_in_thread + 1);
  }
  // which earlier results is this call ordered after? (real time in SC mode, happens-before in weak mode)
  int must_find_because = -1;  // op index, -2 = pre-fill
  bool because_insert = false;
  if (w.prefilled.count(op.key)) must_find_because = -2, because_insert = true;
  for (int i = 0; i < idx && must_find_because == -1; i++) {
    const OpRec& o = w.ops[(size_t)i];
    if (o.key == op.key && o.finished && o.r.found && dsched::ordered_after(o.done)) {
      must_find_because = i;
      because_insert = is_insert(o.kind);
    }
  }
  uint64_t begin = dsched::step();
  w.ops[(size_t)idx].begin = begin;
  uint64_t tokv = w.ops[(size_t)idx].tok_offered;
  Res r = is_insert(op.kind) ? box.insert(op.kind, op.key, tokv) : box.lookup(op.kind, op.key);
  OpRec& rec = w.ops[(size_t)idx];  // (vector may have grown meanwhile)
  rec.r = r;
  rec.end = dsched::step();
  rec.done = dsched::stamp();
  rec.finished = true;
  const char* name = op_names[w.kind][op.kind];

  if (w.placeholder) {
    // documented: a default-constructed fixed table is empty and full at the same time
    if (r.found || r.inserted) dsched::fail("placeholder", "%s(%d) on a default-constructed fixed table designated an element", name, op.key);
    if (!r.arg_untouched) dsched::fail("full-keeps-args", "%s(%d) failed on the placeholder table but consumed its argument", name, op.key);
    return;
  }
  if (is_insert(op.kind)) {
    if (!r.found) {
      if (w.kind != K_FIXED) dsched::fail("growth", "%s(%d) on a growing container returned end()", name, op.key);
      if (r.inserted) dsched::fail("one-winner", "%s(%d) returned end() together with inserted=true", name, op.key);
      if (!r.arg_untouched) dsched::fail("full-keeps-args", "%s(%d) failed on a full table but consumed its move-only argument", name, op.key);
      dsched::label("fixed_insert_failed_full");
    }
    if (r.inserted) {
      if (w.prefilled.count(op.key))
        dsched::fail("one-winner", "%s(%d) reported inserted although the key was inserted before the threads started", name, op.key);
      auto it = w.winner_of.find(op.key);
      if (it != w.winner_of.end())
        dsched::fail("one-winner", "key %d: op%d (T%d) and op%d (T%d) both report inserted=true", op.key, it->second,
                     w.ops[(size_t)it->second].thread, idx, thread);
      w.winner_of[op.key] = idx;
      if (r.tok != tokv)
        dsched::fail("winner-value", "%s(%d) reported inserted but the element carries token %lx, offered %lx", name, op.key,
                     (unsigned long)r.tok, (unsigned long)tokv);
    }
  }
  if (r.has_addr) {
    storage_check(r.addr);
    auto it = w.addr_of.find(op.key);
    if (it == w.addr_of.end()) {
      w.addr_of[op.key] = r.addr;
      w.tok_of[op.key] = r.tok;
    } else {
      if (it->second != r.addr)
        dsched::fail("same-element", "key %d: %s by T%d designates %p, an earlier call designated %p", op.key, name, thread, r.addr, it->second);
      if (w.tok_of[op.key] != r.tok)
        dsched::fail("winner-value", "key %d: value changed from token %lx to %lx", op.key, (unsigned long)w.tok_of[op.key], (unsigned long)r.tok);
    }
  }
  if (must_find_because != -1) {
    bool bad = !r.found || r.inserted;
    if (bad) {
      char why[96];
      if (must_find_because == -2) snprintf(why, sizeof why, "the pre-fill");
      else
        snprintf(why, sizeof why, "op%d (T%d %s, steps %lu..%lu)", must_find_because, w.ops[(size_t)must_find_because].thread,
                 op_names[w.kind][w.ops[(size_t)must_find_because].kind], (unsigned long)w.ops[(size_t)must_find_because].begin,
                 (unsigned long)w.ops[(size_t)must_find_because].end);
      dsched::fail(because_insert ? "visible-after-insert" : "visible-after-lookup",
                   "%s(%d) by T%d (steps %lu..%lu) %s although it is ordered after %s which returned the element", name, op.key, thread,
                   (unsigned long)begin, (unsigned long)rec.end, r.inserted ? "inserted the key again" : "missed the key", why);
    }
  }
}

template <class Box>
void run_program(Box& box, Chooser& c, int nkeys, size_t first_capacity) {
  World& w = *W;
  int nthreads = c.range(2, vf::thorough() ? 6 : 4);
  std::vector<std::vector<Op>> plan((size_t)nthreads);
  for (int t = 0; t < nthreads; t++) {
    int nops = c.range(1, vf::thorough() ? 6 : 4);
    dsched::describe(" T%d[", t + 1);
    for (int i = 0; i < nops; i++) {
      Op op;
      op.kind = (int)c.below(O_NKINDS);
      op.key = (int)c.below((uint32_t)nkeys);
      plan[(size_t)t].push_back(op);
      dsched::describe("%s%s(%d)", i ? "," : "", op_names[w.kind][op.kind], op.key);
      dsched::label(is_insert(op.kind) ? "op_insert" : "op_lookup");
    }
    dsched::describe("]");
  }
  w.ops.reserve(64);

  std::vector<std::thread> threads;
  for (int t = 0; t < nthreads; t++)
    threads.emplace_back([&, t] {
      for (size_t i = 0; i < plan[(size_t)t].size(); i++) run_op(box, t + 1, plan[(size_t)t][i], (int)i);
    });
  for (auto& th : threads) th.join();

  // ---- quiescent: thread 0 happens-after everything ----
  const size_t prefill_n = w.prefilled.size() + w.n_extra;
  size_t distinct = prefill_n;
  size_t winners = 0;
  std::set<int> present = w.prefilled;
  for (auto& kv : w.winner_of) {
    present.insert(kv.first);
    winners++;
  }
  distinct += winners;
  if (w.placeholder) {
    if (box.size() != 0) dsched::fail("placeholder", "size() == %zu on the placeholder table", box.size());
    std::vector<std::pair<int, const void*>> ks;
    box.keys(ks);
    if (!ks.empty()) dsched::fail("placeholder", "iteration of the placeholder table yields %zu elements", ks.size());
    return;
  }
  if (w.kind == K_MAP) {
    // operator[] does not report `inserted`: a key it created has no recorded winner
    for (auto& kv : w.addr_of)
      if (!present.count(kv.first)) {
        bool by_bracket = false;
        for (auto& o : w.ops)
          if (o.key == kv.first && o.kind == O_INS3) by_bracket = true;
        if (by_bracket) {
          present.insert(kv.first);
          distinct++;
        }
      }
  }
  for (size_t i = 0; i < w.ops.size(); i++) {
    const OpRec& o = w.ops[i];
    // an element was designated for a key nobody inserted
    if (o.r.found && !present.count(o.key))
      dsched::fail("one-winner", "op%zu (T%d %s(%d)) designated an element but no insertion of that key reported inserted=true", i, o.thread,
                   op_names[w.kind][o.kind], o.key);
    if (is_insert(o.kind) && !o.r.found) {
      // fixed table: end() only if at some moment of the call every bucket was claimed.
      // every claimed bucket belongs to the pre-fill or to an insertion that began before this call ended
      // and reports inserted=true.
      size_t claimed = prefill_n;
      for (auto& kv : w.winner_of)
        if (w.ops[(size_t)kv.second].begin <= o.end) claimed++;
      if (claimed < w.fixed_capacity)
        dsched::fail("full-only-when-full", "op%zu (T%d %s(%d)) returned end() but at most %zu of %zu buckets were claimed before it returned",
                     i, o.thread, op_names[w.kind][o.kind], o.key, claimed, w.fixed_capacity);
    }
  }
  if (box.size() != distinct) dsched::fail("final-size", "size() == %zu at the quiescent end, %zu distinct keys were inserted", box.size(), distinct);
  for (int k = 0; k < nkeys; k++) {
    Res r = box.lookup(O_FIND, k);
    if (r.found != (present.count(k) != 0))
      dsched::fail("final-find", "quiescent find(%d) == %d, expected %d", k, (int)r.found, (int)present.count(k));
    if (r.found && w.addr_of.count(k) && w.addr_of[k] != r.addr)
      dsched::fail("same-element", "quiescent find(%d) designates %p, the concurrent phase saw %p", k, r.addr, w.addr_of[k]);
    if (r.found && w.winner_of.count(k) && r.tok != w.ops[(size_t)w.winner_of[k]].tok_offered)
      dsched::fail("winner-value", "key %d carries token %lx, the winner offered %lx", k, (unsigned long)r.tok,
                   (unsigned long)w.ops[(size_t)w.winner_of[k]].tok_offered);
  }
  for (size_t p = 0; p < w.n_extra; p++) {
    Res r = box.lookup(O_FIND, PREFILL_BASE + (int)p);
    if (!r.found) dsched::fail("final-find", "pre-filled key %d lost", PREFILL_BASE + (int)p);
  }
  std::vector<std::pair<int, const void*>> ks;
  box.keys(ks);
  std::map<int, int> seen;
  for (auto& kv : ks) {
    if (++seen[kv.first] > 1) dsched::fail("final-iteration", "iteration yields key %d twice", kv.first);
    bool expected = kv.first >= PREFILL_BASE ? (size_t)(kv.first - PREFILL_BASE) < w.n_extra : present.count(kv.first) != 0;
    if (!expected) dsched::fail("final-iteration", "iteration yields key %d that was never inserted", kv.first);
    if (w.addr_of.count(kv.first) && w.addr_of[kv.first] != kv.second)
      dsched::fail("same-element", "iteration yields key %d at %p, calls designated %p", kv.first, kv.second, w.addr_of[kv.first]);
  }
  if (ks.size() != distinct) dsched::fail("final-iteration", "iteration yields %zu elements, %zu distinct keys were inserted", ks.size(), distinct);

  // ---- non-triviality, labels, hash ----
  bool nt = false;
  for (size_t i = 0; i < w.ops.size(); i++)
    for (size_t j = 0; j < w.ops.size(); j++) {
      const OpRec& a = w.ops[i];
      const OpRec& b = w.ops[j];
      if (i == j || a.thread == b.thread || a.key != b.key) continue;
      bool overlap = a.begin < b.end && b.begin < a.end;
      if (!overlap) continue;
      if (is_insert(a.kind) && is_insert(b.kind) && i < j) { dsched::label("two_inserters_overlap"); nt = true; }
      if (a.r.inserted && !is_insert(b.kind)) { dsched::label("reader_overlaps_winner"); nt = true; }
    }
  bool failed_full = false;
  for (auto& o : w.ops)
    if (is_insert(o.kind) && !o.r.found) failed_full = true;
  if (failed_full) { dsched::label("fixed_filled_up"); nt = true; }
  if (w.kind != K_FIXED && winners > 0 && distinct > first_capacity) { dsched::label("grew_in_concurrent_phase"); nt = true; }
  if (w.default_head && prefill_n == 0) {
    // the very first insertions race to chain the first real table behind the placeholder head
    bool race = false;
    for (size_t i = 0; i < w.ops.size(); i++)
      for (size_t j = i + 1; j < w.ops.size(); j++) {
        const OpRec& a = w.ops[i];
        const OpRec& b = w.ops[j];
        if (a.thread != b.thread && is_insert(a.kind) && is_insert(b.kind) && a.begin < b.end && b.begin < a.end) race = true;
      }
    if (race) { dsched::label("first_table_append_race"); nt = true; }
  }
  if (nt && dsched::stat_switches() >= 2) dsched::nontrivial();
  for (auto& o : w.ops) dsched::mix_hash(((uint64_t)o.key << 32) ^ ((uint64_t)o.kind << 24) ^ (o.r.found ? 2u : 0u) ^ (o.r.inserted ? 1u : 0u) ^ (o.begin << 8));
}

void run_case(Chooser& c) {
  World world;
  W = &world;
  g_live = 0;
  g_nstorage = 0;
  g_case_active = true;
  Kind kind = (Kind)c.below(3);
  int bopt = (int)c.below(3);  // 0: 16 buckets, 1: 32 buckets, 2: default-constructed
  world.kind = kind;
  HashSpec& hs = world.hs;
  static const uint32_t start_menu[] = {0, 5, 15, 16, 20, 31, 33, 48};
  static const uint8_t tag_menu[] = {0x00, 0x01, 0x7F, 0x2A};
  hs.ns = c.range(1, 3);
  for (int i = 0; i < hs.ns; i++) hs.starts[i] = c.pick(start_menu);
  hs.nt = c.range(1, 3);
  for (int i = 0; i < hs.nt; i++) hs.tags[i] = c.pick(tag_menu);
  int nkeys = c.range(1, 5);
  for (int k = 0; k < nkeys; k++) {
    hs.key_start[k] = (int)c.below((uint32_t)hs.ns);
    hs.key_tag[k] = (int)c.below((uint32_t)hs.nt);
  }
  // pre-fill: leave `free_slots` of the first real table free; some contended keys may be part of it
  int fill_mode = (int)c.below(4);  // 0 none, 1..3 leave 0..2 free
  uint32_t pre_mask = 0;
  for (int k = 0; k < nkeys; k++)
    if (c.chance(1, 5)) pre_mask |= 1u << k;

  size_t buckets = bopt == 0 ? 16 : bopt == 1 ? 32 : 0;
  world.placeholder = kind == K_FIXED && bopt == 2;
  // capacity of the first table that takes elements (a default-constructed set/map head takes none and chains a 32 table)
  size_t first_capacity = buckets ? buckets : 32;
  world.fixed_capacity = kind == K_FIXED ? buckets : 0;
  world.default_head = kind != K_FIXED && bopt == 2;
  std::vector<int> prefill_keys;
  if (!world.placeholder) {
    for (int k = 0; k < nkeys; k++)
      if (pre_mask & (1u << k)) {
        prefill_keys.push_back(k);
        world.prefilled.insert(k);
      }
    if (fill_mode > 0) {
      size_t target = first_capacity - (size_t)(fill_mode - 1);
      while (prefill_keys.size() < target) prefill_keys.push_back(PREFILL_BASE + (int)world.n_extra++);
    }
  }
  const size_t prefill_n = prefill_keys.size();
  dsched::describe("%s(%s) hash{starts", kind_name[kind], bopt == 0 ? "16" : bopt == 1 ? "32" : "default");
  for (int i = 0; i < hs.ns; i++) dsched::describe(" %u", hs.starts[i]);
  dsched::describe(" tags");
  for (int i = 0; i < hs.nt; i++) dsched::describe(" %02x", hs.tags[i]);
  dsched::describe("} keys{");
  for (int k = 0; k < nkeys; k++) dsched::describe("%d:s%u/t%02x%s ", k, hs.starts[hs.key_start[k]], hs.tags[hs.key_tag[k]], world.prefilled.count(k) ? "*" : "");
  dsched::describe("} prefill=%zu;", prefill_n);
  dsched::label(kind == K_SET ? "kind_set" : kind == K_FIXED ? "kind_fixed" : "kind_map");
  dsched::label(bopt == 0 ? "buckets_16" : bopt == 1 ? "buckets_32" : "buckets_default");
  if (prefill_n) dsched::label(fill_mode > 0 ? "prefilled_nearly_full" : "prefilled_keys");
  {
    std::set<size_t> hv;
    bool same_tag = false;
    for (int a = 0; a < nkeys; a++)
      for (int b = a + 1; b < nkeys; b++)
        if (hs.hash_of(a) == hs.hash_of(b)) same_tag = true;
    if (same_tag) dsched::label("keys_with_equal_hash");
  }

  auto go = [&](auto& box) {
    if (!prefill_keys.empty()) {
      dsched::quiet_begin();
      for (int k : prefill_keys) box.prefill(k);
      dsched::quiet_end();
    }
    run_program(box, c, nkeys, first_capacity);
  };
  if (kind == K_FIXED) {
    Fixed* t = buckets ? new Fixed(buckets) : new Fixed();
    ElemBox<Fixed> box{t};
    go(box);
    delete t;
  } else if (kind == K_SET) {
    Set* t = buckets ? new Set(buckets) : new Set();
    ElemBox<Set> box{t};
    go(box);
    delete t;
  } else {
    Map* t = buckets ? new Map(buckets) : new Map();
    MapBox box{t};
    go(box);
    delete t;
  }
  if (g_live != 0) dsched::fail("element-lifecycle", "%ld elements constructed but not destroyed after the container died", g_live);
  g_case_active = false;
  g_nstorage = 0;
  W = nullptr;
}

void tune(dsched::Params& p, Chooser&) { p.max_steps = 300000; }

}  // namespace

// replaced over-aligned allocation functions (the default nothrow forms forward to these)
void* operator new(size_t n, std::align_val_t al) {
  size_t a = (size_t)al;
  if (a < sizeof(void*)) a = sizeof(void*);
  void* p = nullptr;
  if (posix_memalign(&p, a, n ? n : 1) != 0) abort();
  storage_add(p, n);
  return p;
}
void* operator new[](size_t n, std::align_val_t al) { return operator new(n, al); }
void operator delete(void* p, std::align_val_t) noexcept {
  if (!p) return;
  storage_remove(p);
  free(p);
}
void operator delete(void* p, size_t, std::align_val_t al) noexcept { operator delete(p, al); }
void operator delete[](void* p, std::align_val_t al) noexcept { operator delete(p, al); }
void operator delete[](void* p, size_t, std::align_val_t al) noexcept { operator delete(p, al); }

int main(int argc, char** argv) {
  vf::Target t;
  t.name = "c03_hash";
  t.property_id = "C03";
  t.run_case = run_case;
  t.tune = tune;
  t.nontrivial_rule =
      "two inserters of one key overlapped in step time, or a lookup overlapped the winning insertion of its key, or a table filled up "
      "(fixed: an insert returned end(); set/map: a further table was chained) during the concurrent phase; and >= 2 context switches";
  return vf::main_driver(argc, argv, t);
}
