// C14 (sequential part): long allocate / free histories of IdAllocator<uint16_t|uint32_t> and long
// emplace / take / finish histories of one DepositBox against exact reference models.
// libFuzzer + ASan; one operation sequence decoded from the fuzzer's bytes per input.
// Built with -fno-access-control only to construct a private DepositBox per input.
#include <babylon/concurrent/deposit_box.h>
#include <babylon/concurrent/id_allocator.h>

#include <map>
#include <memory>
#include <set>
#include <string>
#include <vector>

#include "fuzz_common.h"

namespace {

const char* RULE =
    "decoded sequential history; non-trivial = an allocator history in which >= 2 freed values were reused and for_each was compared "
    "with the live set afterwards, or a deposit-box history in which one slot was reused >= 3 times and a stale id of it was replayed";

int g_live_items = 0;
struct Item {
  uint64_t canary = 0x11FE11FE11FE11FEULL;
  uint64_t x;
  explicit Item(uint64_t v) : x(v) { g_live_items++; }
  Item(const Item&) = delete;
  ~Item() {
    if (canary != 0x11FE11FE11FE11FEULL) __builtin_trap();
    canary = 0xDEAD;
    g_live_items--;
  }
};

template <class T>
void run_allocator(vfz::Dec& d, std::string& desc, bool& nontrivial) {
  using VV = babylon::VersionedValue<T>;
  babylon::IdAllocator<T> alloc;
  std::map<uint32_t, VV> held;  // value -> id
  std::set<uint32_t> freed;
  std::set<uint64_t> issued;  // value@version pairs are never issued twice (fewer deallocations than the version can count)
  uint32_t next = 0;
  int reused = 0;
  desc += sizeof(T) == 2 ? "alloc16:" : "alloc32:";

  auto check_for_each = [&] {
    std::set<uint32_t> seen;
    long last_end = -1;
    alloc.for_each([&](T b, T e) {
      if (!(b < e)) vfz::fail(desc, "for_each: empty or inverted range [%u,%u)", (unsigned)b, (unsigned)e);
      if (last_end >= 0 && (long)b < last_end) vfz::fail(desc, "for_each: ranges overlap at [%u,%u)", (unsigned)b, (unsigned)e);
      last_end = (long)e;
      for (uint32_t v = b; v < e; v++) seen.insert(v);
    });
    for (auto& kv : held)
      if (!seen.count(kv.first)) vfz::fail(desc, "for_each does not report live value %u", kv.first);
    for (uint32_t v : seen)
      if (!held.count(v)) vfz::fail(desc, "for_each reports %u which is not allocated", v);
    if (alloc.end() != (T)next) vfz::fail(desc, "end() == %u, %u values were ever minted", (unsigned)alloc.end(), next);
    if (reused >= 2) nontrivial = true;
  };
  auto do_alloc = [&] {
    if (next >= 600 && freed.empty()) return;
    VV id = alloc.allocate();
    if (held.count(id.value)) vfz::fail(desc, "allocate returned %u which is still held", (unsigned)id.value);
    if (!issued.insert(((uint64_t)id.value << 32) | id.version).second)
      vfz::fail(desc, "allocate returned %u@%u a second time", (unsigned)id.value, (unsigned)id.version);
    if (!freed.empty()) {
      if (!freed.count(id.value)) vfz::fail(desc, "allocate returned %u (end %u) although %zu freed values exist", (unsigned)id.value, next, freed.size());
      freed.erase(id.value);
      reused++;
    } else {
      if (id.value != next) vfz::fail(desc, "no freed value exists, expected fresh value %u, got %u", next, (unsigned)id.value);
      next++;
    }
    held[id.value] = id;
  };
  auto do_free = [&](uint32_t sel, bool value_only) {
    if (held.empty()) return;
    auto it = held.begin();
    std::advance(it, sel % held.size());
    VV id = it->second;
    held.erase(it);
    freed.insert(id.value);
    if (value_only) alloc.deallocate(VV((typename VV::VersionAndValue)id.value));
    else alloc.deallocate(id);
  };

  int nops = 0;
  while (!d.done() && nops++ < 400) {
    uint8_t op = d.u8();
    switch (op & 7) {
      case 0: case 1: do_alloc(); desc += 'A'; break;
      case 2: case 3: do_free(d.u8(), op & 8); desc += 'F'; break;
      case 4: {  // burst
        int n = 1 + (d.u8() & 63);
        for (int i = 0; i < n; i++) do_alloc();
        desc += "A*" + std::to_string(n) + " ";
        vfz::label("alloc_burst");
        break;
      }
      case 5: {
        int n = 1 + (d.u8() & 31);
        for (int i = 0; i < n; i++) do_free(d.u8(), false);
        desc += "F*" + std::to_string(n) + " ";
        break;
      }
      default: check_for_each(); desc += 'c'; break;
    }
    if (desc.size() > 3000) desc.resize(3000);
  }
  check_for_each();
  // drain: every freed value comes back exactly once before anything is minted
  size_t nf = freed.size();
  for (size_t i = 0; i < nf; i++) do_alloc();
  if (!freed.empty()) vfz::fail(desc, "drain left %zu freed values unused", freed.size());
  do_alloc();
  check_for_each();
  if (next > 128) vfz::label("alloc_past_first_block");
}

void run_box(vfz::Dec& d, std::string& desc, bool& nontrivial) {
  using VV = babylon::VersionedValue<uint32_t>;
  using Box = babylon::DepositBox<Item>;
  desc += "box:";
  {
    Box box;
    struct Dep { VV id; uint64_t x; };
    std::vector<Dep> out;                       // deposited, not taken
    struct Held { VV id; Item* p; uint64_t x; };
    std::vector<Held> held;                     // taken with take_released, not finished
    std::vector<VV> stale;
    std::map<uint32_t, int> uses;               // slot -> number of emplaces
    std::set<uint32_t> occupied;
    std::set<uint64_t> receipts;                // every (slot, version) ever issued
    std::set<uint32_t> free_slots;              // released (finished) slots
    uint32_t nslots = 0;
    uint64_t next_x = 1;
    bool replayed_deep = false;
    auto try_stale = [&](size_t k) {
      VV id = stale[k % stale.size()];
      if (d.flip()) {
        auto acc = box.take(id);
        if (acc) vfz::fail(desc, "stale id (slot %u version %u) matched again via take", id.value, id.version);
      } else if (box.take_released(id) != nullptr) {
        vfz::fail(desc, "stale id (slot %u version %u) matched again via take_released", id.value, id.version);
      }
      if (uses[id.value] >= 3) replayed_deep = true;
    };
    // "reused any number of times": in a share of the inputs one slot first goes through about 2^16 / 2^17
    // emplace/take/release rounds; the first receipts stay around as stale ids
    if (d.u8() % 8 == 0) {
      uint32_t rounds = (d.flip() ? 65536u : 131072u) - 6 + d.u8() % 12;
      VV first{};
      for (uint32_t i = 0; i < rounds; i++) {
        uint64_t x = next_x++;
        VV id = box.emplace(x);
        if (id.value != 0) vfz::fail(desc, "long history round %u: emplace used slot %u although slot 0 is released", i, id.value);
        if (i == 0) first = id;
        else if (box.take_released(first) != nullptr)
          vfz::fail(desc, "long history round %u: the receipt of round 0 (version %u) matched again (new receipt version %u)", i, first.version, id.version);
        Item* p = box.take_released(id);
        if (!p || p->x != x) vfz::fail(desc, "long history round %u: take of the untouched deposit failed", i);
        box.finish_released(id);
        if (i < 40 || i + 4 >= rounds) stale.push_back(id);
      }
      nslots = 1;
      free_slots.insert(0);
      uses[0] = (int)rounds;
      desc += "long" + std::to_string(rounds) + " ";
      vfz::label("box_2^16_history");
    }
    int nops = 0;
    while (!d.done() && nops++ < 600) {
      uint8_t op = d.u8();
      switch (op % 6) {
        case 0: case 1: {
          if (out.size() + held.size() >= 40) break;
          uint64_t x = next_x++;
          VV id = box.emplace(x);
          if (occupied.count(id.value)) vfz::fail(desc, "emplace reused slot %u whose item is still deposited or held", id.value);
          if (!receipts.insert(((uint64_t)id.value << 32) | id.version).second)
            vfz::fail(desc, "emplace returned receipt (slot %u version %u) a second time", id.value, id.version);
          // released slots go back to the box's id allocator: reuse before a new slot is minted
          if (!free_slots.empty()) {
            if (!free_slots.count(id.value))
              vfz::fail(desc, "emplace used slot %u although %zu released slots exist (%u slots so far)", id.value, free_slots.size(), nslots);
            free_slots.erase(id.value);
          } else {
            if (id.value != nslots) vfz::fail(desc, "no released slot exists, expected new slot %u, got %u", nslots, id.value);
            nslots++;
          }
          occupied.insert(id.value);
          uses[id.value]++;
          if (box.unsafe_get(id).x != x) vfz::fail(desc, "unsafe_get right after emplace sees another item");
          out.push_back(Dep{id, x});
          desc += 'e';
          break;
        }
        case 2: {  // RAII take
          if (out.empty()) break;
          size_t k = d.u8() % out.size();
          Dep dep = out[k];
          out.erase(out.begin() + (long)k);
          {
            auto acc = box.take(dep.id);
            if (!acc) vfz::fail(desc, "take of an untouched deposit (slot %u version %u) obtained nothing", dep.id.value, dep.id.version);
            if (acc->x != dep.x || acc->canary != 0x11FE11FE11FE11FEULL) vfz::fail(desc, "take returned the wrong item");
            auto second = box.take(dep.id);
            if (second) vfz::fail(desc, "second take of the same id succeeded while the first accessor is alive");
            occupied.erase(dep.id.value);
          }
          free_slots.insert(dep.id.value);
          stale.push_back(dep.id);
          desc += 't';
          break;
        }
        case 3: {  // take_released, finish later
          if (out.empty()) break;
          size_t k = d.u8() % out.size();
          Dep dep = out[k];
          out.erase(out.begin() + (long)k);
          Item* p = box.take_released(dep.id);
          if (!p) vfz::fail(desc, "take_released of an untouched deposit obtained nothing");
          if (p->x != dep.x) vfz::fail(desc, "take_released returned the wrong item");
          held.push_back(Held{dep.id, p, dep.x});
          stale.push_back(dep.id);
          desc += 'r';
          break;
        }
        case 4: {  // finish one held
          if (held.empty()) break;
          size_t k = d.u8() % held.size();
          Held h = held[k];
          held.erase(held.begin() + (long)k);
          if (h.p->x != h.x || h.p->canary != 0x11FE11FE11FE11FEULL) vfz::fail(desc, "held item changed before finish_released");
          occupied.erase(h.id.value);
          box.finish_released(h.id);
          free_slots.insert(h.id.value);
          desc += 'f';
          break;
        }
        default:
          if (!stale.empty()) {
            try_stale(d.u16());
            desc += 's';
          }
          break;
      }
      if (desc.size() > 3000) desc.resize(3000);
    }
    for (auto& h : held) {
      if (h.p->x != h.x) vfz::fail(desc, "held item changed");
      occupied.erase(h.id.value);
      box.finish_released(h.id);
    }
    for (auto& dep : out) {
      auto acc = box.take(dep.id);
      if (!acc || acc->x != dep.x) vfz::fail(desc, "final take of an untouched deposit failed");
      stale.push_back(dep.id);
    }
    for (size_t k = 0; k < stale.size(); k++) {
      auto acc = box.take(stale[k]);
      if (acc) vfz::fail(desc, "stale id (slot %u version %u) matches at the end", stale[k].value, stale[k].version);
    }
    if (replayed_deep) nontrivial = true;
  }
  if (g_live_items != 0) vfz::fail(desc, "%d items alive after the box was destroyed", g_live_items);
}

}  // namespace

extern "C" int LLVMFuzzerTestOneInput(const uint8_t* data, size_t size) {
  vfz::begin_case(RULE);
  vfz::Dec d(data, size);
  std::string desc;
  bool nontrivial = false;
  g_live_items = 0;
  switch (d.u8() % 4) {
    case 0: vfz::label("kind_alloc16"); run_allocator<uint16_t>(d, desc, nontrivial); break;
    case 1: vfz::label("kind_alloc32"); run_allocator<uint32_t>(d, desc, nontrivial); break;
    default: vfz::label("kind_box"); run_box(d, desc, nontrivial); break;
  }
  if (nontrivial) vfz::nontrivial(vfz::hash_bytes(data, size), desc.substr(0, 600));
  return 0;
}
