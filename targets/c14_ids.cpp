// C14: IdAllocator / ThreadId / DepositBox under the schedule fuzzer.
//   scenario A  IdAllocator<uint16_t|uint32_t>: 2-4 threads allocate / deallocate ids they hold
//               (pop racing pop-push-pop = ABA), quiescent check-points (for_each, reuse-before-mint).
//   scenario B  ThreadId / LeakyThreadId: thread generations with controlled birth / exit orders.
//   scenario C  DepositBox<Item>: emplace, k concurrent take / take_released+finish_released on one
//               id, stale ids replayed after many reuses of the slot, emplace racing on a recycled slot.
//
// Built with -fno-access-control (see c14_ids.reg.json) only to construct one private DepositBox
// per case instead of the process-wide instance(): no babylon code is changed by that.
#include <babylon/concurrent/deposit_box.h>
#include <babylon/concurrent/id_allocator.h>

#include <stdio.h>
#include <string.h>

#include <atomic>
#include <functional>
#include <map>
#include <memory>
#include <mutex>
#include <set>
#include <unordered_set>
#include <string>
#include <thread>
#include <vector>

#include "../engine/common/driver.h"

using dsched::Tracked;
using vf::Chooser;

namespace {

constexpr uint64_t LIVE = 0x11FE11FE11FE11FEULL;
constexpr uint64_t DEAD = 0xDEADDEADDEADDEADULL;

struct World {
  int inflight = 0;
  bool overlapped = false;
  int live_items = 0;
};
World* W;

struct OpScope {
  OpScope() {
    if (W->inflight > 0) W->overlapped = true;
    W->inflight++;
  }
  ~OpScope() { W->inflight--; }
};

void descf(const char* fmt, ...) __attribute__((format(printf, 1, 2)));
void descf(const char* fmt, ...) {
  char buf[256];
  va_list ap;
  va_start(ap, fmt);
  vsnprintf(buf, sizeof buf, fmt, ap);
  va_end(ap);
  dsched::describe("%s", buf);
}

// Every thread of a case is created up-front and parked on a gate: the engine's pthread_join looks a
// thread up by pthread_t, and glibc reuses a pthread_t once a thread was joined, so no thread may be
// created after a join. start() = unlock the gate (a happens-before edge like thread creation).
struct Pool {
  struct Slot {
    std::mutex gate;
    std::function<void()> body;
    std::thread th;
    bool started = false, joined = false;
  };
  std::vector<std::unique_ptr<Slot>> s;
  explicit Pool(int n) {
    for (int i = 0; i < n; i++) {
      s.emplace_back(new Slot);
      Slot* p = s.back().get();
      p->gate.lock();
      p->th = std::thread([p] {
        p->gate.lock();
        p->gate.unlock();
        if (p->body) p->body();
      });
    }
  }
  void start(int i, std::function<void()> f) {
    Slot* p = s[(size_t)i].get();
    p->body = std::move(f);
    p->started = true;
    p->gate.unlock();
  }
  void join(int i) {
    Slot* p = s[(size_t)i].get();
    if (!p->started) start(i, nullptr);
    if (!p->joined) {
      p->th.join();
      p->joined = true;
    }
  }
  ~Pool() {
    for (size_t i = 0; i < s.size(); i++) join((int)i);
  }
};

////////////////////////////////////////////////////////////////////////////////
// scenario A: IdAllocator<T>
struct AOp {
  bool alloc;
  uint32_t arg;
  bool value_only;
  uint32_t churn = 0;  // > 0: free held[arg] and re-allocate / free it until `churn` pushes happened (unscheduled)
};

template <class T>
struct AllocWorld {
  using VV = babylon::VersionedValue<T>;
  static constexpr int MAXV = 512;
  babylon::IdAllocator<T> alloc;
  int owner[MAXV];             // -1 = not held; else holder thread
  uint64_t token[MAXV];        // what the holder wrote into the resource
  Tracked<uint64_t> res[MAXV]; // the resource the id stands for (array addressed by id, as the doc suggests)
  uint64_t next_token = 1;
  uint64_t hist = 0;
  // every value@version ever returned by allocate(): the doc promises "version + id is unique within the
  // visible competition range" (the version exists to tell two incarnations of a value apart); with fewer
  // deallocations than the version type can count a pair can never be issued twice
  std::unordered_set<uint64_t> issued;
  AllocWorld() {
    for (int i = 0; i < MAXV; i++) { owner[i] = -1; token[i] = 0; }
  }

  VV do_alloc(int me, bool quiet) {
    VV id;
    {
      OpScope sc;
      id = alloc.allocate();
    }
    T v = id.value;
    if ((int)v >= MAXV) dsched::fail("id-range", "allocate returned value %u, far beyond everything ever allocated", (unsigned)v);
    if (owner[v] != -1)
      dsched::fail("two-owners", "allocate in T%d returned value %u which T%d still holds", me, (unsigned)v, owner[v]);
    T e = alloc.end();
    if (v >= e) dsched::fail("id-range", "allocate returned value %u but end() == %u", (unsigned)v, (unsigned)e);
    if (!issued.insert(((uint64_t)v << 32) | (uint64_t)id.version).second)
      dsched::fail("id-reissued", "allocate in T%d returned %u@%u, exactly the id (value and version) that an earlier allocate returned", me,
                   (unsigned)v, (unsigned)id.version);
    owner[v] = me;
    token[v] = next_token++;
    if (quiet) res[v].v = token[v];
    else res[v].set(token[v], "resource[id]");
    hist = hist * 1000003 + v * 7 + (uint64_t)me;
    return id;
  }
  void do_free(int me, VV id, bool value_only, bool quiet) {
    T v = id.value;
    if (owner[v] != me) dsched::fail("harness", "T%d frees %u it does not hold", me, (unsigned)v);
    uint64_t got = quiet ? res[v].peek() : res[v].get("resource[id]");
    if (got != token[v])
      dsched::fail("two-owners", "resource of id %u held by T%d was overwritten (%lu != %lu): somebody else owned the id", (unsigned)v, me,
                   (unsigned long)got, (unsigned long)token[v]);
    owner[v] = -1;  // released before the call begins: from now on anybody may legitimately get it
    OpScope sc;
    if (value_only) alloc.deallocate(VV((typename VV::VersionAndValue)v));  // doc: "You can also pass just the id value"
    else alloc.deallocate(id);
  }

  // A very long history between two schedule points: the holder frees `id`, then re-allocates and frees
  // whatever is on top (normally the same value) until `pushes` deallocations happened; the value ends
  // up free. Runs unscheduled (dsched quiet mode) while every other thread is parked inside a schedule
  // point, i.e. possibly between the two halves of its own allocate(): the 2^16 / 2^17-push ABA window.
  // Parked threads hold no engine state that quiet_end() drops (they wait before or after their atomic
  // operation, never inside it); the happens-before bookkeeping of the resources cannot follow the
  // unscheduled pushes, so it restarts afterwards.
  void churn(int me, VV id, uint32_t pushes) {
    T v = id.value;
    if (owner[v] != me) dsched::fail("harness", "T%d churns %u it does not hold", me, (unsigned)v);
    if (res[v].get("resource[id]") != token[v])
      dsched::fail("two-owners", "resource of id %u held by T%d was overwritten: somebody else owned the id", (unsigned)v, me);
    owner[v] = -1;
    OpScope sc;
    int bad = -1;
    dsched::quiet_begin();
    alloc.deallocate(id);
    for (uint32_t i = 1; i < pushes; i++) {
      VV x = alloc.allocate();
      if ((int)x.value >= MAXV || owner[x.value] != -1) { bad = (int)x.value; break; }
      alloc.deallocate(x);
    }
    dsched::quiet_end();
    for (auto& r : res) dsched::track_reset(&r.ts);
    if (bad >= 0) dsched::fail("two-owners", "allocate (in a long free/allocate history of T%d) returned value %d which is held or out of range", me, bad);
    hist = hist * 1000003 + pushes;
  }

  // quiescent check-point; `final` drains the free list completely
  void checkpoint(bool final) {
    std::set<uint32_t> live;
    for (int i = 0; i < MAXV; i++)
      if (owner[i] != -1) live.insert((uint32_t)i);
    T end0 = alloc.end();
    for (uint32_t v : live)
      if (v >= end0) dsched::fail("id-range", "live value %u >= end() %u", v, (unsigned)end0);
    auto scan = [&](const char* when) {
      std::set<uint32_t> seen;
      long last_end = -1;
      alloc.for_each([&](T b, T e) {
        if (!(b < e)) dsched::fail("for-each", "%s: empty or inverted range [%u,%u)", when, (unsigned)b, (unsigned)e);
        if ((long)b < last_end) dsched::fail("for-each", "%s: ranges overlap or go backwards at [%u,%u)", when, (unsigned)b, (unsigned)e);
        last_end = (long)e;
        for (uint32_t v = b; v < e; v++) seen.insert(v);
      });
      std::set<uint32_t> expect;
      for (int i = 0; i < MAXV; i++)
        if (owner[i] != -1) expect.insert((uint32_t)i);
      if (seen != expect) {
        for (uint32_t v : expect)
          if (!seen.count(v)) dsched::fail("for-each", "%s: live value %u is not reported by for_each", when, v);
        for (uint32_t v : seen)
          if (!expect.count(v)) dsched::fail("for-each", "%s: for_each reports value %u which nobody holds", when, v);
      }
    };
    scan("quiescent");
    size_t nfree = (size_t)end0 - live.size();
    if (!final) {
      // one probe: reuse before mint
      VV id = do_alloc(0, false);
      if (nfree > 0) {
        if (id.value >= end0 || alloc.end() != end0)
          dsched::fail("reuse-before-mint", "quiescent allocate minted value %u (end %u -> %u) although %zu freed values exist", (unsigned)id.value,
                       (unsigned)end0, (unsigned)alloc.end(), nfree);
      } else if (id.value != end0) {
        dsched::fail("reuse-before-mint", "no freed value exists, end()==%u, but allocate returned %u", (unsigned)end0, (unsigned)id.value);
      }
      do_free(0, id, false, false);
      return;
    }
    std::vector<VV> got;
    for (size_t i = 0; i < nfree; i++) {
      VV id = do_alloc(0, false);  // two-owners / distinctness checked inside
      if (id.value >= end0 || alloc.end() != end0)
        dsched::fail("reuse-before-mint", "quiescent allocate %zu of %zu minted value %u (end %u -> %u) although freed values remain", i + 1, nfree,
                     (unsigned)id.value, (unsigned)end0, (unsigned)alloc.end());
      got.push_back(id);
    }
    VV fresh = do_alloc(0, false);
    if (fresh.value != end0 || alloc.end() != (T)(end0 + 1))
      dsched::fail("reuse-before-mint", "free list should be empty: expected a fresh value %u, got %u (end %u)", (unsigned)end0, (unsigned)fresh.value,
                   (unsigned)alloc.end());
    scan("after drain");
  }
};

template <class T>
void run_allocator(Chooser& c, const char* tname) {
  using AW = AllocWorld<T>;
  using VV = typename AW::VV;
  auto aw = std::make_unique<AW>();
  AW& A = *aw;

  static const int bases[] = {0, 1, 2, 3, 4, 6, 126, 127};
  int base = c.pick(bases);
  int nphase = c.range(1, 2);
  // "all allocate/free histories": the 32-bit allocator must survive histories longer than 2^16 / 2^17
  // deallocations (the 16-bit one legitimately wraps there, nothing is demanded of it)
  bool wrap = sizeof(T) == 4 && c.chance(1, 6);
  bool aba_template = wrap && c.flip();
  uint32_t pre_churn = 0;
  if (wrap) {
    if (base < 3 || base > 6) base = 3;
    static const uint32_t around[] = {0, 65536, 131072};
    uint32_t centre = c.pick(around);
    pre_churn = centre == 0 ? 0 : centre - c.below(9);
    dsched::label("alloc_wrap_case");
  }
  descf("IdAllocator<%s> base=%d", tname, base);
  if (wrap) descf(" pre_churn=%u%s", pre_churn, aba_template ? " aba-template" : "");

  // set-up: thread 0 allocates `base` ids, frees some of them again in a chosen order
  std::vector<VV> pool;
  dsched::quiet_begin();
  for (int i = 0; i < base; i++) pool.push_back(A.do_alloc(0, true));
  int nfree0 = base == 0 ? 0 : c.range(0, base < 4 ? base : 4);
  if (wrap && nfree0 < 2) nfree0 = 2;
  descf(" prefree=[");
  for (int i = 0; i < nfree0; i++) {
    size_t k = pool.size() - 1 - c.below((uint32_t)(pool.size() < 6 ? pool.size() : 6));
    descf("%s%u", i ? "," : "", (unsigned)pool[k].value);
    A.do_free(0, pool[k], false, true);
    pool.erase(pool.begin() + (long)k);
  }
  descf("]");
  if (pre_churn > 0) {
    // bring the free-list version to just below the boundary: the concurrent phase crosses it
    VV x = A.alloc.allocate();
    for (uint32_t i = 1; i < pre_churn; i++) {
      A.alloc.deallocate(x);
      x = A.alloc.allocate();
    }
    A.alloc.deallocate(x);
  }
  dsched::quiet_end();
  W->inflight = 0;
  W->overlapped = false;
  if (base >= 126) dsched::label("alloc_block_boundary");

  struct PhasePlan {
    std::vector<std::vector<AOp>> plans;
    std::vector<int> give;
  };
  std::vector<PhasePlan> phases((size_t)nphase);
  int total_threads = 0;
  for (int ph = 0; ph < nphase; ph++) {
    int nthreads = c.range(2, 4);
    total_threads += nthreads;
    phases[(size_t)ph].plans.resize((size_t)nthreads);
    descf(" | phase%d:", ph);
    for (int t = 0; t < nthreads; t++) {
      int give = c.range(0, 2);
      // the directed shape: T1 = [A ...], T2 = [A, A, churn(first)] on a free list of >= 2 values; T1 paused
      // between its head load and its CAS while T2 runs is the pop || pop-pop-(k * 2^16 pushes) ABA
      bool tmpl = aba_template && ph == 0 && t < 2;
      if (tmpl) give = 0;
      phases[(size_t)ph].give.push_back(give);
      int nops = c.range(1, 6);
      descf(" T%d(h%d)[", t + 1, give);
      if (tmpl) {
        static const uint32_t ns[] = {65536, 65536, 131072, 65536};
        std::vector<AOp>& pl = phases[(size_t)ph].plans[(size_t)t];
        pl.push_back(AOp{true, 0, false, 0});
        descf("A");
        if (t == 1) {
          pl.push_back(AOp{true, 0, false, 0});
          pl.push_back(AOp{false, 0, false, c.pick(ns)});
          descf("AW0:%u", pl.back().churn);
        }
      }
      for (int i = 0; i < nops; i++) {
        AOp op;
        op.alloc = !c.chance(9, 20);
        op.arg = c.below(8);
        op.value_only = c.chance(1, 3);
        if (wrap && !op.alloc && c.chance(1, 4)) {
          static const uint32_t ns[] = {65536, 65535, 131072, 65537};
          op.churn = c.pick(ns);
        }
        phases[(size_t)ph].plans[(size_t)t].push_back(op);
        descf("%s", op.alloc ? "A" : op.churn ? "W" : (op.value_only ? "f" : "F"));
        if (!op.alloc) descf("%u", op.arg);
        if (op.churn) descf(":%u", op.churn);
      }
      descf("]");
    }
  }
  Pool threads(total_threads);
  int next_thread = 0;
  for (int ph = 0; ph < nphase; ph++) {
    auto& plans = phases[(size_t)ph].plans;
    int nthreads = (int)plans.size();
    std::vector<std::vector<VV>> held((size_t)nthreads);
    for (int t = 0; t < nthreads; t++)
      for (int g = 0; g < phases[(size_t)ph].give[(size_t)t] && !pool.empty(); g++) {
        VV id = pool.back();
        pool.pop_back();
        A.owner[id.value] = t + 1;
        held[(size_t)t].push_back(id);
      }
    // ownership of the handed-over ids moves to the threads through the start gate
    int first = next_thread;
    for (int t = 0; t < nthreads; t++) {
      threads.start(next_thread++, [&, t] {
        int me = t + 1;
        auto& mine = held[(size_t)t];
        // re-stamp the resources this thread was given (it is their owner now)
        for (auto& id : mine) {
          A.token[id.value] = A.next_token++;
          A.res[id.value].set(A.token[id.value], "resource[id]");
        }
        for (const AOp& op : plans[(size_t)t]) {
          if (op.alloc || mine.empty()) {
            mine.push_back(A.do_alloc(me, false));
            dsched::label("op_allocate");
          } else {
            size_t k = op.arg % mine.size();
            VV id = mine[k];
            mine.erase(mine.begin() + (long)k);
            if (op.churn) {
              A.churn(me, id, op.churn);
              dsched::label("op_churn_2^16");
            } else {
              A.do_free(me, id, op.value_only, false);
              dsched::label("op_deallocate");
            }
          }
          dsched::point();
        }
      });
    }
    for (int t = 0; t < nthreads; t++) threads.join(first + t);
    // back to thread 0
    for (int t = 0; t < nthreads; t++)
      for (auto& id : held[(size_t)t]) {
        A.owner[id.value] = 0;
        A.token[id.value] = A.next_token++;
        A.res[id.value].set(A.token[id.value], "resource[id]");
        pool.push_back(id);
      }
    A.checkpoint(ph == nphase - 1);
  }
  dsched::mix_hash(A.hist);
}

////////////////////////////////////////////////////////////////////////////////
// scenario B: ThreadId<Tag>
struct TagA {};
struct TagB {};

template <class Impl, bool Leaky, class Tag>
void run_thread_ids(Chooser& c, const char* name) {
  using babylon::VersionedValue;
  auto& singleton = babylon::internal::concurrent_id_allocator::IdAllocatorFotType<Tag, Leaky>::instance();
  constexpr int K = 8;  // more free values than threads alive at any time in one case
  // The allocator is a process-wide singleton and the worker process runs many cases: bring it into
  // the same shape whatever happened before (>= K values exist, all of them free) without consuming
  // schedule points, so that a failure replays identically in a fresh process.
  dsched::quiet_begin();
  {
    std::vector<VersionedValue<uint16_t>> tmp;
    while (singleton.end() < K) tmp.push_back(singleton.allocate());
    for (auto& id : tmp) singleton.deallocate(id);
  }
  dsched::quiet_end();

  auto scan = [&] {
    std::set<uint32_t> s;
    Impl::template for_each<Tag>([&](uint16_t b, uint16_t e) {
      if (!(b < e)) dsched::fail("for-each", "ThreadId::for_each reported empty or inverted range [%u,%u)", b, e);
      for (uint32_t v = b; v < e; v++)
        if (!s.insert(v).second) dsched::fail("for-each", "ThreadId::for_each reported value %u twice", v);
    });
    return s;
  };
  const std::set<uint32_t> baseline = scan();  // whoever is alive from before (normally nobody)
  const uint16_t end0 = Impl::template end<Tag>();

  struct Th {
    int idx = 0;
    std::mutex gate;  // exit gate: the thread stays alive until thread 0 opens it
    bool registered = false, released = false, joined = false;
    uint32_t value = 0;
  };
  constexpr int MAXTH = 10;
  std::vector<std::unique_ptr<Th>> ths;
  std::map<uint32_t, int> live;  // value -> thread index
  uint64_t hist = 0;
  bool birth_overlapped_exit = false;
  int exiting = 0;

  // the action list depends on the chooser only: decode it first, then create all threads parked
  struct Act { int kind; uint32_t arg; };
  std::vector<Act> acts;
  int total_spawns = 0;
  {
    int nact = c.range(2, 10);
    int sim_alive = 0;
    for (int i = 0; i < nact; i++) {
      int kind = (int)c.below(4);  // 0,1 birth; 2 release+join; 3 release only (the exit overlaps later births)
      uint32_t arg = c.below(16);
      if ((kind <= 1 && (sim_alive >= 4 || total_spawns >= MAXTH)) || (kind >= 2 && sim_alive == 0)) kind = sim_alive == 0 ? 0 : 2;
      if (kind <= 1 && total_spawns >= MAXTH) break;
      if (kind <= 1) { total_spawns++; sim_alive++; }
      else if (kind == 2) sim_alive--;
      acts.push_back(Act{kind, arg});
    }
  }
  Pool pool(total_spawns);

  auto spawn = [&] {
    int idx = (int)ths.size();
    ths.emplace_back(new Th);
    Th* me = ths.back().get();
    me->idx = idx;
    me->gate.lock();
    pool.start(idx, [&, me, idx] {
      if (exiting > 0) birth_overlapped_exit = true;
      VersionedValue<uint16_t> a, b;
      {
        OpScope sc;
        a = Impl::template current_thread_id<Tag>();
      }
      dsched::point();
      b = Impl::template current_thread_id<Tag>();
      if (a.version_and_value != b.version_and_value)
        dsched::fail("thread-id-stable", "two calls in one thread returned %u@%u and %u@%u", a.value, a.version, b.value, b.version);
      auto it = live.find(a.value);
      if (it != live.end())
        dsched::fail("two-owners", "thread #%d got thread id %u which live thread #%d holds", idx, a.value, it->second);
      if (baseline.count(a.value)) dsched::fail("two-owners", "thread #%d got thread id %u which was live before the case", idx, a.value);
      if (a.value >= Impl::template end<Tag>())
        dsched::fail("id-range", "thread id %u >= end() %u", a.value, Impl::template end<Tag>());
      live[a.value] = idx;
      me->value = a.value;
      me->registered = true;
      hist = hist * 31 + (uint64_t)live.size();
      me->gate.lock();
      me->gate.unlock();
      b = Impl::template current_thread_id<Tag>();
      if (a.version_and_value != b.version_and_value)
        dsched::fail("thread-id-stable", "thread id changed during the life of the thread: %u@%u -> %u@%u", a.value, a.version, b.value, b.version);
      live.erase(a.value);
      exiting++;  // the thread-local destructor gives the id back after this function returns
    });
  };
  auto release_join = [&](Th* t) {
    if (!t->released) { t->released = true; t->gate.unlock(); }
    if (!t->joined) { pool.join(t->idx); t->joined = true; exiting--; }
  };
  auto alive = [&] {
    std::vector<Th*> v;
    for (auto& t : ths)
      if (!t->joined) v.push_back(t.get());
    return v;
  };
  auto check_live_set = [&](const char* when) {
    // only meaningful when no thread is inside allocate/deallocate: every unjoined thread is parked at its gate
    for (Th* t : alive())
      if (!t->registered || t->released) return false;
    std::set<uint32_t> expect = baseline;
    for (auto& kv : live) expect.insert(kv.first);
    std::set<uint32_t> seen = scan();
    if (seen != expect) {
      for (uint32_t v : expect)
        if (!seen.count(v)) dsched::fail("for-each", "%s: live thread id %u not reported by ThreadId::for_each", when, v);
      for (uint32_t v : seen)
        if (!expect.count(v)) dsched::fail("for-each", "%s: ThreadId::for_each reports %u but no live thread holds it", when, v);
    }
    return true;
  };

  descf("%s:", name);
  for (const Act& act : acts) {
    std::vector<Th*> al = alive();
    int kind = act.kind;
    if (kind >= 2 && al.empty()) continue;
    if (kind <= 1) {
      descf(" S%zu", ths.size());
      spawn();
      dsched::label("tid_spawn");
    } else {
      Th* t = al[act.arg % al.size()];
      if (kind == 3 && !t->released) {
        descf(" R%d", t->idx);
        t->released = true;
        t->gate.unlock();
        dsched::label("tid_release_only");
      } else {
        descf(" J%d", t->idx);
        release_join(t);
        dsched::label("tid_join");
      }
    }
    if (check_live_set("parked")) dsched::label("tid_parked_check");
  }
  for (auto& t : ths) release_join(t.get());
  if (!live.empty()) dsched::fail("harness", "live map not empty after all threads were joined");
  if (!check_live_set("all joined")) dsched::fail("harness", "not quiescent after joining everything");
  // recycled after exit: at most 4 threads were ever alive while >= K values were free, so no value may have been minted
  uint16_t end1 = Impl::template end<Tag>();
  if (end1 != end0)
    dsched::fail("reuse-before-mint", "ThreadId::end() grew %u -> %u although at most 4 threads were alive and >= %d ids of exited threads were free",
                 end0, end1, K);
  // and the free list still holds every value: K more threads alive at once do not mint either
  {
    std::vector<VersionedValue<uint16_t>> tmp;
    std::set<uint32_t> vals;
    size_t want = (size_t)end0 - baseline.size();
    for (size_t i = 0; i < want; i++) {
      tmp.push_back(singleton.allocate());
      if (!vals.insert(tmp.back().value).second) dsched::fail("two-owners", "quiescent drain of thread ids returned %u twice", tmp.back().value);
      if (tmp.back().value >= end0 || singleton.end() != end0)
        dsched::fail("reuse-before-mint", "quiescent drain of thread ids minted %u after %zu of %zu: ids of exited threads were lost", tmp.back().value, i, want);
    }
    for (size_t i = tmp.size(); i-- > 0;) singleton.deallocate(tmp[i]);
  }
  if (birth_overlapped_exit) dsched::label("tid_birth_overlapped_exit");
  dsched::mix_hash(hist);
}

////////////////////////////////////////////////////////////////////////////////
// scenario C: DepositBox<Item>
struct Item {
  uint64_t canary;
  uint64_t x;
  int busy = 0;
  explicit Item(uint64_t v) {
    W->live_items++;
    canary = LIVE;
    dsched::point();
    x = v;
  }
  Item(const Item&) = delete;
  Item& operator=(const Item&) = delete;
  ~Item() {
    if (canary != LIVE) dsched::fail("item-lifetime", "item destroyed twice or never constructed (canary %lx)", (unsigned long)canary);
    if (busy) dsched::fail("item-lifetime", "item %lu destroyed / slot re-emplaced while its taker still uses it", (unsigned long)x);
    canary = DEAD;
    W->live_items--;
  }
};

enum COpKind { C_TAKE, C_TAKE_RELEASED, C_TAKE_STALE, C_EMPLACE, C_CYCLE };
struct COp {
  COpKind kind;
  uint32_t arg;
};

struct Dep {
  babylon::VersionedValue<uint32_t> id;
  uint64_t x;
  int winners = 0;
  int attempts = 0;
  bool conc_attempt = false;
};

struct BoxWorld {
  static constexpr int MAXS = 256;
  using Box = babylon::DepositBox<Item>;
  using VV = babylon::VersionedValue<uint32_t>;
  Box box;
  std::vector<Dep> deps;
  // ids travel between threads through a release/acquire channel (one flag per deposit), as the user
  // of the box must arrange: take() itself is a relaxed operation by design
  std::unique_ptr<std::atomic<uint32_t>[]> published{new std::atomic<uint32_t>[4096]()};
  std::vector<VV> stale;
  bool occupied[MAXS] = {};
  Tracked<uint64_t> res[MAXS];
  uint64_t next_x = 1000;
  uint64_t hist = 0;
  int taking[4096] = {};  // per deposit: takes in flight

  // every receipt (slot, version) ever returned by emplace: a receipt issued twice means that the first
  // one, whose item was taken, matches the item deposited under the second one
  std::unordered_set<uint64_t> issued;
  void note_receipt(VV id, int me) {
    if (!issued.insert(((uint64_t)id.value << 32) | id.version).second)
      dsched::fail("stale-id", "emplace in T%d returned receipt (slot %u version %u) a second time: the earlier receipt with these bits%s matches the new item",
                   me, id.value, id.version, " (already used or still outstanding)");
  }
  BoxWorld() {
    issued.reserve(1 << 18);
    deps.reserve(4096);
  }

  size_t emplace(bool quiet, int me) {
    uint64_t x = next_x++;
    VV id;
    {
      OpScope sc;
      id = box.emplace(x);
    }
    if ((int)id.value >= MAXS) dsched::fail("id-range", "emplace returned slot %u", id.value);
    note_receipt(id, me);
    if (occupied[id.value]) dsched::fail("two-owners", "emplace in T%d reused slot %u while its previous item is still deposited or held", me, id.value);
    occupied[id.value] = true;
    if (quiet) res[id.value].v = x;
    else res[id.value].set(x, "slot resource");
    if (deps.size() >= 4000) dsched::discard("too many deposits");
    deps.push_back(Dep{id, x});
    size_t di = deps.size() - 1;  // fixed before the next schedule point
    hist = hist * 1000003 + id.value;
    published[di].store(1, std::memory_order_release);
    return di;
  }
  void on_win(size_t di, Item* p, bool quiet, int me) {
    Dep& d = deps[di];
    if (++d.winners > 1) dsched::fail("one-taker", "deposit #%zu (slot %u version %u) was obtained by two takers (second is T%d)", di, d.id.value, d.id.version, me);
    if (p->canary != LIVE) dsched::fail("item-lifetime", "taker got a dead item (canary %lx)", (unsigned long)p->canary);
    if (p->x != d.x) dsched::fail("wrong-item", "taker of deposit #%zu got item %lu, deposited %lu", di, (unsigned long)p->x, (unsigned long)d.x);
    p->busy = 1;
    uint64_t r = quiet ? res[d.id.value].peek() : res[d.id.value].get("slot resource");
    if (r != d.x) dsched::fail("two-owners", "slot %u resource is %lu, deposit #%zu wrote %lu", d.id.value, (unsigned long)r, di, (unsigned long)d.x);
    dsched::point();
    if (p->canary != LIVE || p->x != d.x) dsched::fail("item-lifetime", "item of deposit #%zu changed under its taker", di);
    p->busy = 0;
    occupied[d.id.value] = false;  // the next thing the winner does is give the slot back
    stale.push_back(d.id);
  }
  // returns true if this call obtained the item
  bool take(size_t di, bool released, bool quiet, int me) {
    Dep d = deps[di];
    bool won_before = d.winners > 0;
    if (taking[di] > 0) deps[di].conc_attempt = true;
    taking[di]++;
    deps[di].attempts++;
    bool got = false;
    {
      OpScope sc;
      if (released) {
        Item* p = box.take_released(d.id);
        if (p) {
          got = true;
          on_win(di, p, quiet, me);
          box.finish_released(d.id);
        }
      } else {
        auto acc = box.take(d.id);
        if (acc) {
          got = true;
          on_win(di, &*acc, quiet, me);
          // what callers do with a winning accessor (derived from the deposit number, so no choice is consumed): keep it,
          // move-construct it elsewhere (a lambda capture, a container), move-assign it, or release it early by
          // assigning an empty one. The slot must go back to the box exactly once whichever handle dies last.
          switch ((di + (size_t)d.id.value) % 4) {
            case 1: {
              decltype(acc) moved(std::move(acc));
              if (!moved || &*moved == nullptr) dsched::fail("one-taker", "a move-constructed accessor of deposit #%zu is empty", di);
              if (acc) dsched::fail("one-taker", "the moved-from accessor of deposit #%zu still designates the item", di);
              dsched::label("accessor_move_constructed");
              break;
            }
            case 2: {
              decltype(acc) other;
              other = std::move(acc);
              if (!other) dsched::fail("one-taker", "a move-assigned accessor of deposit #%zu is empty", di);
              if (acc) dsched::fail("one-taker", "the moved-from accessor of deposit #%zu still designates the item", di);
              dsched::label("accessor_move_assigned");
              break;
            }
            case 3: {
              auto holder = [a = std::move(acc)]() { return (bool)a; };
              if (!holder()) dsched::fail("one-taker", "an accessor of deposit #%zu moved into a closure is empty", di);
              dsched::label("accessor_moved_into_closure");
              break;
            }
            default: break;
          }
        }
      }
    }
    taking[di]--;
    if (got && won_before) dsched::fail("one-taker", "deposit #%zu obtained again after it had been taken", di);
    return got;
  }
  void take_stale(size_t k, int me) {
    VV id = stale[k];
    OpScope sc;
    auto acc = box.take(id);
    if (acc)
      dsched::fail("stale-id", "T%d: id (slot %u version %u) whose item was already taken matched again (item %lu)", me, id.value, id.version,
                   (unsigned long)acc->x);
  }
};

void run_box(Chooser& c) {
  {
    auto bw = std::make_unique<BoxWorld>();
    BoxWorld& B = *bw;
    // sequential pre-history (quiet): builds recycled slots, stale ids and the outstanding deposits
    static const int pre_lens[] = {0, 1, 2, 3, 4, 6, 8, 12, 50, 120};
    int pre = c.pick(pre_lens);
    int width = c.range(1, 3);
    // "even after the slot has been reused any number of times": in a share of the cases one slot goes
    // through N emplace/take/release rounds first, N around 2^16 and 2^17 (where a truncated version
    // counter would repeat) and just below, so that the concurrent phase itself crosses the boundary
    uint32_t long_rounds = 0;
    if (c.chance(1, 8)) {
      static const uint32_t centre[] = {65536, 65536, 65536, 131072};
      uint32_t ce = c.pick(centre);
      long_rounds = c.flip() ? ce - c.below(9) : ce - 6 + c.below(11);
      if (pre > 12) pre = (int)c.below(7);
      dsched::label("box_2^16_prehistory");
    }
    descf("DepositBox long=%u pre=%d width=%d", long_rounds, pre, width);
    dsched::quiet_begin();
    if (long_rounds > 0) {
      BoxWorld::VV first{};
      for (uint32_t i = 0; i < long_rounds; i++) {
        uint64_t x = B.next_x++;
        BoxWorld::VV id = B.box.emplace(x);
        if ((int)id.value >= BoxWorld::MAXS) dsched::fail("id-range", "emplace returned slot %u", id.value);
        B.note_receipt(id, 0);
        if (i == 0) first = id;
        // the very first, long dead receipt is presented in every round
        else if (B.box.take_released(first) != nullptr)
          dsched::fail("stale-id", "round %u: the receipt of round 0 (slot %u version %u) whose item was taken long ago matched again (new receipt: slot %u version %u)",
                       i, first.value, first.version, id.value, id.version);
        Item* p = B.box.take_released(id);
        if (p == nullptr || p->x != x)
          dsched::fail("one-taker", "round %u: take of the untouched deposit (slot %u version %u) obtained %s", i, id.value, id.version,
                       p ? "another item" : "nothing");
        B.box.finish_released(id);
        // early receipts (and the latest ones) stay around as stale ids for the concurrent phase and the final sweep
        if (i < 40 || i + 4 >= long_rounds) B.stale.push_back(id);
      }
    }
    {
      std::vector<size_t> out;
      for (int i = 0; i < pre; i++) {
        bool do_emplace = out.empty() || ((int)out.size() < width && c.flip());
        if (do_emplace) {
          out.push_back(B.emplace(true, 0));
        } else {
          size_t k = c.below((uint32_t)out.size());
          size_t di = out[k];
          out.erase(out.begin() + (long)k);
          if (!B.take(di, c.flip(), true, 0))
            dsched::fail("one-taker", "sequential take of the untouched deposit #%zu (slot %u version %u) obtained nothing", di, B.deps[di].id.value,
                         B.deps[di].id.version);
          if (B.take(di, false, true, 0)) dsched::fail("one-taker", "sequential second take of deposit #%zu succeeded", di);
        }
      }
    }
    dsched::quiet_end();
    W->inflight = 0;
    W->overlapped = false;
    if (pre >= 50) dsched::label("box_long_prehistory");
    if (B.deps.empty()) B.emplace(false, 0);

    int nthreads = c.range(2, 4);
    std::vector<std::vector<COp>> plans((size_t)nthreads);
    for (int t = 0; t < nthreads; t++) {
      int nops = c.range(1, 6);
      descf(" T%d[", t + 1);
      for (int i = 0; i < nops; i++) {
        // cycle = emplace + take + release of the own deposit in one go: a thread running such loops next to a
        // thread that releases another slot is the shape in which a release loses its free-list CAS
        static const COpKind kinds[] = {C_TAKE, C_TAKE_RELEASED, C_TAKE, C_EMPLACE, C_TAKE_STALE, C_TAKE_RELEASED, C_EMPLACE, C_CYCLE, C_CYCLE};
        COp op{c.pick(kinds), c.below(6)};
        plans[(size_t)t].push_back(op);
        static const char* nm[] = {"take", "take_rel", "stale", "emplace", "cycle"};
        descf("%s%s:%u", i ? "," : "", nm[op.kind], op.arg);
      }
      descf("]");
    }
    Pool pool(nthreads);
    for (int t = 0; t < nthreads; t++) {
      pool.start(t, [&, t] {
        int me = t + 1;
        for (const COp& op : plans[(size_t)t]) {
          switch (op.kind) {
            case C_TAKE:
            case C_TAKE_RELEASED: {
              size_t vis = B.deps.size();
              if (vis == 0) break;
              // arg counts back from the newest deposit
              size_t di = vis - 1 - (op.arg % (vis < 3 ? vis : 3));
              if (!B.published[di].load(std::memory_order_acquire)) {
                dsched::label("box_id_not_yet_visible");
                break;
              }
              bool got = B.take(di, op.kind == C_TAKE_RELEASED, false, me);
              dsched::label(got ? "box_take_won" : "box_take_lost");
              break;
            }
            case C_TAKE_STALE: {
              if (B.stale.empty()) break;
              // only ids whose take is known to this thread by happens-before are "already taken" for it; the
              // pre-history ones (before thread creation) always are; later ones are covered by the one-taker rule
              size_t n = B.stale.size();
              size_t k = op.arg < 3 ? n - 1 - (op.arg % n) : (op.arg * 7919u) % n;
              B.take_stale(k, me);
              dsched::label("box_take_stale");
              break;
            }
            case C_EMPLACE:
              B.emplace(false, me);
              dsched::label("box_emplace");
              break;
            case C_CYCLE: {
              size_t di = B.emplace(false, me);
              bool got = B.take(di, (op.arg & 1) != 0, false, me);
              dsched::label(got ? "box_cycle_won" : "box_cycle_lost");
              break;
            }
          }
          dsched::point();
        }
      });
    }
    for (int t = 0; t < nthreads; t++) pool.join(t);

    // quiescent: every deposit is obtained exactly once, every taken id is dead for good
    bool contended = false;
    for (size_t di = 0; di < B.deps.size(); di++) {
      if (B.deps[di].conc_attempt) contended = true;
      if (B.deps[di].winners == 0) {
        if (!B.take(di, (di & 1) != 0, false, 0))
          dsched::fail("one-taker", "deposit #%zu (slot %u version %u, %d failed attempts) can be obtained by nobody", di, B.deps[di].id.value,
                       B.deps[di].id.version, B.deps[di].attempts);
      }
    }
    if (contended) dsched::label("box_concurrent_takes_one_id");
    for (size_t k = 0; k < B.stale.size(); k++) B.take_stale(k, 0);
    // and the slots are all reusable: the box hands out distinct free slots again
    {
      size_t n = 0;
      for (int s = 0; s < BoxWorld::MAXS; s++)
        if (B.occupied[s]) n++;
      if (n != 0) dsched::fail("harness", "%zu slots still occupied", n);
    }
    dsched::mix_hash(B.hist);
    dsched::mix_hash(B.stale.size());
  }
  if (W->live_items != 0) dsched::fail("item-lifetime", "%d items alive after the box was destroyed", W->live_items);
}

////////////////////////////////////////////////////////////////////////////////
void run_case(Chooser& c) {
  World world;
  W = &world;
  int scen = (int)c.below(8);
  if (scen <= 1) {
    dsched::label("scen_alloc16");
    run_allocator<uint16_t>(c, "u16");
  } else if (scen <= 3) {
    dsched::label("scen_alloc32");
    run_allocator<uint32_t>(c, "u32");
  } else if (scen == 4) {
    if (c.flip()) {
      dsched::label("scen_thread_id");
      run_thread_ids<babylon::ThreadId, false, TagA>(c, "ThreadId<TagA>");
    } else {
      dsched::label("scen_leaky_thread_id");
      run_thread_ids<babylon::LeakyThreadId, true, TagB>(c, "LeakyThreadId<TagB>");
    }
  } else {
    dsched::label("scen_deposit_box");
    run_box(c);
  }
  if (world.overlapped) dsched::label("ops_overlapped");
  if (world.overlapped && dsched::stat_switches() >= 2) dsched::nontrivial();
  W = nullptr;
}

void tune(dsched::Params& p, Chooser&) { p.max_steps = 200000; }

}  // namespace

int main(int argc, char** argv) {
  vf::Target t;
  t.name = "c14_ids";
  t.property_id = "C14";
  t.run_case = run_case;
  t.tune = tune;
  t.nontrivial_rule =
      "two allocator / thread-id / deposit-box calls overlapped in step time and at least two context switches happened";
  return vf::main_driver(argc, argv, t);
}
