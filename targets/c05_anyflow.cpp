// C05: anyflow. A run of a built graph equals a sequential demand-driven evaluation; every vertex
// processor runs at most once and only after its dependencies are ready; wait() covers every
// started vertex; reset() gives the same guarantees again.
//
// One source, two targets:
//   c05_anyflow      (E1, dsched): random DAGs on InplaceGraphExecutor / ThreadPoolGraphExecutor(1..3 workers)
//   c05_anyflow_seq  (E2, libFuzzer + ASan, -DC05_SEQ): the same graph description decoded from bytes, inplace only
//
// Legal-usage facts the generator relies on (sources in c05_anyflow.reg.json):
//   * GraphData::emit is legal before Graph::run or inside GraphProcessor::process (data.h). "Externally injected"
//     data therefore arrive from inside a processor that emits into an input data it did not declare; on the
//     pool this runs concurrently with activation done by other threads. A demanded input that is not ready when
//     activation reaches it makes the run fail (GraphData::activate: "no producer"), so such runs may legally end
//     with error != 0 (class "timing").
//   * a mutable dependency must be the only dependency of its target (dependency.h); the framework detects
//     violations only on some paths, so the deliberately conflicting consumers never really modify the data.
#include <babylon/anyflow/builder.h>
#include <babylon/anyflow/graph.h>
#include <babylon/anyflow/vertex.h>
#include <babylon/logging/logger.h>

#include <stdarg.h>
#include <stdio.h>
#include <string.h>

#include <algorithm>
#include <functional>
#include <memory>
#include <string>
#include <vector>

#ifdef C05_SEQ
#include "fuzz_common.h"
#else
#include "../engine/common/driver.h"
#endif

using babylon::anyflow::Closure;
using babylon::anyflow::Graph;
using babylon::anyflow::GraphBuilder;
using babylon::anyflow::GraphData;
using babylon::anyflow::GraphDependency;
using babylon::anyflow::GraphProcessor;
using babylon::anyflow::ThreadPoolGraphExecutor;

namespace {

// ---- engine shim ---------------------------------------------------------------------------
#ifdef C05_SEQ
std::string* g_desc = nullptr;
struct Src {
  vfz::Dec& d;
  uint32_t below(uint32_t n) { return d.below(n); }
  int range(int lo, int hi) { return d.range(lo, hi); }
  bool flip() { return d.below(2) == 1; }
  bool chance(uint32_t num, uint32_t den) { return d.below(den) >= den - num; }
};
namespace H {
inline void point() {}
inline void yield() {}
inline void label(const char* n) { vfz::label(n); }
inline int tid() { return 0; }
[[noreturn]] void fail(const char* oracle, const char* fmt, ...) __attribute__((format(printf, 2, 3)));
void fail(const char* oracle, const char* fmt, ...) {
  char buf[3000];
  va_list ap;
  va_start(ap, fmt);
  vsnprintf(buf, sizeof buf, fmt, ap);
  va_end(ap);
  vfz::fail(g_desc ? *g_desc : std::string("?"), "[%s] %s", oracle, buf);
}
}  // namespace H
template <class T>
struct Cell {
  T v{};
  void set(const T& x, const char*) { v = x; }
  T get(const char*) const { return v; }
};
#else
struct Src {
  vf::Chooser& c;
  uint32_t below(uint32_t n) { return c.below(n); }
  int range(int lo, int hi) { return c.range(lo, hi); }
  bool flip() { return c.flip(); }
  bool chance(uint32_t num, uint32_t den) { return c.chance(num, den); }
};
namespace H {
inline void point() { dsched::point(); }
inline void yield() { dsched::yield_point(); }
inline void label(const char* n) { dsched::label(n); }
inline int tid() { return dsched::tid(); }
[[noreturn]] void fail(const char* oracle, const char* fmt, ...) __attribute__((format(printf, 2, 3)));
void fail(const char* oracle, const char* fmt, ...) {
  char buf[1900];
  va_list ap;
  va_start(ap, fmt);
  vsnprintf(buf, sizeof buf, fmt, ap);
  va_end(ap);
  dsched::fail(oracle, "%s", buf);
}
}  // namespace H
template <class T>
using Cell = dsched::Tracked<T>;
#endif

// ---- graph description -----------------------------------------------------------------------
constexpr int MAXV = 8, MAXD = 12, MAXIN = 4;
enum { MUT_NONE = 0, MUT_MODIFY = 1, MUT_DECLARED_ONLY = 2 };
enum { EM_UNTOUCHED = 0, EM_VALUE = 1, EM_EMPTY = 2 };
enum { IN_VALUE = 0, IN_EMPTY = 1, IN_ABSENT = 2 };
enum { FAIL_NONE = 0, FAIL_EARLY = 1, FAIL_LATE = 2 };
constexpr int FAIL_CODE = 7;

struct Dep {
  int target = 0;
  int cond = -1;
  bool on = true;
  bool essential = false;
  int mut = MUT_NONE;
  uint32_t mutraw = 0;
};
struct Vtx {
  std::vector<Dep> deps;
  std::vector<int> emits;
  std::vector<int> mask;
  int fail = FAIL_NONE;
  int inject = -1;  // input data this processor emits into although it is not a declared emit
  int inject_pos = 0;
  int yields = 0;  // bit0: yield to other threads on entry of process(), bit1: before the emits
  int peek = -1;   // a data this processor polls with GraphData::ready() and reads when published (never feeds the outputs)
};
struct Round {
  std::vector<int> in_mode;
  std::vector<int64_t> in_val;
  std::vector<int> targets;
};
struct Desc {
  int executor = 0;  // 0 inplace, k>0: pool with k workers
  int ninputs = 1;
  int ndata = 1;
  std::vector<Vtx> vs;
  std::vector<int> order;      // add_vertex order (vs itself is topologically sorted)
  std::vector<int> producer;   // per data; -1: input
  std::vector<char> is_cond;   // data is the condition of some dependency => carries int64 0/1
  std::vector<char> exists;    // data is named by some dependency or emit (otherwise the graph does not know it)
  std::vector<int> succ;       // number of dependency registrations on the data (as target + as condition)
  std::vector<int> injector;   // per input: vertex that injects it, -1
  std::vector<Round> rounds;
  bool motif = false;
  bool static_conflict = false;   // an unconditional mutable dependency on a shared data: build() must refuse
  bool runtime_conflict = false;  // a mutable dependency on a data that has other dependencies
};

struct In {
  bool present = false;
  int64_t val = 0;
  bool operator==(const In& o) const { return present == o.present && (!present || val == o.val); }
};
// result of the reference interpreter (defined below)
struct Ref {
  std::vector<char> ready, empty, demanded;  // per data
  std::vector<int64_t> val;
  std::vector<char> activated, done, ran;    // per vertex
  std::vector<std::vector<In>> seen;
  bool missing = false;   // a demanded input is never provided: no value exists for the targets, the run must fail
  int missing_d = -1;
  bool timing = false;    // a demanded input is provided by a processor during the run: the run may also fail
  bool fail_ran = false;  // a failing processor is in the demanded set
  bool any_cond_false = false, any_ess_flush = false, any_fanin = false, any_conditional = false;
};
Ref reference(const Desc& g, int round);
int64_t out_value(const Desc& g, int round, int v, int k, const std::vector<In>& ins);

Desc generate(Src& s, bool allow_pool) {
  Desc g;
  static const int exec_of[8] = {0, 1, 2, 2, 2, 3, 3, 3};
  g.executor = exec_of[s.below(8)];
  if (!allow_pool) g.executor = 0;
  g.ninputs = s.range(1, MAXIN);
  int nv = s.range(1, MAXV), nv2 = s.range(1, MAXV);
  if (nv2 > nv) nv = nv2;
  g.ndata = g.ninputs;
  g.injector.assign((size_t)g.ninputs, -1);
  // planted shape (1 case in 6): two source vertices v0,v1 produce conditions c0,c1; v2 has two emits e0,e1 that are
  // demanded only through "e0 on/unless c0" (v3) and "e1 on/unless c1" (v4): on the pool the two conditions become ready
  // on different workers and both activate v2 at the same time (the activate-once CAS of GraphVertex::activate)
  g.motif = s.chance(1, 6);
  if (g.motif && nv < 5) nv = 5;
  int hot_cond = -1;  // the most recent vertex-produced data used as a condition
  for (int v = 0; v < nv; v++) {
    int ne = s.range(1, 2);
    int nd = (int)s.below(4);
    if (g.motif && v < 5) {
      ne = v == 2 ? 2 : 1;
      nd = v < 2 ? 0 : nd > 1 ? 1 : nd;
    }
    if (g.ndata + ne > MAXD) ne = MAXD - g.ndata;
    if (ne <= 0) break;
    Vtx V;
    int avail = g.ndata;
    if (g.motif && (v == 3 || v == 4)) {
      Dep d;
      d.target = g.vs[2].emits[(size_t)(v - 3)];
      d.cond = g.vs[(size_t)(v - 3)].emits[0];
      V.deps.push_back(d);  // polarity is fixed below so that it holds in round 0
    }
    for (int i = 0; i < nd; i++) {
      Dep d;
      int recent = avail < 4 ? avail : 4;
      d.target = s.below(2) == 1 ? (int)s.below((uint32_t)avail) : avail - 1 - (int)s.below((uint32_t)recent);
      if (avail >= 2 && s.chance(2, 5)) {
        // conditional dependencies: often on an input (published before the run), and often under a condition that is
        // computed by a vertex and shared with conditional dependencies of other vertices
        if (s.chance(1, 3)) d.target = (int)s.below((uint32_t)g.ninputs);
        int c = (int)s.below((uint32_t)(avail - 1));
        if (c >= d.target) c++;
        bool reuse = s.chance(1, 2);
        if (reuse && hot_cond >= 0 && hot_cond != d.target && hot_cond < avail) c = hot_cond;
        d.cond = c;  // never the dependency's own target
        d.on = !s.flip();
        if (c >= g.ninputs) hot_cond = c;
      }
      d.essential = s.chance(1, 4);
      d.mutraw = s.below(256);
      if (g.motif && v < 5) {  // the extra dependency of a planted vertex is a plain one on an input
        d.target = (int)s.below((uint32_t)g.ninputs);
        d.cond = -1;
        d.essential = false;
        d.mutraw = 0;
      }
      V.deps.push_back(d);
    }
    for (int k = 0; k < ne; k++) {
      V.emits.push_back(g.ndata++);
      uint32_t m = s.below(8);
      V.mask.push_back(m <= 5 ? EM_VALUE : m == 6 ? EM_UNTOUCHED : EM_EMPTY);
    }
    if (s.chance(1, 24)) V.fail = 1 + (int)s.below(2);
    if (g.motif && v < 5) {
      V.fail = FAIL_NONE;
      for (auto& m : V.mask) m = EM_VALUE;
    }
    V.yields = (int)s.below(4);
    V.peek = s.chance(1, 3) ? (int)s.below(MAXD) : -1;
    if (s.chance(1, 8)) {
      int x = (int)s.below((uint32_t)g.ninputs);
      if (g.injector[(size_t)x] < 0) {  // one injector per input: the value must not depend on who comes first
        g.injector[(size_t)x] = v;
        V.inject = x;
        V.inject_pos = (int)s.below(2);
      }
    }
    g.vs.push_back(V);
  }
  // declaration order in the GraphBuilder: half of the graphs declare consumers before producers. The order of
  // add_vertex decides the order in which a published data notifies its dependencies.
  for (size_t v = 0; v < g.vs.size(); v++) g.order.push_back((int)v);
  if (s.chance(1, 2))
    for (size_t i = g.order.size(); i-- > 1;) {
      size_t j = i - s.below((uint32_t)(i + 1));
      std::swap(g.order[i], g.order[j]);
    }
  size_t nd = (size_t)g.ndata;
  g.producer.assign(nd, -1);
  g.is_cond.assign(nd, 0);
  g.exists.assign(nd, 0);
  g.succ.assign(nd, 0);
  for (size_t v = 0; v < g.vs.size(); v++) {
    for (int e : g.vs[v].emits) { g.producer[(size_t)e] = (int)v; g.exists[(size_t)e] = 1; }
    for (auto& d : g.vs[v].deps) {
      g.exists[(size_t)d.target] = 1;
      g.succ[(size_t)d.target]++;
      if (d.cond >= 0) { g.exists[(size_t)d.cond] = 1; g.succ[(size_t)d.cond]++; g.is_cond[(size_t)d.cond] = 1; }
    }
  }
  for (auto& V : g.vs)
    for (auto& d : V.deps) {
      bool single = g.succ[(size_t)d.target] == 1;
      if (d.mutraw >= 1 && d.mutraw <= 48) {
        if (single && !g.is_cond[(size_t)d.target]) d.mut = MUT_MODIFY;
      } else if (d.mutraw >= 49 && d.mutraw <= 60) {
        if (single || d.cond >= 0) d.mut = MUT_DECLARED_ONLY;
      } else if (d.mutraw == 61) {
        d.mut = MUT_DECLARED_ONLY;
      }
      if (d.mut != MUT_NONE && !single) {
        g.runtime_conflict = true;
        if (d.cond < 0) g.static_conflict = true;
      }
    }
  if (g.motif) {
    g.vs[3].deps[0].on = out_value(g, 0, 0, 0, {}) != 0;
    g.vs[4].deps[0].on = out_value(g, 0, 1, 0, {}) != 0;
  }
  for (auto& V : g.vs) {
    // "after ready() is observed the data can be used without a race" (data.h) holds for read-only data only
    if (V.peek >= g.ndata || (V.peek >= 0 && (!g.exists[(size_t)V.peek] || g.is_cond[(size_t)V.peek]))) V.peek = -1;
    for (auto& W2 : g.vs)
      for (auto& d : W2.deps)
        if (d.mut == MUT_MODIFY && d.target == V.peek) V.peek = -1;
  }
  for (int r = 0; r < 2; r++) {
    Round R;
    for (int i = 0; i < g.ninputs; i++) {
      uint32_t m = s.below(32);
      int mode = m <= 28 ? IN_VALUE : m <= 30 ? IN_EMPTY : IN_ABSENT;
      R.in_mode.push_back(mode);
      R.in_val.push_back(g.is_cond[(size_t)i] ? (int64_t)(1 - (int)s.below(2)) : (int64_t)s.below(1000));
    }
    int nt = s.range(1, 3);
    if (g.motif) {
      R.targets.push_back(g.vs[3].emits[0]);
      R.targets.push_back(g.vs[4].emits[0]);
    }
    for (int k = 0; k < nt; k++) {
      int last = g.ndata < 3 ? g.ndata : 3;
      int t = k == 0 ? g.ndata - 1 - (int)s.below((uint32_t)last)
              : s.below(4) == 0 ? (int)s.below((uint32_t)g.ndata) : g.ninputs + (int)s.below((uint32_t)(g.ndata - g.ninputs));
      bool dup = false;
      for (int x : R.targets) dup |= x == t;
      if (g.motif && (t == g.vs[2].emits[0] || t == g.vs[2].emits[1])) dup = true;  // keep v2 demanded through the conditions only
      if (!dup && g.exists[(size_t)t]) R.targets.push_back(t);
    }
    if (R.targets.empty()) R.targets.push_back(g.ndata - 1);
    g.rounds.push_back(R);
    // an input with an injecting processor is mostly left unpublished when that processor is going to run
    for (int i = 0; i < g.ninputs; i++) {
      bool want = s.chance(3, 4);
      if (g.injector[(size_t)i] < 0 || !want) continue;
      Ref before = reference(g, r);
      if (!before.ran[(size_t)g.injector[(size_t)i]]) continue;
      int old = g.rounds[(size_t)r].in_mode[(size_t)i];
      g.rounds[(size_t)r].in_mode[(size_t)i] = IN_ABSENT;
      if (!before.missing && reference(g, r).missing) g.rounds[(size_t)r].in_mode[(size_t)i] = old;  // the injector itself needs it
    }
  }
  return g;
}

std::string describe(const Desc& g) {
  char b[128];
  std::string s;
  snprintf(b, sizeof b, "exec=%s%d in=%d%s;", g.executor ? "pool" : "inplace", g.executor, g.ninputs, g.motif ? " planted" : "");
  s += b;
  for (size_t v = 0; v < g.vs.size(); v++) {
    const Vtx& V = g.vs[v];
    snprintf(b, sizeof b, " v%zu(", v);
    s += b;
    for (size_t i = 0; i < V.deps.size(); i++) {
      const Dep& d = V.deps[i];
      snprintf(b, sizeof b, "%sd%d", i ? "," : "", d.target);
      s += b;
      if (d.cond >= 0) { snprintf(b, sizeof b, "%sd%d", d.on ? " on " : " unless ", d.cond); s += b; }
      if (d.essential) s += " ess";
      if (d.mut == MUT_MODIFY) s += " mut";
      if (d.mut == MUT_DECLARED_ONLY) s += " mut-ro";
    }
    s += ")->";
    for (size_t k = 0; k < V.emits.size(); k++) {
      snprintf(b, sizeof b, "%sd%d%s", k ? "," : "", V.emits[k], V.mask[k] == EM_VALUE ? "" : V.mask[k] == EM_EMPTY ? "=empty" : "=skip");
      s += b;
    }
    if (V.fail) s += V.fail == FAIL_EARLY ? " FAIL-early" : " FAIL-late";
    if (V.inject >= 0) { snprintf(b, sizeof b, " injects d%d@%d", V.inject, V.inject_pos); s += b; }
    if (V.peek >= 0) { snprintf(b, sizeof b, " polls d%d", V.peek); s += b; }
    if (V.yields) { snprintf(b, sizeof b, " y%d", V.yields); s += b; }
    s += ";";
  }
  bool identity = true;
  for (size_t i = 0; i < g.order.size(); i++) identity &= g.order[i] == (int)i;
  if (!identity) {
    s += " declared:";
    for (int o : g.order) { snprintf(b, sizeof b, " v%d", o); s += b; }
  }
  for (size_t r = 0; r < g.rounds.size(); r++) {
    const Round& R = g.rounds[r];
    snprintf(b, sizeof b, " || round%zu in[", r);
    s += b;
    for (int i = 0; i < g.ninputs; i++) {
      if (R.in_mode[(size_t)i] == IN_VALUE) snprintf(b, sizeof b, "%sd%d=%ld", i ? "," : "", i, (long)R.in_val[(size_t)i]);
      else snprintf(b, sizeof b, "%sd%d=%s", i ? "," : "", i, R.in_mode[(size_t)i] == IN_EMPTY ? "empty" : "absent");
      s += b;
    }
    s += "] targets{";
    for (size_t k = 0; k < R.targets.size(); k++) { snprintf(b, sizeof b, "%sd%d", k ? "," : "", R.targets[k]); s += b; }
    s += "}";
  }
  return s;
}

// ---- the one vertex function, shared by the real processor and the reference -----------------
uint64_t mix(uint64_t a, uint64_t b) {
  a ^= b + 0x9e3779b97f4a7c15ULL + (a << 6) + (a >> 2);
  a *= 0xff51afd7ed558ccdULL;
  a ^= a >> 33;
  return a;
}
int64_t shape(const Desc& g, int data, uint64_t h) { return g.is_cond[(size_t)data] ? (int64_t)(h & 1) : (int64_t)(h >> 2); }
int64_t out_value(const Desc& g, int round, int v, int k, const std::vector<In>& ins) {
  uint64_t h = mix((uint64_t)round + 1, (uint64_t)(v * 16 + k));
  for (auto& in : ins) h = mix(h, in.present ? (uint64_t)in.val : 0xabcdef0123456789ULL);
  return shape(g, g.vs[(size_t)v].emits[(size_t)k], h);
}
int64_t inject_value(const Desc& g, int round, int v, int x) { return shape(g, x, mix(mix(77, (uint64_t)round), (uint64_t)(v * 16 + x))); }
int64_t mutate_value(int64_t old, int v) { return (int64_t)(((uint64_t)old + 1000003ULL * (uint64_t)(v + 1)) & 0x3fffffffffffffffULL); }

// ---- reference interpreter: sequential demand-driven evaluation ---------------------------------

Ref reference(const Desc& g, int round) {
  const Round& R = g.rounds[(size_t)round];
  size_t nd = (size_t)g.ndata, nv = g.vs.size();
  Ref r;
  r.ready.assign(nd, 0); r.empty.assign(nd, 1); r.demanded.assign(nd, 0); r.val.assign(nd, 0);
  r.activated.assign(nv, 0); r.done.assign(nv, 0); r.ran.assign(nv, 0); r.seen.resize(nv);
  for (int i = 0; i < g.ninputs; i++) {
    if (!g.exists[(size_t)i] || R.in_mode[(size_t)i] == IN_ABSENT) continue;
    r.ready[(size_t)i] = 1;
    if (R.in_mode[(size_t)i] == IN_VALUE) { r.empty[(size_t)i] = 0; r.val[(size_t)i] = R.in_val[(size_t)i]; }
  }
  bool progress = true;
  std::function<void(int)> demand;
  auto activate = [&](int v) {
    if (r.activated[(size_t)v]) return;
    r.activated[(size_t)v] = 1;
    progress = true;
    // an unconditional dependency demands its target, a conditional one first demands only its condition
    for (auto& d : g.vs[(size_t)v].deps) demand(d.cond >= 0 ? d.cond : d.target);
  };
  demand = [&](int d) {
    r.demanded[(size_t)d] = 1;
    if (r.ready[(size_t)d]) return;
    if (g.producer[(size_t)d] >= 0) activate(g.producer[(size_t)d]);
  };
  auto established = [&](const Dep& d) {
    if (d.cond < 0) return true;
    bool value = !r.empty[(size_t)d.cond] && r.val[(size_t)d.cond] != 0;  // GraphData::as<bool>(): empty converts to false
    return value == d.on;
  };
  auto inject = [&](int v, int pos) {
    const Vtx& V = g.vs[(size_t)v];
    if (V.inject < 0 || V.inject_pos != pos || !g.exists[(size_t)V.inject] || r.ready[(size_t)V.inject]) return;
    r.ready[(size_t)V.inject] = 1; r.empty[(size_t)V.inject] = 0; r.val[(size_t)V.inject] = inject_value(g, round, v, V.inject);
  };
  auto flush = [&](int v) {
    for (int e : g.vs[(size_t)v].emits)
      if (!r.ready[(size_t)e]) { r.ready[(size_t)e] = 1; r.empty[(size_t)e] = 1; }
  };
  auto run = [&](int v) {
    const Vtx& V = g.vs[(size_t)v];
    r.done[(size_t)v] = 1;
    if (V.deps.size() >= 2) r.any_fanin = true;
    bool ess_failed = false;
    for (auto& d : V.deps) {
      bool rdy = established(d) && r.ready[(size_t)d.target];
      if (d.cond >= 0) { r.any_conditional = true; if (!established(d)) r.any_cond_false = true; }
      if (d.essential && (!rdy || r.empty[(size_t)d.target])) ess_failed = true;
    }
    if (ess_failed) { r.any_ess_flush = true; flush(v); return; }  // emits published empty, processor not run
    r.ran[(size_t)v] = 1;
    std::vector<In> ins;
    for (auto& d : V.deps) {
      In in;
      in.present = established(d) && r.ready[(size_t)d.target] && !r.empty[(size_t)d.target];
      if (in.present && d.mut == MUT_MODIFY) r.val[(size_t)d.target] = mutate_value(r.val[(size_t)d.target], v);
      if (in.present) in.val = r.val[(size_t)d.target];
      ins.push_back(in);
    }
    r.seen[(size_t)v] = ins;
    if (V.fail == FAIL_EARLY) { r.fail_ran = true; flush(v); return; }
    inject(v, 0);
    for (size_t k = 0; k < V.emits.size(); k++) {
      int e = V.emits[k];
      r.ready[(size_t)e] = 1;
      r.empty[(size_t)e] = V.mask[k] != EM_VALUE;
      if (V.mask[k] == EM_VALUE) r.val[(size_t)e] = out_value(g, round, v, (int)k, ins);
    }
    inject(v, 1);
    if (V.fail == FAIL_LATE) r.fail_ran = true;
  };
  for (int t : R.targets) demand(t);
  while (progress) {
    progress = false;
    for (size_t v = 0; v < nv; v++) {
      if (!r.activated[v] || r.done[v]) continue;
      bool all_ready = true;
      for (auto& d : g.vs[v].deps) {
        if (d.cond >= 0) {
          if (!r.ready[(size_t)d.cond]) { all_ready = false; continue; }
          if (established(d)) { demand(d.target); if (!r.ready[(size_t)d.target]) all_ready = false; }
        } else if (!r.ready[(size_t)d.target]) {
          all_ready = false;
        }
      }
      if (all_ready) { run((int)v); progress = true; }
    }
  }
  for (int i = 0; i < g.ninputs; i++) {
    if (!g.exists[(size_t)i] || R.in_mode[(size_t)i] != IN_ABSENT || !r.demanded[(size_t)i]) continue;
    if (r.ready[(size_t)i]) r.timing = true;
    else { r.missing = true; r.missing_d = i; }
  }
  return r;
}

// ---- the real thing -----------------------------------------------------------------------------
struct Payload {
  Cell<int64_t> v;
};

struct World {
  const Desc* g = nullptr;
  std::vector<GraphData*> data;
  int round = 0;
  std::vector<int> ran, running, running_tid, reset_calls;
  std::vector<std::vector<In>> seen;
  std::vector<char> absent;  // per input, this round
  int running_total = 0;
  bool overlapped = false;      // two processors inside process() on different threads
  bool injected_live = false;   // a processor really published an input during the run
  bool peeked = false;
};

class Proc : public GraphProcessor {
 public:
  Proc(World* w, int vid) : _w(w), _vid(vid) {}

 private:
  int setup() noexcept override {
    const Desc& g = *_w->g;
    const Vtx& V = g.vs[(size_t)_vid];
    if (vertex().anonymous_dependency_size() != V.deps.size() || vertex().anonymous_emit_size() != V.emits.size()) return -1;
    for (size_t i = 0; i < V.deps.size(); i++) {
      GraphDependency* d = vertex().anonymous_dependency(i);
      if (V.deps[i].mut != MUT_NONE) d->declare_mutable();
      d->declare_essential(V.deps[i].essential);
      if (g.is_cond[(size_t)V.deps[i].target]) d->declare_type<int64_t>();
      else d->declare_type<Payload>();
    }
    for (size_t k = 0; k < V.emits.size(); k++) {
      if (g.is_cond[(size_t)V.emits[k]]) vertex().anonymous_emit(k)->declare_type<int64_t>();
      else vertex().anonymous_emit(k)->declare_type<Payload>();
    }
    return 0;
  }

  void inject(int pos) {
    World& W = *_w;
    const Desc& g = *W.g;
    const Vtx& V = g.vs[(size_t)_vid];
    if (V.inject < 0 || V.inject_pos != pos) return;
    GraphData* x = W.data[(size_t)V.inject];
    if (x == nullptr) return;
    int64_t val = inject_value(g, W.round, _vid, V.inject);
    bool valid;
    if (g.is_cond[(size_t)V.inject]) {
      auto c = x->emit<int64_t>();
      valid = c.valid();
      if (valid) *c = val;
      H::point();
    } else {
      auto c = x->emit<Payload>();
      valid = c.valid();
      if (valid) c->v.set(val, "injected input");
      H::point();
    }
    if (valid != (bool)W.absent[(size_t)V.inject])
      H::fail("publish-once", "round %d: v%d injecting input d%d got a %s committer, but the input was %s before the run", W.round, _vid,
              V.inject, valid ? "valid" : "invalid", W.absent[(size_t)V.inject] ? "not published" : "published");
    if (valid) W.injected_live = true;
  }

  int process() noexcept override {
    World& W = *_w;
    const Desc& g = *W.g;
    const Vtx& V = g.vs[(size_t)_vid];
    size_t me = (size_t)_vid;
    if (W.ran[me]++ > 0) H::fail("run-once", "round %d: processor of v%d invoked a second time", W.round, _vid);
    for (size_t o = 0; o < W.running.size(); o++)
      if (W.running[o] && W.running_tid[o] != H::tid()) W.overlapped = true;
    W.running[me] = 1;
    W.running_tid[me] = H::tid();
    W.running_total++;
    if (V.yields & 1) H::yield();
    else H::point();
    // 1. take the values exactly the way a processor does (through the dependency only), so that the happens-before
    //    check on the payload sees the synchronisation babylon itself provides and nothing added by the harness
    std::vector<In> ins;
    for (size_t i = 0; i < V.deps.size(); i++) {
      const Dep& d = V.deps[i];
      GraphDependency* gd = vertex().anonymous_dependency(i);
      In in;
      if (g.is_cond[(size_t)d.target]) {
        const int64_t* p = gd->value<int64_t>();
        in.present = p != nullptr;
        if (p) in.val = *p;
      } else if (d.mut != MUT_NONE) {
        Payload* p = gd->mutable_value<Payload>();
        in.present = p != nullptr;
        if (p && d.mut == MUT_MODIFY) p->v.set(mutate_value(p->v.get("mutable dependency"), _vid), "mutable dependency");
        if (p) in.val = p->v.get("mutable dependency");
      } else {
        const Payload* p = gd->value<Payload>();
        in.present = p != nullptr;
        if (p) in.val = p->v.get("dependency value");
      }
      ins.push_back(in);
    }
    // 2. every dependency had its condition ready and, if established, its target ready
    for (size_t i = 0; i < V.deps.size(); i++) {
      const Dep& d = V.deps[i];
      GraphDependency* gd = vertex().anonymous_dependency(i);
      GraphData* tt = W.data[(size_t)d.target];
      bool est = true;
      if (d.cond >= 0) {
        GraphData* tc = W.data[(size_t)d.cond];
        if (!tc->ready())
          H::fail("deps-ready", "round %d: v%d invoked while the condition d%d of dependency %zu is not ready", W.round, _vid, d.cond, i);
        est = tc->as<bool>() == d.on;
      }
      if (est && !tt->ready())
        H::fail("deps-ready", "round %d: v%d invoked while the target d%d of its established dependency %zu is not ready", W.round, _vid,
                d.target, i);
      if (gd->established() != est || gd->ready() != est)
        H::fail("deps-ready", "round %d: v%d dependency %zu on d%d: established()=%d ready()=%d but the condition says %d", W.round,
                _vid, i, d.target, (int)gd->established(), (int)gd->ready(), (int)est);
      bool expect_present = est && !tt->empty();
      if (ins[i].present != expect_present)
        H::fail("deps-ready", "round %d: v%d dependency %zu on d%d: value pointer %s but established=%d target empty=%d", W.round, _vid, i,
                d.target, ins[i].present ? "non-null" : "null", (int)est, (int)tt->empty());
    }
    W.seen[me] = ins;
    if (V.peek >= 0) {
      GraphData* pd = W.data[(size_t)V.peek];
      if (pd->ready() && !pd->empty()) {
        const Payload* p = pd->value<Payload>();
        if (!p) H::fail("values", "round %d: v%d polled d%d: ready and not empty but value<Payload>() is null", W.round, _vid, V.peek);
        (void)p->v.get("value read after GraphData::ready() returned true");
        W.peeked = true;
      }
    }
    if (V.yields & 2) H::yield();
    else H::point();
    int ret = 0;
    if (V.fail == FAIL_EARLY) {
      ret = FAIL_CODE;
    } else {
      inject(0);
      for (size_t k = 0; k < V.emits.size(); k++) {
        GraphData* e = vertex().anonymous_emit(k);
        if (V.mask[k] == EM_UNTOUCHED) continue;
        bool valid;
        if (g.is_cond[(size_t)V.emits[k]]) {
          auto c = e->emit<int64_t>();
          valid = c.valid();
          if (valid && V.mask[k] == EM_VALUE) *c = out_value(g, W.round, _vid, (int)k, ins);
          if (valid && V.mask[k] == EM_EMPTY) c.clear();
          H::point();
        } else {
          auto c = e->emit<Payload>();
          valid = c.valid();
          if (valid && V.mask[k] == EM_VALUE) c->v.set(out_value(g, W.round, _vid, (int)k, ins), "emitted value");
          if (valid && V.mask[k] == EM_EMPTY) c.clear();
          H::point();
        }
        if (!valid) H::fail("publish-once", "round %d: v%d could not acquire its own emit d%d: somebody published it before", W.round, _vid, V.emits[k]);
        H::point();
      }
      inject(1);
      if (V.fail == FAIL_LATE) ret = FAIL_CODE;
    }
    W.running[me] = 0;
    W.running_total--;
    return ret;
  }

  void reset() noexcept override { _w->reset_calls[(size_t)_vid]++; }

  World* _w;
  int _vid;
};

struct Observed {
  bool ready = false, empty = true;
  int64_t val = 0;
};
Observed observe(const Desc& g, GraphData* d, int id) {
  Observed o;
  o.ready = d->ready();
  o.empty = d->empty();
  if (o.ready && !o.empty) {
    if (g.is_cond[(size_t)id]) {
      const int64_t* p = d->value<int64_t>();
      if (!p) H::fail("values", "d%d is ready and not empty but value<int64_t>() is null", id);
      o.val = *p;
    } else {
      const Payload* p = d->value<Payload>();
      if (!p) H::fail("values", "d%d is ready and not empty but value<Payload>() is null", id);
      o.val = p->v.get("final value");
    }
  }
  return o;
}

struct CaseStats {
  bool nontrivial = false;
  uint64_t hash = 0;
};

void run_graph_case(const Desc& g, CaseStats& st) {
  World W;
  W.g = &g;
  size_t nd = (size_t)g.ndata, nv = g.vs.size();
  ThreadPoolGraphExecutor pool;
  GraphBuilder builder;
  builder.set_name("c05");
  if (g.executor > 0) builder.set_executor(pool);
  char name[16], name2[16];
  for (size_t pos = 0; pos < nv; pos++) {
    World* w = &W;
    size_t v = (size_t)g.order[pos];
    int vid = (int)v;
    auto& vb = builder.add_vertex([w, vid] { return std::unique_ptr<GraphProcessor>(new Proc(w, vid)); });
    for (auto& d : g.vs[v].deps) {
      snprintf(name, sizeof name, "d%d", d.target);
      auto& db = vb.anonymous_depend().to(name);
      if (d.cond >= 0) {
        snprintf(name2, sizeof name2, "d%d", d.cond);
        if (d.on) db.on(name2);
        else db.unless(name2);
      }
    }
    for (int e : g.vs[v].emits) {
      snprintf(name, sizeof name, "d%d", e);
      vb.anonymous_emit().to(name);
    }
  }
  if (builder.finish() != 0) H::fail("build", "GraphBuilder::finish() failed on a well-formed description");
  std::unique_ptr<Graph> graph = builder.build();
  if (!graph) {
    if (!g.static_conflict) H::fail("build", "GraphBuilder::build() returned null although no data has an unconditional mutable dependency plus other dependencies");
    H::label("build_refused_static_mutable_conflict");
    return;
  }
  W.data.assign(nd, nullptr);
  for (size_t d = 0; d < nd; d++) {
    snprintf(name, sizeof name, "d%zu", d);
    if (g.exists[d]) {
      W.data[d] = graph->find_data(name);
      if (!W.data[d]) H::fail("build", "find_data(%s) is null although a dependency or emit names it", name);
    }
  }
  if (g.executor > 0 && pool.initialize((size_t)g.executor, 64) != 0) H::fail("build", "ThreadPoolGraphExecutor::initialize failed");
  W.reset_calls.assign(nv, 0);

  for (int round = 0; round < (int)g.rounds.size(); round++) {
    const Round& R = g.rounds[(size_t)round];
    Ref ref = reference(g, round);
    W.round = round;
    W.ran.assign(nv, 0); W.running.assign(nv, 0); W.running_tid.assign(nv, -1); W.seen.assign(nv, {});
    W.running_total = 0;
    W.injected_live = false;
    W.peeked = false;
    W.absent.assign((size_t)g.ninputs, 0);
    for (int i = 0; i < g.ninputs; i++) {
      GraphData* d = W.data[(size_t)i];
      W.absent[(size_t)i] = R.in_mode[(size_t)i] == IN_ABSENT;
      if (!d || R.in_mode[(size_t)i] == IN_ABSENT) continue;
      bool valid;
      if (g.is_cond[(size_t)i]) {
        auto c = d->emit<int64_t>();
        valid = c.valid();
        if (valid && R.in_mode[(size_t)i] == IN_VALUE) *c = R.in_val[(size_t)i];
      } else {
        auto c = d->emit<Payload>();
        valid = c.valid();
        if (valid && R.in_mode[(size_t)i] == IN_VALUE) c->v.set(R.in_val[(size_t)i], "input");
      }
      if (!valid) H::fail("reset", "round %d: input d%d cannot be published before the run (committer invalid)", round, i);
      if (!d->ready()) H::fail("values", "round %d: input d%d is not ready after its committer was released", round, i);
    }
    std::vector<GraphData*> targets;
    for (int t : R.targets) targets.push_back(W.data[(size_t)t]);

    bool lenient = ref.timing || ref.fail_ran || g.runtime_conflict;
    bool strict = !lenient && !ref.missing;
    int code;
    {
      Closure closure = graph->run(targets.data(), targets.size());
      code = closure.get();
      if (!closure.finished()) H::fail("termination", "round %d: get() returned %d but finished() is false", round, code);
      if (closure.error_code() != code) H::fail("termination", "round %d: get() returned %d but error_code() is %d", round, code, closure.error_code());
      closure.wait();
      if (W.running_total != 0) {
        for (size_t v = 0; v < nv; v++)
          if (W.running[v]) H::fail("wait-covers-vertices", "round %d: wait() returned while the processor of v%zu is still inside process()", round, v);
      }
      if (!closure.finished()) H::fail("termination", "round %d: finished() is false after wait()", round);
    }
    // every mode: run-once is checked inside process(); only demanded vertices may have run
    for (size_t v = 0; v < nv; v++) {
      if (W.ran[v] && !ref.activated[v])
        H::fail("only-demanded", "round %d: processor of v%zu ran although the targets do not demand it", round, v);
      if (W.ran[v] && g.vs[v].fail == FAIL_NONE)
        for (int e : g.vs[v].emits)
          if (!W.data[(size_t)e]->ready()) H::fail("emits-flushed", "round %d: v%zu returned 0 but its emit d%d is not ready after wait()", round, v, e);
    }
    if (ref.missing && !lenient && code == 0)
      H::fail("values", "round %d: run returned 0 although the demanded input d%d is never provided", round, ref.missing_d);
    if (strict && code != 0) H::fail("values", "round %d: well-formed run returned error code %d", round, code);
    if (code == 0) {
      // success: every target holds what the sequential evaluation produces
      for (int t : R.targets) {
        if (!ref.ready[(size_t)t]) continue;  // only possible in lenient classes
        Observed o = observe(g, W.data[(size_t)t], t);
        if (!o.ready) H::fail("values", "round %d: run returned 0 but target d%d is not ready", round, t);
        if (o.empty != (bool)ref.empty[(size_t)t] || (!o.empty && o.val != ref.val[(size_t)t]))
          H::fail("values", "round %d: target d%d is %s/%ld, the sequential evaluation gives %s/%ld", round, t, o.empty ? "empty" : "value",
                  (long)o.val, ref.empty[(size_t)t] ? "empty" : "value", (long)ref.val[(size_t)t]);
      }
    }
    if (strict) {
      for (size_t v = 0; v < nv; v++) {
        if ((W.ran[v] != 0) != (ref.ran[v] != 0))
          H::fail("ran-set", "round %d: processor of v%zu %s, the sequential evaluation says it %s", round, v, W.ran[v] ? "ran" : "did not run",
                  ref.ran[v] ? "runs" : "does not run");
        if (W.ran[v] && !(W.seen[v] == ref.seen[v])) {
          for (size_t i = 0; i < W.seen[v].size(); i++)
            if (!(W.seen[v][i] == ref.seen[v][i]))
              H::fail("inputs-seen", "round %d: v%zu saw dependency %zu as %s/%ld, the sequential evaluation gives %s/%ld", round, v, i,
                      W.seen[v][i].present ? "value" : "absent", (long)W.seen[v][i].val, ref.seen[v][i].present ? "value" : "absent",
                      (long)ref.seen[v][i].val);
        }
      }
      for (size_t d = 0; d < nd; d++) {
        if (!W.data[d]) continue;
        Observed o = observe(g, W.data[d], (int)d);
        if (o.ready != (bool)ref.ready[d])
          H::fail("values", "round %d: d%zu is %s after the run, the sequential evaluation says %s", round, d, o.ready ? "published" : "unpublished",
                  ref.ready[d] ? "published" : "unpublished");
        if (o.ready && (o.empty != (bool)ref.empty[d] || (!o.empty && o.val != ref.val[d])))
          H::fail("values", "round %d: d%zu is %s/%ld, the sequential evaluation gives %s/%ld", round, d, o.empty ? "empty" : "value", (long)o.val,
                  ref.empty[d] ? "empty" : "value", (long)ref.val[d]);
      }
    }

    // labels / non-triviality
    H::label(strict ? "round_strict" : ref.missing && !lenient ? "round_missing_input" : ref.timing ? "round_timing_injection"
                                       : ref.fail_ran ? "round_failing_processor" : "round_mutable_conflict");
    H::label(code == 0 ? "code_zero" : "code_nonzero");
    if (ref.any_cond_false) H::label("cond_not_established");
    if (ref.any_ess_flush) H::label("essential_flush");
    if (W.injected_live) H::label("injected_during_run");
    if (W.peeked) H::label("polled_ready_then_read");
    if (W.overlapped) H::label("processors_overlapped");
    size_t nran = 0;
    for (size_t v = 0; v < nv; v++) nran += W.ran[v] ? 1 : 0;
    if (nran >= 4) H::label("ran_ge4");
    if (nran * 2 >= nv) H::label("ran_at_least_half_of_the_vertices");
    bool shape_ok = ref.any_conditional && ref.any_fanin;
#ifdef C05_SEQ
    if (shape_ok && nran >= 2) st.nontrivial = true;
#else
    if (shape_ok && (W.overlapped || (W.injected_live && g.executor > 0))) st.nontrivial = true;
#endif
    st.hash = mix(st.hash, (uint64_t)code + 3);
    for (size_t v = 0; v < nv; v++) st.hash = mix(st.hash, (uint64_t)W.ran[v]);

    // reset: every processor's reset() once, every data unpublished again
    std::vector<int> before = W.reset_calls;
    graph->reset();
    for (size_t v = 0; v < nv; v++)
      if (W.reset_calls[v] != before[v] + 1)
        H::fail("reset", "round %d: Graph::reset() called GraphProcessor::reset() of v%zu %d times", round, v, W.reset_calls[v] - before[v]);
    for (size_t d = 0; d < nd; d++)
      if (W.data[d] && (W.data[d]->ready() || !W.data[d]->empty()))
        H::fail("reset", "round %d: d%zu is still %s after Graph::reset()", round, d, W.data[d]->ready() ? "published" : "non-empty");
  }
  graph.reset();
  if (g.executor > 0) pool.stop();
}

void label_graph(const Desc& g) {
  static const char* ex[] = {"exec_inplace", "exec_pool1", "exec_pool2", "exec_pool3"};
  H::label(ex[g.executor]);
  bool cond = false, ess = false, mut = false, fail = false, inj = false;
  for (auto& V : g.vs) {
    for (auto& d : V.deps) { cond |= d.cond >= 0; ess |= d.essential; mut |= d.mut == MUT_MODIFY; }
    fail |= V.fail != FAIL_NONE;
    inj |= V.inject >= 0;
  }
  if (cond) H::label("g_conditional");
  if (ess) H::label("g_essential");
  if (mut) H::label("g_mutable_modify");
  if (g.runtime_conflict) H::label("g_mutable_conflict");
  if (fail) H::label("g_failing_processor");
  if (inj) H::label("g_injector");
  if (g.vs.size() >= 5) H::label("g_vertices_ge5");
  if (g.motif) H::label("g_planted_double_activation_shape");
  bool identity = true;
  for (size_t i = 0; i < g.order.size(); i++) identity &= g.order[i] == (int)i;
  if (!identity) H::label("g_consumers_declared_before_producers");
  int shared = 0, cond_on_input = 0;
  for (size_t d = (size_t)g.ninputs; d < (size_t)g.ndata; d++) {
    int users = 0;
    for (auto& V : g.vs) { bool u = false; for (auto& dp : V.deps) u |= dp.cond == (int)d; users += u; }
    shared += users >= 2;
  }
  for (auto& V : g.vs) for (auto& dp : V.deps) cond_on_input += dp.cond >= g.ninputs && dp.target < g.ninputs;
  if (shared) H::label("g_computed_condition_shared_by_vertices");
  if (cond_on_input) H::label("g_input_under_computed_condition");
}

void silence_babylon_log() {
  babylon::LoggerBuilder lb;
  lb.set_min_severity(babylon::LogSeverity::FATAL);
  babylon::LoggerManager::instance().set_root_builder(std::move(lb));
  babylon::LoggerManager::instance().apply();
}

const char* RULE =
#ifdef C05_SEQ
    "a round whose demanded set contains a conditional dependency and a fan-in vertex (>=2 dependencies) and in which >= 2 processors ran";
#else
    "a round whose demanded set contains a conditional dependency and a fan-in vertex (>=2 dependencies), and two processors were inside "
    "process() on different pool threads at the same time or a processor published an input during a pool run";
#endif

}  // namespace

#ifdef C05_SEQ
extern "C" int LLVMFuzzerTestOneInput(const uint8_t* data, size_t size) {
  static bool once = (silence_babylon_log(), true);
  (void)once;
  vfz::begin_case(RULE);
  if (size < 4) return 0;
  vfz::Dec dec(data, size);
  Src s{dec};
  Desc g = generate(s, false);
  std::string desc = describe(g);
  g_desc = &desc;
  label_graph(g);
  CaseStats st;
  run_graph_case(g, st);
  if (st.nontrivial) vfz::nontrivial(vfz::hash_bytes(data, size), desc.substr(0, 700));
  g_desc = nullptr;
  return 0;
}
#else
namespace {
void run_case(vf::Chooser& c) {
  Src s{c};
  Desc g = generate(s, true);
  std::string desc = describe(g);
  dsched::describe("%s", desc.c_str());
  label_graph(g);
  CaseStats st;
  for (char ch : desc) st.hash = mix(st.hash, (uint64_t)(unsigned char)ch);
  run_graph_case(g, st);
  dsched::mix_hash(st.hash);
  if (st.nontrivial) dsched::nontrivial();
}
void tune(dsched::Params& p, vf::Chooser&) { p.max_steps = 400000; }
}  // namespace

int main(int argc, char** argv) {
  silence_babylon_log();
  vf::Target t;
  t.name = "c05_anyflow";
  t.property_id = "C05";
  t.run_case = run_case;
  t.tune = tune;
  t.prog_len = 400;
  t.nontrivial_rule = RULE;
  return vf::main_driver(argc, argv, t);
}
#endif
