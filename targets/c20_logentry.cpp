// C20 (entry half): LogStreamBuffer / LogEntry page layout against a recording PageAllocator.
//   whatever is streamed into an entry == concatenation of the entry's non-empty iovecs,
//   set of iov_base == pages handed out for the entry (each exactly once, table pages included),
//   after AsyncFileAppender::discard nothing is outstanding.
// libFuzzer drives page size, total lengths (biased to the inline / page-table boundaries) and the
// sputn/sputc/ostream chunking. On the first invocation of every process the target additionally
// enumerates EVERY total length 0..(INLINE_PAGE_CAPACITY+3*table_capacity)*page+2 for page sizes 32 and 64
// (finite sub-range, three chunkings each; INLINE_PAGE_CAPACITY is 14 on x86-64 where BABYLON_CACHELINE_SIZE is
// 128, and 6 with 64-byte lines) and the boundary neighbourhoods for the other page sizes.
#include <babylon/logging/async_file_appender.h>
#include <babylon/logging/log_entry.h>
// log_entry.cpp is compiled into this translation unit (the archive member is then not pulled in) because the
// unit is built with -fno-sanitize=bounds (see c20_logentry.reg.json): LogStreamBuffer forms
// `_log.pages + INLINE_PAGE_CAPACITY`, one slot past the declared `pages[INLINE_PAGE_CAPACITY - 1]`, on purpose
// (the last inline slot is overlaid with `head`). UBSan's array-bounds check reports that on every entry of the
// unchanged tree; it is not what C20 is about.
#include <babylon/logging/log_entry.cpp>

#include <sanitizer/asan_interface.h>

#include <algorithm>
#include <map>
#include <memory>
#include <ostream>
#include <set>
#include <string>
#include <vector>

#include "fuzz_common.h"

namespace {

using babylon::AsyncFileAppender;
using babylon::LogEntry;
using babylon::LogStreamBuffer;

constexpr size_t INLINE = LogEntry::INLINE_PAGE_CAPACITY;

const char* RULE =
    "decoded case = page size + 1..3 entries (target length, chunk ops) on one reused LogStreamBuffer; non-trivial = at least "
    "one entry spilled into a chained page table (more than INLINE_PAGE_CAPACITY pages)";

std::string* g_desc = nullptr;  // description of the running case, for failures raised inside the allocator
const std::string& cur_desc() {
  static const std::string none = "(no case)";
  return g_desc ? *g_desc : none;
}

// ---- recording allocator ------------------------------------------------------------------
// Every page is its own exact-size heap block, so a write past a page (or past a page table) is an
// ASan report; pages are poisoned before they are freed.
// Raw blocks are recycled through a per-page-size cache (ASan's malloc is slow for thousands of 4 KiB blocks);
// a cached block is poisoned for ASan, so a touch of a released page is still a report.
std::vector<void*>& block_cache(size_t ps) {
  static std::map<size_t, std::vector<void*>>* m = new std::map<size_t, std::vector<void*>>();
  return (*m)[ps];
}

struct RecordingAllocator : public babylon::PageAllocator {
  size_t ps = 32;
  std::vector<void*>* cache = nullptr;
  std::vector<void*> outstanding;  // sorted
  std::vector<void*> handed;  // pages handed out since the last mark()
  size_t total_allocs = 0;

  void release_block(void* p) {
    memset(p, 0xDD, ps);
    if (cache->size() < 2048) {
      ASAN_POISON_MEMORY_REGION(p, ps);
      cache->push_back(p);
    } else {
      free(p);
    }
  }
  ~RecordingAllocator() noexcept override {
    for (void* p : outstanding) release_block(p);
  }
  size_t page_size() const noexcept override { return ps; }
  using PageAllocator::allocate;
  using PageAllocator::deallocate;
  void allocate(void** pages, size_t num) noexcept override {
    if (!cache) cache = &block_cache(ps);
    for (size_t i = 0; i < num; i++) {
      void* p;
      if (!cache->empty()) {
        p = cache->back();
        cache->pop_back();
        ASAN_UNPOISON_MEMORY_REGION(p, ps);
      } else {
        p = malloc(ps);
      }
      memset(p, 0x5A, ps);
      outstanding.insert(std::lower_bound(outstanding.begin(), outstanding.end(), p), p);
      handed.push_back(p);
      total_allocs++;
      pages[i] = p;
    }
  }
  void deallocate(void** pages, size_t num) noexcept override {
    if (!cache) cache = &block_cache(ps);
    for (size_t i = 0; i < num; i++) {
      void* p = pages[i];
      auto it = std::lower_bound(outstanding.begin(), outstanding.end(), p);
      if (it == outstanding.end() || *it != p)
        vfz::fail(cur_desc(), "deallocate(%p): not an outstanding page of this allocator (double release or foreign pointer), %zu of %zu in this call",
                  p, i, num);
      outstanding.erase(it);
      release_block(p);
    }
  }
  void mark() { handed.clear(); }
};

// ---- content pool -----------------------------------------------------------------------------
constexpr size_t POOL = (size_t)2304 << 10;
const std::string& pool() {
  static std::string* p = [] {
    auto* s = new std::string();
    s->resize(POOL + 8192);
    uint64_t x = 0x9E3779B97F4A7C15ULL;
    char* out = &(*s)[0];
    for (size_t i = 0; i + 8 <= s->size(); i += 8) {
      x ^= x << 13; x ^= x >> 7; x ^= x << 17;
      uint64_t v = x * 0x2545F4914F6CDD1DULL;
      memcpy(out + i, &v, 8);
    }
    return s;
  }();
  return *p;
}

size_t table_capacity(size_t ps) { return (ps - sizeof(LogEntry::PageTable)) / sizeof(char*); }
size_t pages_of(size_t len, size_t ps) { return (len + ps - 1) / ps; }
size_t tables_of(size_t len, size_t ps) {
  size_t n = pages_of(len, ps);
  if (n <= INLINE) return 0;
  size_t cap = table_capacity(ps);
  return (n - (INLINE - 1) + cap - 1) / cap;
}

// ---- one entry: chunk plan ---------------------------------------------------------------------
enum ChunkKind : uint8_t { K_PUTC, K_PUTN, K_SYNC, K_OS_WRITE, K_OS_PUT, K_OS_FLUSH, K_PUTN_REPEAT /* sputn(n) until the entry is complete */ };
struct Chunk { ChunkKind kind; size_t n; };

struct Built {
  LogEntry entry;              // copy, as the appender's queue makes one
  std::vector<void*> handed;   // pages the allocator handed out while this entry was built
  size_t off, len;             // expected bytes = pool()[off, off+len)
};

AsyncFileAppender& shared_appender() {
  static AsyncFileAppender* a = new AsyncFileAppender();
  return *a;
}

struct Env {
  RecordingAllocator alloc;
  // never initialised, only discard() is used; one per process because its (unused) 1024-slot queue is a
  // quarter of a megabyte of fresh memory per construction. The only state discard() reads is the allocator pointer.
  AsyncFileAppender& appender = shared_appender();
  LogStreamBuffer buf;
  std::vector<struct ::iovec> iov;
  std::vector<void*> sb, sh;
  std::vector<Chunk> plan;
  explicit Env(size_t ps) {
    alloc.ps = ps;
    alloc.cache = &block_cache(ps);
    appender.set_page_allocator(alloc);
    buf.set_page_allocator(alloc);
  }
};

// Streams pool()[off, off+len) through the buffer following `plan` (the remainder goes out in one sputn).
void build_entry(Env& e, const std::string& desc, size_t off, size_t len, const std::vector<Chunk>& plan, Built& b) {
  const char* src = pool().data() + off;
  e.alloc.mark();
  e.buf.begin();
  std::ostream os(&e.buf);
  size_t done = 0;
  auto putn = [&](size_t n, bool via_os) {
    if (n > len - done) n = len - done;
    if (via_os) {
      os.write(src + done, (std::streamsize)n);
      if (!os.good()) vfz::fail(desc, "ostream::write(%zu) at offset %zu put the stream into a failed state", n, done);
    } else {
      std::streamsize r = e.buf.sputn(src + done, (std::streamsize)n);
      if (r != (std::streamsize)n) vfz::fail(desc, "sputn(%zu) at offset %zu returned %ld", n, done, (long)r);
    }
    done += n;
  };
  for (const Chunk& c : plan) {
    switch (c.kind) {
      case K_PUTC:
        for (size_t i = 0; i < c.n && done < len; i++) {
          int r = e.buf.sputc(src[done]);
          if (r != (int)(unsigned char)src[done]) vfz::fail(desc, "sputc at offset %zu returned %d", done, r);
          done++;
        }
        break;
      case K_PUTN: putn(c.n, false); break;
      case K_SYNC:
        if (e.buf.pubsync() != 0) vfz::fail(desc, "pubsync at offset %zu failed", done);
        break;
      case K_OS_WRITE: putn(c.n, true); break;
      case K_OS_PUT:
        if (done < len) { os.put(src[done]); done++; }
        break;
      case K_OS_FLUSH: os.flush(); break;
      case K_PUTN_REPEAT:
        while (done < len) putn(c.n, false);
        break;
    }
  }
  if (done < len) putn(len - done, false);
  b.entry = e.buf.end();
  b.handed.assign(e.alloc.handed.begin(), e.alloc.handed.end());
  b.off = off;
  b.len = len;
}

// The oracle for one finished entry; releases it through AsyncFileAppender::discard.
void check_and_discard(Env& e, const std::string& desc, Built& b, size_t others_outstanding) {
  size_t ps = e.alloc.ps;
  if (b.entry.size != b.len) vfz::fail(desc, "entry.size == %zu after streaming %zu bytes", b.entry.size, b.len);
  e.iov.clear();
  b.entry.append_to_iovec(ps, e.iov);
  // (1) bytes: the non-empty segments, in order, are exactly the streamed bytes
  size_t carried = 0;
  const char* want = pool().data() + b.off;
  for (auto& v : e.iov) {
    if (v.iov_len > ps) vfz::fail(desc, "iovec of %zu bytes with page size %zu (entry of %zu bytes)", v.iov_len, ps, b.len);
    if (v.iov_len == 0) continue;
    if (carried + v.iov_len > b.len)
      vfz::fail(desc, "entry of %zu bytes (page %zu): iovecs carry more than that (%zu bytes after %zu segments)", b.len, ps, carried + v.iov_len,
                (size_t)(&v - e.iov.data()) + 1);
    if (memcmp(v.iov_base, want + carried, v.iov_len) != 0) {
      size_t i = 0;
      while (((const char*)v.iov_base)[i] == want[carried + i]) i++;
      vfz::fail(desc, "entry of %zu bytes (page %zu): iovec bytes differ from the streamed bytes first at offset %zu (segment %zu, byte %zu)",
                b.len, ps, carried + i, (size_t)(&v - e.iov.data()), i);
    }
    carried += v.iov_len;
  }
  if (carried != b.len)
    vfz::fail(desc, "entry of %zu bytes (page %zu): iovecs carry %zu bytes in %zu segments", b.len, ps, carried, e.iov.size());
  // (2) pages: iov_base multiset == pages handed out for this entry
  std::vector<void*>&sb = e.sb, &sh = e.sh;  // scratch (ASan's allocator is the dominant cost otherwise)
  sb.clear();
  for (auto& v : e.iov) sb.push_back(v.iov_base);
  sh.assign(b.handed.begin(), b.handed.end());
  std::sort(sb.begin(), sb.end());
  std::sort(sh.begin(), sh.end());
  for (size_t i = 1; i < sb.size(); i++)
    if (sb[i] == sb[i - 1]) vfz::fail(desc, "entry of %zu bytes (page %zu): page %p appears twice in the scatter list", b.len, ps, sb[i]);
  if (sb != sh) {
    std::vector<void*> missing, extra;
    std::set_difference(sh.begin(), sh.end(), sb.begin(), sb.end(), std::back_inserter(missing));
    std::set_difference(sb.begin(), sb.end(), sh.begin(), sh.end(), std::back_inserter(extra));
    vfz::fail(desc, "entry of %zu bytes (page %zu): scatter list has %zu segments, allocator handed out %zu pages; %zu handed-out pages missing "
              "from the list, %zu listed addresses never handed out", b.len, ps, sb.size(), sh.size(), missing.size(), extra.size());
  }
  // (3) conservation through discard
  e.appender.discard(b.entry);
  if (e.alloc.outstanding.size() != others_outstanding)
    vfz::fail(desc, "after discard of the entry of %zu bytes (page %zu, %zu pages handed out) %zu pages are outstanding, expected %zu", b.len,
              ps, b.handed.size(), e.alloc.outstanding.size(), others_outstanding);
}

// ---- deterministic sweeps (first invocation of every process) ------------------------------------
void sweep_one(Env& e, std::string& desc, size_t len, int chunking) {
  std::vector<Chunk>& plan = e.plan;
  plan.clear();
  if (chunking == 1) plan.push_back({K_PUTC, len});
  else if (chunking == 2) plan.push_back({K_PUTN_REPEAT, 7});
  char b[96];
  snprintf(b, sizeof b, "sweep page=%zu len=%zu chunking=%s", e.alloc.ps, len, chunking == 0 ? "one-sputn" : chunking == 1 ? "sputc" : "sputn(7)");
  desc = b;
  static Built* bt = new Built();
  build_entry(e, desc, (len * 31) & 1023, len, plan, *bt);
  check_and_discard(e, desc, *bt, 0);
}

void run_sweeps() {
  std::string desc;
  g_desc = &desc;
  // exhaustive sub-range
  for (size_t ps : {(size_t)32, (size_t)64}) {
    Env e(ps);
    size_t max_len = (INLINE + 3 * table_capacity(ps)) * ps + 2;
    std::string name = "exhaustive_lengths_page" + std::to_string(ps);
    for (size_t len = 0; len <= max_len; len++) {
      for (int chunking = 0; chunking < 3; chunking++) sweep_one(e, desc, len, chunking);
      vfz::label(name.c_str());
    }
    if (e.alloc.total_allocs == 0) vfz::fail(desc, "sweep allocated nothing");
  }
  // boundary neighbourhoods for the larger page sizes (every page count at which the layout changes, +-2 bytes)
  for (size_t ps : {(size_t)128, (size_t)256, (size_t)512, (size_t)1024, (size_t)2048, (size_t)4096}) {
    Env e(ps);
    size_t cap = table_capacity(ps);
    size_t kmax = ps <= 1024 ? 3 : 1;
    bool big = ps >= 2048;
    std::vector<size_t> counts;
    for (size_t n = 0; n <= INLINE + 2; n++)
      if (!big || n <= 1 || n + 2 >= INLINE) counts.push_back(n);
    for (size_t k = 1; k <= kmax; k++)
      for (size_t d = 0; d < 3; d++) counts.push_back(INLINE - 1 + k * cap - 1 + d);
    std::string name = "boundary_sweep_page" + std::to_string(ps);
    for (size_t n : counts)
      for (int d = big ? -1 : -2; d <= (big ? 1 : 2); d++) {
        if (n == 0 && d < 0) continue;
        size_t len = n * ps + (size_t)d;
        sweep_one(e, desc, len, 0);
        if (len <= 40000) sweep_one(e, desc, len, 2);
        vfz::label(name.c_str());
      }
  }
  g_desc = nullptr;
}

// Decoder: the fuzzer's bytes first, then (instead of zeros) a PRNG seeded with the hash of the whole input, so a
// short input still denotes a complete, deterministic, non-degenerate case.
struct HDec {
  vfz::Dec d;
  uint64_t x;
  HDec(const uint8_t* p, size_t n) : d(p, n), x(vfz::hash_bytes(p, n) | 1) {}
  bool done() const { return false; }
  uint8_t u8() {
    if (!d.done()) return d.u8();
    x ^= x << 13; x ^= x >> 7; x ^= x << 17;
    return (uint8_t)(x >> 40);
  }
  uint16_t u16() { uint16_t a = u8(); return (uint16_t)(a | (u8() << 8)); }
  uint32_t u32() { uint32_t a = u16(); return a | ((uint32_t)u16() << 16); }
  uint32_t below(uint32_t m) { return m <= 1 ? 0 : (m <= 256 ? u8() % m : u32() % m); }
  bool flip() { return u8() & 1; }
};

// ---- fuzzed case -------------------------------------------------------------------------------
const size_t PAGE_SIZES[] = {32, 64, 128, 256, 512, 1024, 2048, 4096, 32, 64, 128, 256, 40, 48, 56, 72, 96, 104, 200, 1000, 4088};

size_t decode_length(HDec& d, size_t ps, size_t max_len) {
  size_t cap = table_capacity(ps);
  size_t kmax = 1;
  while (kmax < 3 && (INLINE + (kmax + 1) * cap) * ps + 2 <= max_len) kmax++;
  size_t len;
  switch (d.below(8)) {
    case 0: len = d.below((uint32_t)(2 * ps + 1)); break;                                        // short
    case 1: len = (INLINE - 1 + d.below(3)) * ps + d.below(5) - 2; break;                        // around the inline capacity
    case 2: case 3: {                                                                             // around a table capacity multiple
      size_t k = 1 + d.below((uint32_t)kmax);
      len = (INLINE - 1 + k * cap - 1 + d.below(3)) * ps + d.below(5) - 2;
      break;
    }
    case 4: {                                                                                     // any page count, near the page edge
      size_t n = d.below((uint32_t)(INLINE + kmax * cap + 1));
      len = n * ps + d.below(5);
      if (len >= 2) len -= 2;
      break;
    }
    case 5: len = d.u32() % (max_len + 1); break;                                                 // anything
    case 6: len = d.below(4); break;                                                              // 0..3
    default: len = (size_t)d.below((uint32_t)(INLINE + 2)) * ps; break;                           // exact inline multiples
  }
  if (len > max_len) len = max_len;
  return len;
}

std::vector<Chunk> decode_plan(HDec& d, size_t ps, size_t len, std::string& desc) {
  std::vector<Chunk> plan;
  size_t done = 0;
  int nops = d.below(4) == 0 ? 0 : (int)d.below(25);  // the remainder always goes out in one sputn
  char b[48];
  for (int step = 0; step < nops && done < len; step++) {
    uint8_t op = d.u8() % 14;
    size_t room = ps - done % ps;  // bytes to the end of the page being filled (ps when at an edge)
    Chunk c{K_PUTN, 0};
    switch (op) {
      case 0: c = {K_PUTC, 1}; break;
      case 1: c = {K_PUTC, (size_t)1 + d.below(2 * (uint32_t)std::min<size_t>(ps, 256))}; break;
      case 2: c = {K_PUTN, (size_t)1 + d.below(16)}; break;
      case 3: c = {K_PUTN, room}; break;
      case 4: c = {K_PUTN, room > 1 ? room - 1 : 1}; break;
      case 5: c = {K_PUTN, room + 1}; break;
      case 6: c = {K_PUTN, ps}; break;
      case 7: c = {K_PUTN, ps * (2 + d.below(7)) + d.below(3) - 1}; break;
      case 8: c = {K_SYNC, 0}; break;
      case 9: c = {K_PUTN, 0}; break;
      case 10: c = {K_PUTN, (len - done) / 2}; break;
      case 11: c = {K_OS_WRITE, d.flip() ? room : (size_t)1 + d.below((uint32_t)(3 * ps))}; break;
      case 12: c = {d.flip() ? K_OS_PUT : K_OS_FLUSH, 1}; break;
      default: c = {K_PUTN, d.u16()}; break;
    }
    static const char* names[] = {"c", "n", "sync", "osw", "osput", "osflush", "nrep"};
    snprintf(b, sizeof b, " %s%zu", names[c.kind], c.n);
    desc += b;
    plan.push_back(c);
    if (c.kind == K_PUTC || c.kind == K_PUTN || c.kind == K_OS_WRITE || c.kind == K_OS_PUT) done += std::min(c.n, len - done);
  }
  return plan;
}

}  // namespace

// Fresh memory is expensive in this sandbox (slow page faults): a small quarantine lets ASan reuse freed chunks.
// The pages under test never go through the quarantine anyway (poisoned block cache above).
extern "C" const char* __asan_default_options() { return "quarantine_size_mb=8"; }

extern "C" int LLVMFuzzerTestOneInput(const uint8_t* data, size_t size) {
  vfz::begin_case(RULE);
  static bool swept = false;
  if (!swept) {
    swept = true;
    run_sweeps();
  }
  if (size < 2) return 0;
  HDec d(data, size);
  std::string desc;
  g_desc = &desc;
  size_t ps = PAGE_SIZES[d.below(sizeof PAGE_SIZES / sizeof PAGE_SIZES[0])];
  size_t cap = table_capacity(ps);
  size_t max_len = (INLINE + 3 * cap) * ps + 2;
  if (max_len > ((size_t)2200 << 10)) max_len = (INLINE + cap + 2) * ps + 2;  // 2048: 263 pages, 4096: 519 pages
  if (max_len > POOL) max_len = POOL;
  int nentries = 1 + (int)d.below(3);
  bool hold = d.flip();  // keep the copies (as the appender's queue does) and release them after the buffer was reused
  char b[96];
  snprintf(b, sizeof b, "page=%zu cap=%zu entries=%d hold=%d", ps, cap, nentries, (int)hold);
  desc = b;
  vfz::label(("page_" + std::to_string(ps)).c_str());

  Env e(ps);
  std::vector<Built> held;
  bool nontrivial = false;
  for (int i = 0; i < nentries; i++) {
    size_t len = decode_length(d, ps, max_len);
    size_t off = d.u8() * 16u;
    snprintf(b, sizeof b, " | len=%zu(pages=%zu,tables=%zu) off=%zu:", len, pages_of(len, ps), tables_of(len, ps), off);
    desc += b;
    std::vector<Chunk> plan = decode_plan(d, ps, len, desc);
    Built bt;
    build_entry(e, desc, off, len, plan, bt);
    size_t n = pages_of(len, ps), t = tables_of(len, ps);
    if (bt.handed.size() != n + t) vfz::label("alloc_count_differs_from_model");
    if (len == 0) vfz::label("len_zero");
    else if (n < INLINE) vfz::label("inline_partial");
    else if (n == INLINE) vfz::label(len == INLINE * ps ? "inline_exactly_full" : "inline_last_slot");
    else if (t == 1) vfz::label((n - (INLINE - 1)) == cap ? (len % ps == 0 ? "one_table_exactly_full" : "one_table_last_slot") : "one_table");
    else vfz::label((n - (INLINE - 1)) % cap == 0 ? "tables_last_exactly_full" : ((n - (INLINE - 1)) % cap == 1 ? "tables_new_table_one_page" : "tables_many"));
    if (len % ps == 0 && len) vfz::label("len_page_multiple");
    if (t >= 1) nontrivial = true;
    if (hold) {
      held.push_back(std::move(bt));
    } else {
      check_and_discard(e, desc, bt, 0);
    }
  }
  if (hold) {
    size_t outstanding = 0;
    for (auto& h : held) outstanding += h.handed.size();
    if (e.alloc.outstanding.size() != outstanding)
      vfz::fail(desc, "%zu pages outstanding while %zu entries are held with %zu pages handed out", e.alloc.outstanding.size(), held.size(), outstanding);
    // release in decoded order
    std::vector<size_t> order;
    for (size_t i = 0; i < held.size(); i++) order.push_back(i);
    if (d.flip()) std::reverse(order.begin(), order.end());
    for (size_t i : order) {
      outstanding -= held[i].handed.size();
      check_and_discard(e, desc, held[i], outstanding);
    }
    vfz::label("held_then_released");
  }
  if (!e.alloc.outstanding.empty()) vfz::fail(desc, "%zu pages outstanding at the end of the case", e.alloc.outstanding.size());
  if (nontrivial) vfz::nontrivial(vfz::hash_bytes(data, size), desc);
  g_desc = nullptr;
  return 0;
}
