// C12 (string part): MonotonicBasicString against std::string, driven by an operation
// sequence decoded from the fuzzer's bytes, including babylon's own additions
// (move-assignment by exchange, uninitialized resize, stable_reserve, the reuse
// protocol: reconstruct / capacity metadata). libFuzzer + ASan.
#include <babylon/reusable/string.h>
#include <babylon/reusable/traits.h>
#include <babylon/string.h>

#include <memory>
#include <string>

#include "fuzz_common.h"

namespace {

using ::babylon::ExclusiveMonotonicBufferResource;
using ::babylon::MonotonicString;
using ::babylon::Reuse;
using ::babylon::ReusableTraits;
using Res = ExclusiveMonotonicBufferResource;
using Alloc = MonotonicString::allocator_type;

const char* RULE =
    "decoded op sequence over 3 MonotonicString objects (two share a resource) mirrored on std::string; non-trivial = the sequence "
    "left the small-string buffer (capacity > 15) and then went through a logical clear / reconstruct / metadata round trip / "
    "exchange-style move or an uninitialized resize";

std::string* g_desc = nullptr;
[[noreturn]] void failc(const char* fmt, ...) __attribute__((format(printf, 1, 2)));
void failc(const char* fmt, ...) {
  char buf[2048];
  va_list ap;
  va_start(ap, fmt);
  vsnprintf(buf, sizeof buf, fmt, ap);
  va_end(ap);
  vfz::fail(g_desc ? *g_desc : std::string("?"), "%s", buf);
}

std::string gen_string(vfz::Dec& d) {
  static const size_t L[] = {0, 1, 3, 15, 16, 17, 31, 40, 100, 300};
  uint8_t a = d.u8();
  size_t len = L[a % 10];
  if (a & 0x80) len += d.u8() % 7;
  uint8_t seed = d.u8();
  std::string s(len, 'a');
  for (size_t i = 0; i < len; i++) s[i] = (char)('a' + (seed + i * 3) % 26);
  if ((a & 0x40) && len > 2) s[len / 2] = '\0';  // embedded NUL
  return s;
}

struct Runner {
  vfz::Dec& d;
  std::string& desc;
  Res res[2];
  static constexpr int NS = 3;
  int home[NS] = {0, 0, 1};
  std::unique_ptr<MonotonicString> s[NS];
  std::string model[NS];
  size_t cap_lb[NS] = {0, 0, 0};
  bool nt = false;
  Runner(vfz::Dec& dd, std::string& ds) : d(dd), desc(ds) {}

  void note(const char* fmt, ...) __attribute__((format(printf, 2, 3))) {
    if (desc.size() > 6000) return;
    char buf[256];
    va_list ap;
    va_start(ap, fmt);
    vsnprintf(buf, sizeof buf, fmt, ap);
    va_end(ap);
    desc += ' ';
    desc += buf;
  }
  Alloc alloc(int r) { return Alloc(res[r]); }

  void check(int k, const char* after, bool exchanged = false) {
    MonotonicString& x = *s[k];
    const std::string& m = model[k];
    if (x.size() != m.size()) failc("after %s: s%d.size()=%zu, std::string has %zu", after, k, x.size(), m.size());
    if (x.length() != m.size() || x.empty() != m.empty()) failc("after %s: length()/empty() of s%d disagree with size()", after, k);
    if (memcmp(x.data(), m.data(), m.size()) != 0) failc("after %s: contents of s%d differ from std::string", after, k);
    if (x.c_str()[x.size()] != '\0') failc("after %s: s%d is not NUL terminated", after, k);
    if (x.capacity() < x.size()) failc("after %s: s%d capacity %zu < size %zu", after, k, x.capacity(), x.size());
    if (!(x == m) || !(m == x)) failc("after %s: operator== between s%d and the std::string model is false", after, k);
    size_t i = 0;
    for (char ch : x) {
      if (ch != m[i]) failc("after %s: iteration of s%d differs at %zu", after, k, i);
      i++;
    }
    if (i != m.size()) failc("after %s: iteration of s%d visited %zu of %zu", after, k, i, m.size());
    if (!exchanged && x.capacity() < cap_lb[k]) failc("after %s: capacity of s%d shrank from %zu to %zu", after, k, cap_lb[k], x.capacity());
    cap_lb[k] = x.capacity();
    if (x.capacity() > 15) vfz::label("heap_capacity");
  }

  void run() {
    for (int k = 0; k < NS; k++) s[k].reset(new MonotonicString(alloc(home[k])));
    int ops = 0;
    while (!d.done() && ops < 300) {
      ops++;
      uint8_t b = d.u8();
      int k = (b >> 6) % NS;
      unsigned op = b & 63;
      MonotonicString& x = *s[k];
      std::string& m = model[k];
      unsigned form = d.u8();
      bool big = x.capacity() > 15;
      if (op < 6) {
        std::string v = gen_string(d);
        note("s%d.assign/%u(%zu)", k, form % 6, v.size());
        switch (form % 6) {
          case 0: x.assign(v.data(), v.size()); break;
          case 1: x = v; break;  // from std::string (babylon overload)
          case 2: {
            v = std::string(v.c_str());
            x = v.c_str();
            break;
          }
          case 3: {
            MonotonicString t(v, alloc(home[k]));
            x = t;
            break;
          }
          case 4: {
            MonotonicString t(v, alloc(1 - home[k]));
            x = t;
            break;
          }
          default: {
            char ch = (char)('A' + form % 26);
            x.assign(v.size(), ch);
            v.assign(v.size(), ch);
            break;
          }
        }
        m = v;
        check(k, "assign");
      } else if (op < 10) {
        std::string v = gen_string(d);
        note("s%d.append/%u(%zu)", k, form % 4, v.size());
        switch (form % 4) {
          case 0: x.append(v.data(), v.size()); break;
          case 1: x += MonotonicString(v, alloc(home[k])); break;
          case 2: {
            char ch = (char)('A' + form % 26);
            x.append(v.size() % 9, ch);
            v.assign(v.size() % 9, ch);
            break;
          }
          default:
            for (char ch : v) x.push_back(ch);
            break;
        }
        m += v;
        check(k, "append");
      } else if (op < 12) {
        if (m.empty()) continue;
        note("s%d.pop_back", k);
        x.pop_back();
        m.pop_back();
        check(k, "pop_back");
      } else if (op < 16) {
        std::string v = gen_string(d);
        if (v.size() > 40) v.resize(40);
        size_t pos = d.u8() % (m.size() + 1);
        note("s%d.insert(%zu,%zu)", k, pos, v.size());
        if (form & 1) {
          x.insert(pos, v.data(), v.size());
        } else {
          x.insert(x.begin() + (long)pos, v.begin(), v.end());
        }
        m.insert(pos, v);
        check(k, "insert");
      } else if (op < 20) {
        size_t pos = d.u8() % (m.size() + 1);
        size_t n = d.u8() % 24;
        note("s%d.erase(%zu,%zu)", k, pos, n);
        x.erase(pos, n);
        m.erase(pos, n);
        check(k, "erase");
      } else if (op < 23) {
        std::string v = gen_string(d);
        if (v.size() > 40) v.resize(40);
        size_t pos = d.u8() % (m.size() + 1);
        size_t n = d.u8() % 24;
        note("s%d.replace(%zu,%zu,%zu)", k, pos, n, v.size());
        x.replace(pos, n, v.data(), v.size());
        m.replace(pos, n, v);
        check(k, "replace");
      } else if (op < 27) {
        size_t n = (form & 1) ? d.u8() : d.u8() % 40;
        char ch = (char)('a' + form % 26);
        note("s%d.resize(%zu)", k, n);
        if (form & 2) {
          x.resize(n);
          m.resize(n);
        } else {
          x.resize(n, ch);
          m.resize(n, ch);
        }
        check(k, "resize");
      } else if (op < 30) {
        size_t n = (size_t)d.u8() * 2;
        note("s%d.reserve/%u(%zu)", k, form & 1, n);
        if (form & 1) {
          ::babylon::stable_reserve(x, n);
        } else {
          x.reserve(n);
        }
        if (x.capacity() < n) failc("reserve(%zu) left capacity %zu", n, x.capacity());
        check(k, "reserve");
      } else if (op < 35) {
        // uninitialized resize (libstdc++ layout dependent) followed by filling every byte
        size_t n = (form & 1) ? d.u8() * 2 : d.u8() % 40;
        note("s%d.resize_uninitialized/%u(%zu)", k, (form >> 1) & 1, n);
        size_t keep = std::min(n, m.size());
        char* p;
        if (form & 2) {
          x.__resize_default_init(n);
          p = &x[0];
        } else {
          p = ::babylon::resize_uninitialized(x, n);
        }
        if (p != x.data()) failc("resize_uninitialized returned %p, data() is %p", (void*)p, (const void*)x.data());
        if (x.size() != n) failc("after an uninitialized resize to %zu size() is %zu", n, x.size());
        if (memcmp(x.data(), m.data(), keep) != 0) failc("an uninitialized resize to %zu did not keep the first %zu bytes", n, keep);
        m.resize(n);
        for (size_t i = keep; i < n; i++) {
          char ch = (char)('a' + (i * 5 + form) % 26);
          p[i] = ch;
          m[i] = ch;
        }
        if (big || x.capacity() > 15) nt = true;
        vfz::label("resize_uninitialized");
        check(k, "uninitialized resize");
      } else if (op < 40) {
        // logical clear through the container or through the reuse protocol; refill takes no memory
        std::string before = m;
        size_t cap0 = x.capacity();
        note("s%d.clear/%u", k, form % 3);
        if (form % 3 == 0) x.clear();
        else Reuse::reconstruct(x, alloc(home[k]));
        m.clear();
        if (x.capacity() < cap0) failc("a logical clear shrank the capacity from %zu to %zu", cap0, x.capacity());
        check(k, "clear");
        MonotonicString fresh(alloc(home[k]));
        if (!(x == fresh) || x.size() != 0) failc("a cleared string does not equal a freshly constructed one");
        if (form % 3 == 2) {
          size_t u0 = res[home[k]].space_used();
          x.assign(before.data(), before.size());
          m = before;
          if (res[home[k]].space_used() != u0) failc("refilling a cleared string with the %zu bytes it held before took new memory", before.size());
          check(k, "refill after clear");
        }
        if (big) nt = true;
        vfz::label("clear");
      } else if (op < 44) {
        // reconstruct with arguments == construct a new value in place, keeping the capacity
        std::string v = gen_string(d);
        size_t cap0 = x.capacity();
        note("s%d.reconstruct/%u(%zu)", k, form % 3, v.size());
        switch (form % 3) {
          case 0: Reuse::reconstruct(x, alloc(home[k]), v); break;
          case 1: {
            v = std::string(v.c_str());
            Reuse::reconstruct(x, alloc(home[k]), v.c_str());
            break;
          }
          default: {
            char ch = (char)('A' + form % 26);
            Reuse::reconstruct(x, alloc(home[k]), v.size(), ch);
            v.assign(v.size(), ch);
            break;
          }
        }
        m = v;
        if (x.capacity() < cap0) failc("reconstruct shrank the capacity from %zu to %zu", cap0, x.capacity());
        if (big) nt = true;
        vfz::label("reconstruct_with_args");
        check(k, "reconstruct");
      } else if (op < 47) {
        int o = k == 0 ? 1 : k == 1 ? 0 : -1;
        if (o < 0) continue;
        note("swap(s%d,s%d)", k, o);
        x.swap(*s[o]);
        std::swap(m, model[o]);
        std::swap(cap_lb[k], cap_lb[o]);
        vfz::label("swap");
        check(k, "swap");
        check(o, "swap");
      } else if (op < 52) {
        int o = (k + 1 + form % (NS - 1)) % NS;
        bool same = home[o] == home[k];
        note("s%d = move(s%d)", k, o);
        size_t cap_target = x.capacity();
        x = std::move(*s[o]);
        m = model[o];
        if (same) {
          std::swap(cap_lb[k], cap_lb[o]);
          // documented: exchange, so that the source can reuse what the target had allocated
          if (s[o]->capacity() < cap_target) failc("same-allocator move assignment dropped the target's capacity (%zu) instead of handing it to the source (%zu)", cap_target, s[o]->capacity());
          if (big || s[o]->capacity() > 15) nt = true;
        }
        check(k, "move assignment", same);
        model[o].assign(s[o]->data(), s[o]->size());  // valid but unspecified
        check(o, "move assignment (source)", same);
        vfz::label(same ? "move_assign_same_allocator" : "move_assign_other_allocator");
      } else if (op < 56) {
        note("construct/%u from s%d", form % 4, k);
        switch (form % 4) {
          case 0: {
            MonotonicString c(x, alloc(home[k]));
            if (!(c == m)) failc("copy-constructed string differs");
            break;
          }
          case 1: {
            MonotonicString c(x, alloc(1 - home[k]));
            if (!(c == m)) failc("copy-constructed (other allocator) string differs");
            break;
          }
          case 2: {
            MonotonicString c(std::move(x), alloc(home[k]));
            if (!(c == m)) failc("move-constructed (same allocator) string differs");
            x = std::move(c);
            if (!(x == m)) failc("string differs after moving it out and back");
            cap_lb[k] = 0;
            break;
          }
          default: {
            MonotonicString c(std::move(x), alloc(1 - home[k]));
            if (!(c == m)) failc("move-constructed (other allocator) string differs");
            m.assign(x.data(), x.size());
            break;
          }
        }
        vfz::label("construct_from");
        check(k, "construction from it");
      } else {
        // capacity metadata round trip
        using Traits = ReusableTraits<MonotonicString>;
        note("s%d.metadata_roundtrip", k);
        std::string before = m;
        x.clear();
        m.clear();
        Traits::AllocationMetadata meta;
        Reuse::update_allocation_metadata(x, meta);
        if (meta.capacity < x.capacity()) failc("metadata capacity %zu is less than the string's capacity %zu", meta.capacity, x.capacity());
        {
          auto a = alloc(home[k]);
          MonotonicString* y = Reuse::create_with_allocation_metadata<MonotonicString>(a, meta);
          if (!y->empty()) failc("a string rebuilt from capacity metadata is not empty");
          if (y->capacity() < before.size()) failc("a string rebuilt from capacity metadata has capacity %zu; it held %zu bytes before", y->capacity(), before.size());
          size_t u0 = res[home[k]].space_used();
          y->assign(before.data(), before.size());
          if (res[home[k]].space_used() != u0) failc("replaying %zu bytes on the string rebuilt from metadata took new memory", before.size());
          if (!(*y == before)) failc("rebuilt string differs from the model");
        }
        size_t u0 = res[home[k]].space_used();
        x.assign(before.data(), before.size());
        m = before;
        if (res[home[k]].space_used() != u0) failc("refilling the cleared original took new memory");
        if (big) nt = true;
        vfz::label("metadata_roundtrip");
        check(k, "metadata round trip");
      }
    }
    for (int k = 0; k < NS; k++) check(k, "the end of the sequence");
    for (int k = 0; k < NS; k++) s[k].reset();
  }
};

}  // namespace

// ASan / UBSan reports do not pass through vfz::fail: print the decoded case next to them
extern "C" void __asan_set_error_report_callback(void (*)(const char*));
static void vf_print_case_on_report(const char*) {
  if (g_desc) fprintf(stderr, "CASE: %s\n", g_desc->c_str());
}
extern "C" int LLVMFuzzerInitialize(int*, char***) {
  __asan_set_error_report_callback(&vf_print_case_on_report);
  return 0;
}

extern "C" int LLVMFuzzerTestOneInput(const uint8_t* data, size_t size) {
  vfz::begin_case(RULE);
  vfz::Dec d(data, size);
  std::string desc;
  g_desc = &desc;
  {
    Runner r(d, desc);
    r.run();
    if (r.nt) vfz::nontrivial(vfz::hash_bytes(data, size), desc.substr(0, 400));
  }
  g_desc = nullptr;
  return 0;
}
