// C13: babylon coroutines under the schedule fuzzer.
//   scenario A: coroutine::Futex   (wait / wake_one / wake_all / cancel / value change / slot reuse)
//   scenario B: Cancellable<Task>  (cancellation racing completion, cancel inside on_suspend)
//   scenario C: task awaiting task across executors, (shared) future awaitable racing set_value
//
// Every resumption in babylon goes through BasicExecutor::invoke, so the harness owns the executors
// (classes derived from babylon::Executor: an inline one and mutex/condvar pools whose workers are
// dsched threads) and can wait for global quiescence ("nothing queued, nothing running") instead of
// blocking on a coroutine that a defect may never resume.
//
// Known genuine defects are kept out of the default search by *named* guards (see `Known` below);
// VF_ALLOW_KNOWN=1 removes every guard.
#include <babylon/coroutine/cancelable.h>
#include <babylon/coroutine/futex.h>
#include <babylon/executor.h>
#include <babylon/future.h>

#include <stdio.h>
#include <stdlib.h>
#include <string.h>

#include <atomic>
#include <condition_variable>
#include <deque>
#include <memory>
#include <mutex>
#include <optional>
#include <thread>
#include <vector>

#include "../engine/common/driver.h"

using vf::Chooser;

namespace {

using babylon::Executor;
using babylon::MoveOnlyFunction;
using babylon::coroutine::BasicCancellable;
using babylon::coroutine::Cancellable;
using babylon::coroutine::Futex;
using babylon::coroutine::Task;
using FCancel = Futex::Cancellation;
using CCancel = BasicCancellable::Cancellation;

// ---------------------------------------------------------------------------------------------
// read-only access to the deposit boxes' id allocators (to count slots in use). Access checking
// does not apply to explicit instantiation arguments, so no change to /repo is needed.
template <class Tag, auto M>
struct Steal {
  friend constexpr auto steal(Tag) { return M; }
};
struct AddAwaiterTag { friend constexpr auto steal(AddAwaiterTag); };
template struct Steal<AddAwaiterTag, &Futex::add_awaiter>;
template <class F> struct NodeOf;
template <class N> struct NodeOf<bool (Futex::*)(N*, uint64_t) noexcept> { using type = N; };
using FutexNode = NodeOf<decltype(steal(AddAwaiterTag{}))>::type;
using FutexBox = babylon::DepositBox<FutexNode>;
using CancelBox = babylon::DepositBox<BasicCancellable*>;
struct FutexBoxTag { friend constexpr auto steal(FutexBoxTag); };
struct CancelBoxTag { friend constexpr auto steal(CancelBoxTag); };
template struct Steal<FutexBoxTag, &FutexBox::_slot_id_allocator>;
template struct Steal<CancelBoxTag, &CancelBox::_slot_id_allocator>;

template <class Box, class Tag>
uint32_t slots_in_use() {
  auto& alloc = Box::instance().*steal(Tag{});
  uint32_t n = 0;
  alloc.for_each([&](uint32_t b, uint32_t e) { n += e - b; });
  return n;
}
template <class Box, class Tag>
uint32_t slots_issued() {
  auto& alloc = Box::instance().*steal(Tag{});
  return alloc.end();
}

template <class Tok>
uint64_t token_bits(const Tok& t) {
  static_assert(sizeof(Tok) == sizeof(uint64_t), "cancellation token is one VersionedValue<uint32_t>");
  uint64_t v;
  memcpy(&v, &t, sizeof v);
  return v;
}

// ---------------------------------------------------------------------------------------------
// Known genuine defects (see the report / known_findings). Each guard removes exactly one shape from
// the default search and counts it; VF_ALLOW_KNOWN=1 disables all guards (the oracles then fail on
// the unchanged tree and show the defect).
struct Known {
  // VF_ALLOW_KNOWN=1 (all) or a list such as VF_ALLOW_KNOWN=f3,f4b (only those shapes re-enabled)
  bool allow = false, allow_f3 = false, allow_f4 = false, allow_f4b = false;
  void parse(const char* s) {
    if (!s) return;
    allow = s[0] == '1';
    allow_f3 = allow || strstr(s, "f3");
    allow_f4b = allow || strstr(s, "f4b");
    allow_f4 = allow || strstr(s, "f4,") || (strstr(s, "f4") && !strstr(s, "f4b")) || strstr(s, "f4b,f4");
  }
  // F3: Futex::Awaitable::await_suspend emplaces a DepositBox slot and never releases it when
  //     add_awaiter refuses the wait (value mismatch): one slot leaked per non-suspending wait.
  bool known_f3_nonmatching_wait_leaks_slot() const { return !allow_f3; }
  // F4: Futex::wake_one clears node->next before using it to advance: it stops behind the first
  //     waiter it cannot take (its canceller already owns it) and returns 0 with waiters queued.
  bool known_f4_wake_one_stops_at_cancelled_node() const { return !allow_f4; }
  // F4b: await_suspend reads/calls _on_suspend after add_awaiter made the node visible: a waker may
  //     resume (and destroy) the coroutine first, the awaitable is then read after free (a later
  //     awaitable of the same coroutine reuses its frame slot: a foreign callback runs, or runs twice).
  //     Guard: wake calls and the registration window of a futex wait (co_await entry until
  //     await_suspend cannot touch the awaitable any more) exclude each other (harness gate).
  bool known_f4_on_suspend_after_visible() const { return !allow_f4b; }
  // (suspected, not guarded because this engine cannot reach it: Futex::wake_all reads node->next after
  //  finish_released(node->id); there is no schedule point between the release CAS and that plain load)
};

// ---------------------------------------------------------------------------------------------
struct ExBase;
struct PoolEx;

struct Hub {
  std::mutex mu;
  std::condition_variable idle;
  int outstanding = 0;  // queued or running pool tasks
  bool stop = false;
  uint64_t serial = 0;  // one per executor invocation
};

thread_local uint64_t tl_serial = 0;      // serial of the executor invocation this thread is inside
thread_local bool tl_gate_owned = false;   // this thread holds the registration gate ...
thread_local int tl_gate_wait = -1;        // ... on behalf of this wait (-1: on behalf of a wake call)
thread_local uint64_t tl_gate_serial = 0;  // ... taken inside this executor invocation

struct World;
World* W = nullptr;

struct ExBase : public Executor {
  Hub* hub = nullptr;
  int index = 0;
  int invocations = 0;
  void run(MoveOnlyFunction<void(void)>& f);
};

struct InlineEx : public ExBase {
  int invoke(MoveOnlyFunction<void(void)>&& f) noexcept override {
    invocations++;
    MoveOnlyFunction<void(void)> local = std::move(f);
    run(local);
    return 0;
  }
};

struct PoolEx : public ExBase {
  std::condition_variable cv;
  std::deque<MoveOnlyFunction<void(void)>> q;
  std::vector<std::thread> workers;
  int invoke(MoveOnlyFunction<void(void)>&& f) noexcept override {
    {
      std::lock_guard<std::mutex> lk(hub->mu);
      invocations++;
      q.push_back(std::move(f));
      hub->outstanding++;
    }
    cv.notify_one();
    return 0;
  }
  void start(int n) {
    for (int i = 0; i < n; i++) workers.emplace_back([this] { worker_main(); });
  }
  void worker_main() {
    std::unique_lock<std::mutex> lk(hub->mu);
    for (;;) {
      while (q.empty() && !hub->stop) cv.wait(lk);
      if (q.empty()) return;
      {
        MoveOnlyFunction<void(void)> f = std::move(q.front());
        q.pop_front();
        lk.unlock();
        run(f);
      }
      lk.lock();
      if (--hub->outstanding == 0) hub->idle.notify_all();
    }
  }
  void join() {
    cv.notify_all();
    for (auto& t : workers) t.join();
    workers.clear();
  }
};

// ---------------------------------------------------------------------------------------------
constexpr uint64_t LIVE = 0x11fe11fe11fe11feULL;
constexpr uint64_t DEAD = 0xdeaddeaddeaddeadULL;

enum CbMode { CB_NONE = 0, CB_PUBLISH = 1, CB_CANCEL_INSIDE = 2 };
const char* cb_name[] = {"none", "publish", "cancel-inside"};

struct CoSt {          // one harness coroutine
  ExBase* exec = nullptr;
  bool started = false, running = false, done = false;
  int live_frames = 0;      // frame-resident canaries alive
  int frames_destroyed = 0;
  int result = 0;           // value the body computed (to compare with what awaiters / futures get)
  const char* what = "";
};

// lives in the coroutine frame (by-value parameter): counts frame construction / destruction
struct Canary {
  uint64_t pad[2] = {0, 0};
  uint64_t magic = LIVE;
  CoSt* st;
  bool owner;
  explicit Canary(CoSt* s) : st(s), owner(true) { st->live_frames++; }
  Canary(Canary&& o) noexcept : st(o.st), owner(o.owner) {
    if (o.magic != LIVE) dsched::fail("frame-lifetime", "%s: frame parameter moved from a destroyed object", st->what);
    o.owner = false;
  }
  Canary(const Canary&) = delete;
  ~Canary() {
    if (magic != LIVE) dsched::fail("frame-lifetime", "coroutine frame parameter destroyed twice");
    magic = DEAD;
    if (owner) {
      st->live_frames--;
      st->frames_destroyed++;
    }
  }
  void check(const char* where) const {
    if (magic != LIVE) dsched::fail("frame-lifetime", "%s: coroutine body runs in a destroyed frame (%s)", st->what, where);
  }
};

void seg_enter(CoSt& st, const Canary& canary, const char* where) {
  canary.check(where);
  if (st.running) dsched::fail("resume-once", "%s: body entered (%s) while it is already running: resumed twice", st.what, where);
  if (st.done) dsched::fail("resume-once", "%s: body entered (%s) after it finished", st.what, where);
  st.running = true;
  if (!st.exec->is_running_in())
    dsched::fail("executor-affinity", "%s: resumed (%s) on a thread that is not running its executor E%d", st.what, where, st.exec->index);
  dsched::point();
  canary.check(where);
}
void seg_leave(CoSt& st) {
  dsched::point();
  st.running = false;
}

// ---------------------------------------------------------------------------------------------
// plans
struct WaitPlan { uint64_t expected; int cbmode; };
struct WaiterPlan { int exec; int launcher; bool via_execute; std::vector<WaitPlan> waits; };
enum AOp { A_WAKE_ONE, A_WAKE_ALL, A_CANCEL, A_SETV, A_LAUNCH, A_YIELD, A_SETGATE };
const char* aop_name[] = {"wake_one", "wake_all", "cancel", "setv", "launch", "yield", "setgate"};
struct ActOp { AOp op; int arg; };

struct WaitRec {
  int waiter, k;
  uint64_t expected;
  int cbmode;
  uint64_t t_enter = 0, t_cb_begin = 0, t_cb_end = 0, t_resumed = 0;
  bool suspended = false;
  uint64_t serial0 = 0;
  uint64_t v_epoch0 = 0, v0 = 0;
  bool v_quiet0 = false;  // no setv was in flight when the co_await began
  bool has_token = false;
  FCancel token;
  uint64_t bits = 0;
  int cancel_true = 0;
  uint64_t first_cancel_begin = 0;
  bool gate_held = false;
};
struct WakeRec { bool all; uint64_t t_begin, t_end; int ret; };
struct CancelRec { int wait; uint64_t t_begin, t_end; bool ret; bool inside; };

// scenario B / C records
struct GateSt {  // a babylon promise completed by an actor (or by main at the end)
  babylon::Promise<int> promise;
  babylon::Future<int> future;
  int value = 0;
  uint64_t t_set_begin = 0, t_set_end = 0;  // 0: not yet
};
struct OuterPlan {   // B: outer awaits Cancellable<Task<int>>(inner); C: outer awaits inner task
  int exec, inner_exec;  // inner_exec -1: no executor set on the inner task
  int inner_kind;        // 0 immediate, 1 awaits gate (by value), 2 awaits gate (shared lvalue)
  int gate;
  int cbmode;
  int launcher;
  bool via_execute;
  bool cancellable;
};
struct OuterRec {
  uint64_t t_await = 0, t_resumed = 0, t_cb_begin = 0, t_cb_end = 0;
  int resumed = 0;
  bool has_value = false;
  int value = 0;
  bool has_token = false;
  CCancel token;
  uint64_t bits = 0;
  int cancel_true = 0, cancel_calls = 0;
  uint64_t t_inner_await = 0, t_inner_resumed = 0;  // inner's future await window
  int inner_resumed = 0;
  bool inner_ready_at_await = false;
};
struct CCancelRec { int outer; uint64_t t_begin, t_end; bool ret; bool inside; };

struct World {
  Known known;
  Hub hub;
  std::vector<std::unique_ptr<ExBase>> execs;  // [0] inline, rest pools
  std::vector<PoolEx*> pools;
  uint64_t tick = 0;
  uint64_t now() { return ++tick; }
  int scenario = 0;

  // A
  Futex futex;
  uint64_t cur_value = 0, value_epoch = 0;
  int setters_inflight = 0;  // several threads may run setv at once: parity of the epoch alone is not enough
  std::vector<WaiterPlan> waiters;
  std::vector<CoSt> co;                         // A: one per waiter; B/C: 2 per outer (outer, inner)
  std::vector<babylon::Future<int>> futures;    // result futures of coroutines launched with execute()
  std::vector<bool> has_future;
  std::deque<WaitRec> waits;  // deques: records are referenced across schedule points
  std::deque<WakeRec> wakes;
  std::deque<CancelRec> cancels;
  // token hand-over to the cancelling threads: release store / acquire load, so that the canceller is
  // ordered after the emplace that produced the token (a real timer queue gives the same edge; without
  // it weak mode lets the canceller index the deposit box through a stale block table)
  std::atomic<int> published[8];  // A: per waiter: index of the wait whose token was published last, -1
  std::atomic<int> btoken[8];     // B: per outer: 1 once its token is published
  std::mutex gate;             // registration gate (known_f4_on_suspend_after_visible guard)
  int wakes_in_flight = 0;

  // B / C
  std::vector<OuterPlan> outers;
  std::vector<OuterRec> orec;
  std::vector<std::unique_ptr<GateSt>> gates;
  std::deque<CCancelRec> ccancels;

  std::vector<std::vector<ActOp>> actors;
};

void ExBase::run(MoveOnlyFunction<void(void)>& f) {
  RunnerScope scope {*this};
  uint64_t saved = tl_serial;
  uint64_t mine = ++hub->serial;
  tl_serial = mine;
  f();
  // a wait that suspended without a callback still holds the registration gate: the invocation
  // that performed the registration ends here
  if (tl_gate_owned && tl_gate_wait >= 0 && tl_gate_serial == mine) {
    tl_gate_owned = false;
    tl_gate_wait = -1;
    W->gate.unlock();
  }
  tl_serial = saved;
}

// ---------------------------------------------------------------------------------------------
// scenario A: futex
bool gate_waits_with_callback() { return W->known.known_f4_on_suspend_after_visible(); }

int begin_wait(int idx, int k) {
  World* w = W;
  const WaitPlan& p = w->waiters[(size_t)idx].waits[(size_t)k];
  WaitRec r{};
  r.waiter = idx;
  r.k = k;
  r.expected = p.expected;
  r.cbmode = p.cbmode;
  // every wait: await_suspend reads _on_suspend after add_awaiter whether or not a callback was set, and the
  // frame slot of a destroyed awaitable is reused by the next co_await of the same coroutine
  bool need_gate = gate_waits_with_callback();
  // a wait that starts inside this thread's own gated window (resumed inline by the wake call or
  // by a cancel inside the callback) is already protected from the other threads
  bool take = need_gate && !tl_gate_owned;
  if (take) w->gate.lock();
  r.t_enter = w->now();
  r.serial0 = tl_serial;
  r.v_epoch0 = w->value_epoch;
  r.v_quiet0 = w->setters_inflight == 0;
  // the real word (plain read = latest in modification order): the harness copy `cur_value` can lag when two
  // setv calls finish out of order
  r.v0 = w->futex.value();
  r.gate_held = take;
  w->waits.push_back(r);
  int ri = (int)w->waits.size() - 1;
  if (take) {
    tl_gate_owned = true;
    tl_gate_wait = ri;
    tl_gate_serial = tl_serial;
  }
  return ri;
}
void release_gate_if_held(int ri) {
  if (tl_gate_owned && tl_gate_wait == ri) {
    tl_gate_owned = false;
    tl_gate_wait = -1;
    W->gate.unlock();
  }
}

void check_suspension_legal(WaitRec& r, const char* where) {
  // the value was not touched between the start of the co_await and now, and it differs
  if (r.v_quiet0 && W->setters_inflight == 0 && W->value_epoch == r.v_epoch0 && r.v0 != r.expected)
    dsched::fail("futex-nonmatching", "waiter %d wait %d: suspended (%s) although the futex value was %lu != expected %lu throughout",
                 r.waiter, r.k, where, (unsigned long)r.v0, (unsigned long)r.expected);
}

void do_cancel_A(int wi, bool inside);

struct FutexCb {
  uint64_t pad[2] = {0, 0};
  uint64_t magic = LIVE;
  World* w;
  int ri;
  FutexCb(World* w_, int ri_) : w(w_), ri(ri_) {}
  FutexCb(FutexCb&& o) noexcept : magic(o.magic), w(o.w), ri(o.ri) {}
  ~FutexCb() { magic = DEAD; }
  void operator()(FCancel&& token) {
    if (magic != LIVE)
      dsched::fail("frame-lifetime", "futex on_suspend callback invoked after the awaitable that owns it was destroyed");
    WaitRec& r = w->waits[(size_t)ri];
    if (r.t_cb_begin != 0) dsched::fail("on-suspend", "waiter %d wait %d: on_suspend callback invoked twice", r.waiter, r.k);
    r.t_cb_begin = w->now();
    // A waker may win the race against this callback: await_suspend keeps the callable in a local (repo fix
    // "Futex::Awaitable touches itself after the waiter became visible"), so the callback object is alive (the
    // canary above still guards that) but the coroutine may already run again. The listed property says nothing
    // about when the callback runs relative to a racing wake, so this is only counted; the token is stale then.
    if (r.t_resumed != 0) dsched::label("on_suspend_after_racing_resume");
    check_suspension_legal(r, "on_suspend called");
    r.has_token = true;
    r.token = token;
    r.bits = token_bits(token);
    dsched::point();
    // cancel() inside the callback is documented as allowed; with an inline executor it resumes the
    // coroutine right here and destroys the awaitable that owns this object: no member access after it
    World* lw = w;
    int lri = ri;
    if (r.cbmode == CB_CANCEL_INSIDE) {
      do_cancel_A(lri, true);
    } else {
      lw->published[(size_t)r.waiter].store(lri, std::memory_order_release);
    }
    lw->waits[(size_t)lri].t_cb_end = lw->now();
    release_gate_if_held(lri);
  }
};

Task<int> futex_waiter(int idx, Canary canary) {
  World* w = W;
  CoSt& st = w->co[(size_t)idx];
  st.started = true;
  seg_enter(st, canary, "start");
  int acc = 1000 + idx;
  size_t n = w->waiters[(size_t)idx].waits.size();
  for (size_t k = 0; k < n; k++) {
    int ri = begin_wait(idx, (int)k);
    uint64_t expected = w->waits[(size_t)ri].expected;
    int cbmode = w->waits[(size_t)ri].cbmode;
    seg_leave(st);
    if (cbmode == CB_NONE) {
      co_await w->futex.wait(expected);
    } else {
      co_await w->futex.wait(expected).on_suspend(FutexCb{w, ri});
    }
    seg_enter(st, canary, "after futex wait");
    WaitRec& r = w->waits[(size_t)ri];
    if (r.t_resumed != 0) dsched::fail("resume-once", "waiter %d wait %d resumed twice", idx, (int)k);
    r.t_resumed = w->now();
    r.suspended = tl_serial != r.serial0;
    if (r.suspended) {
      check_suspension_legal(r, "resumed through its executor");
    } else {
      if (r.t_cb_begin != 0) dsched::fail("on-suspend", "waiter %d wait %d: on_suspend callback invoked although the wait did not suspend", idx, (int)k);
      release_gate_if_held(ri);
    }
    acc = acc * 3 + 1;
  }
  st.result = acc;
  st.done = true;
  seg_leave(st);
  co_return acc;
}

void do_cancel_A(int wi, bool inside) {
  World* w = W;
  FCancel tok = w->waits[(size_t)wi].token;
  CancelRec c{wi, w->now(), 0, false, inside};
  if (w->waits[(size_t)wi].first_cancel_begin == 0) w->waits[(size_t)wi].first_cancel_begin = c.t_begin;
  bool resumed_before = w->waits[(size_t)wi].t_resumed != 0;
  dsched::point();
  bool ok = tok();
  c.ret = ok;
  c.t_end = w->now();
  w->cancels.push_back(c);
  WaitRec& r = w->waits[(size_t)wi];
  if (ok) {
    if (++r.cancel_true > 1)
      dsched::fail("cancel-once", "waiter %d wait %d: two cancel() calls on the same token returned true", r.waiter, r.k);
    if (resumed_before)
      dsched::fail("cancel-stale", "waiter %d wait %d: cancel() returned true although the wait had already been resumed before the call",
                   r.waiter, r.k);
    dsched::label("cancel_true");
  } else {
    dsched::label(resumed_before ? "cancel_false_stale" : "cancel_false_raced");
  }
}

void do_wake(bool all) {
  World* w = W;
  bool gated = gate_waits_with_callback() && !tl_gate_owned;
  if (gated) {
    w->gate.lock();
    tl_gate_owned = true;
    tl_gate_wait = -1;
  }
  WakeRec k{all, w->now(), 0, 0};
  dsched::point();
  int ret = all ? w->futex.wake_all() : w->futex.wake_one();
  k.ret = ret;
  k.t_end = w->now();
  w->wakes.push_back(k);
  if (gated) {
    tl_gate_owned = false;
    w->gate.unlock();
  }
  if (ret < 0 || (!all && ret > 1)) dsched::fail("wake-count", "%s returned %d", all ? "wake_all" : "wake_one", ret);
  dsched::label(all ? (ret ? "wake_all_some" : "wake_all_zero") : (ret ? "wake_one_1" : "wake_one_0"));
}

void do_setv(uint64_t v) {
  World* w = W;
  w->setters_inflight++;
  w->value_epoch++;
  w->futex.atomic_value().store(v, std::memory_order_seq_cst);
  w->cur_value = v;
  w->value_epoch++;
  w->setters_inflight--;
}

void launch_A(int idx) {
  World* w = W;
  const WaiterPlan& p = w->waiters[(size_t)idx];
  ExBase& ex = *w->execs[(size_t)p.exec];
  if (p.via_execute) {
    w->futures[(size_t)idx] = ex.execute(futex_waiter, idx, Canary(&w->co[(size_t)idx]));
    w->has_future[(size_t)idx] = true;
  } else {
    int rc = ex.submit(futex_waiter, idx, Canary(&w->co[(size_t)idx]));
    if (rc != 0) dsched::fail("harness", "submit failed");
  }
}

// ---------------------------------------------------------------------------------------------
// scenarios B / C
Task<int> inner_task(int oi, Canary canary) {
  World* w = W;
  const OuterPlan& p = w->outers[(size_t)oi];
  CoSt& st = w->co[(size_t)oi * 2 + 1];
  OuterRec& r = w->orec[(size_t)oi];
  st.started = true;
  seg_enter(st, canary, "inner start");
  int v = 7000 + oi;
  if (p.inner_kind != 0) {
    GateSt& g = *w->gates[(size_t)p.gate];
    r.t_inner_await = w->now();
    r.inner_ready_at_await = g.t_set_end != 0;
    seg_leave(st);
    int got;
    if (p.inner_kind == 1) {
      babylon::Future<int> f = g.future;
      got = co_await std::move(f);
    } else {
      got = co_await g.future;
    }
    seg_enter(st, canary, "inner after future");
    r.t_inner_resumed = w->now();
    if (++r.inner_resumed > 1) dsched::fail("resume-once", "inner %d resumed twice from its future", oi);
    if (g.t_set_begin == 0) dsched::fail("future-await", "inner %d resumed from a future that nobody completed", oi);
    if (got != g.value) dsched::fail("await-value", "inner %d got %d from its future, expected %d", oi, got, g.value);
    v += got;
  }
  st.result = v;
  st.done = true;
  seg_leave(st);
  co_return v;
}

void do_cancel_B(int oi, bool inside);

struct CancelCb {
  uint64_t pad[2] = {0, 0};
  uint64_t magic = LIVE;
  World* w;
  int oi;
  CancelCb(World* w_, int oi_) : w(w_), oi(oi_) {}
  CancelCb(CancelCb&& o) noexcept : magic(o.magic), w(o.w), oi(o.oi) {}
  ~CancelCb() { magic = DEAD; }
  void operator()(CCancel&& token) {
    if (magic != LIVE) dsched::fail("frame-lifetime", "Cancellable on_suspend callback invoked after its owner was destroyed");
    OuterRec& r = w->orec[(size_t)oi];
    const OuterPlan& p = w->outers[(size_t)oi];
    if (r.t_cb_begin != 0) dsched::fail("on-suspend", "outer %d: on_suspend callback invoked twice", oi);
    r.t_cb_begin = w->now();
    if (r.resumed != 0) dsched::fail("frame-lifetime", "outer %d: on_suspend callback runs after the coroutine was resumed", oi);
    if (!w->execs[(size_t)p.exec]->is_running_in())
      dsched::fail("executor-affinity", "outer %d: on_suspend callback not on the awaiting coroutine's executor", oi);
    r.token = token;
    r.bits = token_bits(token);
    dsched::point();
    World* lw = w;  // cancel() inside may destroy this object (inline executor): no member access after it
    if (p.cbmode == CB_CANCEL_INSIDE) do_cancel_B(oi, true);
    else { r.has_token = true; w->btoken[(size_t)oi].store(1, std::memory_order_release); }
    r.t_cb_end = lw->now();
  }
};

void do_cancel_B(int oi, bool inside) {
  World* w = W;
  OuterRec& r = w->orec[(size_t)oi];
  CCancel tok = r.token;
  CCancelRec c{oi, w->now(), 0, false, inside};
  bool resumed_before = r.resumed != 0;
  dsched::point();
  bool ok = tok();
  c.ret = ok;
  c.t_end = w->now();
  w->ccancels.push_back(c);
  r.cancel_calls++;
  if (ok) {
    if (++r.cancel_true > 1) dsched::fail("cancel-once", "outer %d: two cancel() calls returned true", oi);
    if (resumed_before) dsched::fail("cancel-stale", "outer %d: cancel() returned true after the coroutine had been resumed", oi);
    dsched::label("ccancel_true");
  } else {
    dsched::label(resumed_before ? "ccancel_false_stale" : "ccancel_false_raced");
  }
}

Task<int> make_inner(int oi) {
  World* w = W;
  const OuterPlan& p = w->outers[(size_t)oi];
  Task<int> t = inner_task(oi, Canary(&w->co[(size_t)oi * 2 + 1]));
  if (p.inner_exec >= 0) t.set_executor(*w->execs[(size_t)p.inner_exec]);
  return t;
}

Task<int> outer_task(int oi, Canary canary) {
  World* w = W;
  const OuterPlan& p = w->outers[(size_t)oi];
  CoSt& st = w->co[(size_t)oi * 2];
  st.started = true;
  seg_enter(st, canary, "outer start");
  w->orec[(size_t)oi].t_await = w->now();
  int v = 0;
  bool has = true;
  seg_leave(st);
  if (p.cancellable) {
    if (p.cbmode == CB_NONE) {
      auto r = co_await Cancellable<Task<int>>(make_inner(oi));
      has = (bool)r;
      if (has) v = *r;
    } else {
      auto r = co_await Cancellable<Task<int>>(make_inner(oi)).on_suspend(CancelCb{w, oi});
      has = (bool)r;
      if (has) v = *r;
    }
  } else {
    v = co_await make_inner(oi);
  }
  seg_enter(st, canary, "outer after await");
  OuterRec& r = w->orec[(size_t)oi];
  r.t_resumed = w->now();
  if (++r.resumed > 1) dsched::fail("resume-once", "outer %d resumed twice", oi);
  r.has_value = has;
  r.value = v;
  if (has) {
    CoSt& in = w->co[(size_t)oi * 2 + 1];
    if (!in.done) dsched::fail("await-value", "outer %d resumed with a value before its inner task finished", oi);
    if (v != in.result) dsched::fail("await-value", "outer %d got %d, inner computed %d", oi, v, in.result);
  }
  st.result = has ? v + 1 : -1;
  st.done = true;
  seg_leave(st);
  co_return st.result;
}

void launch_B(int oi) {
  World* w = W;
  const OuterPlan& p = w->outers[(size_t)oi];
  ExBase& ex = *w->execs[(size_t)p.exec];
  if (p.via_execute) {
    w->futures[(size_t)oi] = ex.execute(outer_task, oi, Canary(&w->co[(size_t)oi * 2]));
    w->has_future[(size_t)oi] = true;
  } else {
    int rc = ex.submit(outer_task, oi, Canary(&w->co[(size_t)oi * 2]));
    if (rc != 0) dsched::fail("harness", "submit failed");
  }
}

void do_setgate(int gi) {
  World* w = W;
  GateSt& g = *w->gates[(size_t)gi];
  if (g.t_set_begin != 0) return;
  g.t_set_begin = w->now();  // an awaiter resumed from now on is legitimate
  dsched::point();
  g.promise.set_value(g.value);
  g.t_set_end = w->now();
}

// ---------------------------------------------------------------------------------------------
void run_actor(int ai) {
  World* w = W;
  for (const ActOp& op : w->actors[(size_t)ai]) {
    switch (op.op) {
      case A_WAKE_ONE: do_wake(false); break;
      case A_WAKE_ALL: do_wake(true); break;
      case A_SETV: do_setv((uint64_t)op.arg); break;
      case A_YIELD: dsched::yield_point(); break;
      case A_LAUNCH:
        if (w->scenario == 0) launch_A(op.arg); else launch_B(op.arg);
        break;
      case A_SETGATE: do_setgate(op.arg); break;
      case A_CANCEL: {
        // prefer the named coroutine's token; fall back to any published token; give the waiters a
        // few chances to publish one before giving up
        int n = w->scenario == 0 ? (int)w->waiters.size() : (int)w->outers.size();
        int found = -1, found_wait = -1;
        for (int attempt = 0; attempt < 3 && found < 0; attempt++) {
          for (int pass = 0; pass < 2 && found < 0; pass++)  // pass 0: a wait still pending, pass 1: any (stale) token
            for (int d = 0; d < n && found < 0; d++) {
              int i = (op.arg + d) % n;
              int pub = w->scenario == 0 ? w->published[(size_t)i].load(std::memory_order_acquire)
                                         : w->btoken[(size_t)i].load(std::memory_order_acquire) - 1;
              if (pub < 0) continue;
              bool pending = w->scenario == 0 ? w->waits[(size_t)pub].t_resumed == 0 : w->orec[(size_t)i].resumed == 0;
              if (pending || pass == 1) { found = i; found_wait = pub; }
            }
          if (found < 0) dsched::yield_point();
        }
        if (found < 0) { dsched::label("cancel_no_token_yet"); break; }
        if (w->scenario == 0) do_cancel_A(found_wait, false);
        else do_cancel_B(found, false);
        break;
      }
    }
    dsched::point();
  }
}

void wait_idle() {
  World* w = W;
  std::unique_lock<std::mutex> lk(w->hub.mu);
  while (w->hub.outstanding != 0) w->hub.idle.wait(lk);
}

bool overlap(uint64_t b1, uint64_t e1, uint64_t b2, uint64_t e2) { return b1 < e2 && b2 < e1; }

void check_common_end() {
  World* w = W;
  for (size_t i = 0; i < w->co.size(); i++) {
    CoSt& st = w->co[i];
    if (!st.started) dsched::fail("harness", "%s never started", st.what);
    if (!st.done)
      dsched::fail("lost-resumption", "%s is still suspended although its wake condition occurred and everything is quiescent", st.what);
    if (st.running) dsched::fail("harness", "%s still marked running", st.what);
    if (st.live_frames != 0 || st.frames_destroyed != 1)
      dsched::fail("frame-lifetime", "%s: frame destroyed %d times, %d still alive at the end", st.what, st.frames_destroyed, st.live_frames);
  }
  for (size_t i = 0; i < w->futures.size(); i++) {
    if (!w->has_future[i]) continue;
    if (!w->futures[i].ready()) dsched::fail("lost-resumption", "result future of coroutine %zu not ready at the end", i);
    int got = w->futures[i].get();
    size_t ci = w->scenario == 0 ? i : i * 2;
    if (got != w->co[ci].result) dsched::fail("await-value", "execute() future of coroutine %zu holds %d, body returned %d", i, got, w->co[ci].result);
  }
}

// ---------------------------------------------------------------------------------------------
void run_A(Chooser& c) {
  World* w = W;
  uint64_t v0 = c.below(2);
  int nw = c.range(1, 4);
  int nact = c.range(1, 3);
  size_t nex = w->execs.size();
  w->waiters.resize((size_t)nw);
  w->co.resize((size_t)nw);
  w->futures.resize((size_t)nw);
  w->has_future.assign((size_t)nw, false);
  w->actors.resize((size_t)nact);
  dsched::describe("A futex v0=%lu;", (unsigned long)v0);
  static char names[8][24];
  for (int i = 0; i < nw; i++) {
    WaiterPlan& p = w->waiters[(size_t)i];
    p.exec = (int)c.below((uint32_t)nex);
    p.launcher = (int)c.below((uint32_t)nact + 1);
    p.via_execute = c.flip();
    int k = c.range(1, 2);
    dsched::describe(" W%d(E%d,by%d,%s)[", i, p.exec, p.launcher, p.via_execute ? "execute" : "submit");
    for (int j = 0; j < k; j++) {
      WaitPlan wp;
      wp.expected = c.chance(1, 4) ? 1 - v0 : v0;
      wp.cbmode = (int)c.below(4);
      if (wp.cbmode == 3) wp.cbmode = CB_PUBLISH;
      p.waits.push_back(wp);
      dsched::describe("%swait(%lu,%s)", j ? "," : "", (unsigned long)wp.expected, cb_name[wp.cbmode]);
      dsched::label(wp.cbmode == CB_NONE ? "wait_nocb" : wp.cbmode == CB_PUBLISH ? "wait_publish" : "wait_cancel_inside");
    }
    dsched::describe("]");
    snprintf(names[i], sizeof names[i], "futex waiter %d", i);
    w->co[(size_t)i].what = names[i];
    w->co[(size_t)i].exec = w->execs[(size_t)p.exec].get();
  }
  for (int a = 0; a < nact; a++) {
    int nops = c.range(1, 4);
    for (int j = 0; j < nops; j++) {
      static const AOp kinds[] = {A_WAKE_ONE, A_WAKE_ALL, A_CANCEL, A_WAKE_ONE, A_CANCEL, A_SETV, A_YIELD, A_WAKE_ALL};
      ActOp op{c.pick(kinds), 0};
      if (op.op == A_CANCEL) op.arg = (int)c.below((uint32_t)nw);
      if (op.op == A_SETV) op.arg = (int)c.below(2);
      w->actors[(size_t)a].push_back(op);
    }
  }
  for (int i = 0; i < nw; i++) {
    int l = w->waiters[(size_t)i].launcher;
    if (l == 0) continue;
    auto& ops = w->actors[(size_t)l - 1];
    size_t pos = c.below((uint32_t)ops.size() + 1);
    ops.insert(ops.begin() + (long)pos, ActOp{A_LAUNCH, i});
  }
  for (int a = 0; a < nact; a++) {
    dsched::describe(" T%d[", a + 1);
    for (size_t j = 0; j < w->actors[(size_t)a].size(); j++) {
      const ActOp& op = w->actors[(size_t)a][j];
      dsched::describe("%s%s", j ? "," : "", aop_name[op.op]);
      if (op.op == A_CANCEL || op.op == A_SETV || op.op == A_LAUNCH) dsched::describe("(%d)", op.arg);
    }
    dsched::describe("]");
  }

  uint32_t in_use0 = slots_in_use<FutexBox, FutexBoxTag>();
  do_setv(v0);
  for (int i = 0; i < nw; i++)
    if (w->waiters[(size_t)i].launcher == 0) launch_A(i);
  {
    std::vector<std::thread> th;
    for (int a = 0; a < nact; a++) th.emplace_back([a] { run_actor(a); });
    for (auto& t : th) t.join();
  }
  // final phase: no later wait can suspend (nobody expects 99), one wake_all must release everyone
  do_setv(99);
  do_wake(true);
  wait_idle();
  size_t final_wake = w->wakes.size() - 1;

  check_common_end();

  // (1) conservation: every suspended wait was resumed by exactly one wake or one successful cancel
  long suspended = 0, not_suspended = 0, woken = 0, cancelled = 0;
  for (auto& r : w->waits) {
    if (r.t_resumed == 0) dsched::fail("lost-resumption", "waiter %d wait %d never resumed", r.waiter, r.k);
    if (r.suspended) suspended++; else not_suspended++;
    if (r.suspended && r.cbmode != CB_NONE && r.t_cb_end == 0)
      dsched::fail("on-suspend", "waiter %d wait %d suspended but its on_suspend callback was never invoked", r.waiter, r.k);
    if (!r.suspended && r.cancel_true) dsched::fail("cancel-once", "cancel() returned true for a wait that never suspended");
  }
  for (auto& k : w->wakes) woken += k.ret;
  for (auto& k : w->cancels) cancelled += k.ret ? 1 : 0;
  if (woken + cancelled != suspended)
    dsched::fail("resume-once", "%ld waits suspended but wake_one/wake_all reported %ld resumptions and %ld cancels succeeded", suspended, woken,
                 cancelled);
  if (w->wakes.size() > final_wake + 1) dsched::fail("harness", "wake after final");

  // (2) wake_one == 0 / wake_all count vs. the waiters certainly queued and free throughout the call
  for (size_t x = 0; x < w->wakes.size(); x++) {
    const WakeRec& X = w->wakes[x];
    long cand = 0;
    for (auto& r : w->waits) {
      if (r.t_cb_end == 0 || r.t_cb_end > X.t_begin) continue;                      // not known to be queued before X began
      if (r.first_cancel_begin != 0 && r.first_cancel_begin < X.t_end) continue;  // being / been cancelled
      cand++;
    }
    long claims = 0;
    for (size_t y = 0; y < w->wakes.size(); y++)
      if (y != x && w->wakes[y].t_begin < X.t_end) claims += w->wakes[y].ret;
    long need = cand - claims;
    if (need <= 0) continue;
    if (!X.all && X.ret == 0) {
      bool f4_shape = false;
      for (auto& cr : w->cancels)
        if (cr.ret && overlap(cr.t_begin, cr.t_end, X.t_begin, X.t_end)) f4_shape = true;
      if (f4_shape && w->known.known_f4_wake_one_stops_at_cancelled_node()) {
        dsched::label("excluded_known_f4");
      } else {
        dsched::fail("wake-one-missed",
                     "wake_one returned 0 although %ld waiter(s) were queued before the call, not cancelled and not taken by any other wake "
                     "(%ld candidates, %ld claimed by other wakes)%s", need, cand, claims, f4_shape ? " [a successful cancel overlapped: F4 shape]" : "");
      }
    }
    if (X.all && X.ret < need)
      dsched::fail("wake-all-missed", "wake_all returned %d although at least %ld waiters were queued, not cancelled and not taken by other wakes",
                   X.ret, need);
  }

  // (3) no per-wait bookkeeping left behind
  uint32_t in_use1 = slots_in_use<FutexBox, FutexBoxTag>();
  long leaked = (long)in_use1 - (long)in_use0;
  long tolerated = w->known.known_f3_nonmatching_wait_leaks_slot() ? not_suspended : 0;
  if (leaked != tolerated) {
    dsched::fail("slot-leak", "%ld DepositBox<Futex::Node> slot(s) still allocated after the case (%u -> %u); %ld waits did not suspend, %ld suspended",
                 leaked, in_use0, in_use1, not_suspended, suspended);
  }
  if (leaked > 0) dsched::label_n("excluded_known_f3", (uint32_t)leaked);

  // labels / NT
  bool cancel_overlaps_wake = false, slot_reused = false, wait_overlaps_wake = false;
  for (auto& cr : w->cancels)
    for (auto& k : w->wakes)
      if (overlap(cr.t_begin, cr.t_end, k.t_begin, k.t_end)) cancel_overlaps_wake = true;
  for (size_t i = 0; i < w->waits.size(); i++)
    for (size_t j = i + 1; j < w->waits.size(); j++)
      if (w->waits[i].has_token && w->waits[j].has_token && (uint32_t)w->waits[i].bits == (uint32_t)w->waits[j].bits) slot_reused = true;
  for (auto& r : w->waits)
    for (auto& k : w->wakes) {
      // the end of the registration is observable only through the callback; with the default gate this
      // happens for waits registered inside a wake call (coroutine resumed inline by that very wake)
      if (r.t_cb_begin && overlap(r.t_enter, r.t_cb_begin, k.t_begin, k.t_end)) wait_overlaps_wake = true;
    }
  if (cancel_overlaps_wake) dsched::label("cancel_overlaps_wake");
  if (slot_reused) dsched::label("slot_reused");
  if (wait_overlaps_wake) dsched::label("registration_overlaps_wake");
  if (suspended) dsched::label("some_suspended");
  if (not_suspended) dsched::label("some_not_suspended");
  if (cancel_overlaps_wake || slot_reused || wait_overlaps_wake) dsched::nontrivial();
  for (auto& r : w->waits) dsched::mix_hash(((uint64_t)r.waiter << 8) ^ ((uint64_t)r.suspended << 4) ^ (uint64_t)r.cancel_true ^ (r.t_resumed << 16));
  for (auto& k : w->wakes) dsched::mix_hash((uint64_t)k.ret * 131 + k.t_begin);
}

// ---------------------------------------------------------------------------------------------
void run_BC(Chooser& c, bool cancellable) {
  World* w = W;
  int no = c.range(1, 3);
  int nact = c.range(1, 3);
  size_t nex = w->execs.size();
  w->outers.resize((size_t)no);
  w->orec.resize((size_t)no);
  w->co.resize((size_t)no * 2);
  w->futures.resize((size_t)no);
  w->has_future.assign((size_t)no, false);
  w->actors.resize((size_t)nact);
  int ngates = c.range(1, 2);
  for (int g = 0; g < ngates; g++) {
    w->gates.emplace_back(new GateSt());
    w->gates.back()->future = w->gates.back()->promise.get_future();
    w->gates.back()->value = 100 * (g + 1);
  }
  dsched::describe("%s gates=%d;", cancellable ? "B cancellable" : "C chain", ngates);
  static char names[8][32];
  for (int i = 0; i < no; i++) {
    OuterPlan& p = w->outers[(size_t)i];
    p.cancellable = cancellable;
    p.exec = (int)c.below((uint32_t)nex);
    int ie = (int)c.below((uint32_t)nex + 1);
    p.inner_exec = ie == 0 ? p.exec : ie - 1;  // raw 0: same executor
    p.inner_kind = (int)c.below(3);
    p.inner_kind = p.inner_kind == 0 ? 1 : p.inner_kind == 1 ? 0 : 2;  // raw 0: awaits a gate by value
    p.gate = (int)c.below((uint32_t)ngates);
    p.cbmode = cancellable ? (int)c.below(3) : CB_NONE;
    if (cancellable && p.cbmode == 0) p.cbmode = CB_PUBLISH; else if (cancellable && p.cbmode == 1) p.cbmode = CB_NONE;
    p.launcher = (int)c.below((uint32_t)nact + 1);
    p.via_execute = c.flip();
    // an inner task without its own executor is legal only if nothing inside it resumes through
    // BasicPromise::resume (a null executor would be dereferenced): only the immediate kind
    if (p.inner_kind == 0 && c.chance(1, 2)) p.inner_exec = -1;
    // plain `co_await task` inherits the awaiter's executor when none is set: also legal there
    if (!cancellable && p.inner_exec == -1) dsched::label("inner_inherits_executor");
    dsched::describe(" O%d(E%d,inner E%d,%s,g%d,cb=%s,by%d,%s)", i, p.exec, p.inner_exec,
                     p.inner_kind == 0 ? "immediate" : p.inner_kind == 1 ? "future" : "shared-future", p.gate, cb_name[p.cbmode], p.launcher,
                     p.via_execute ? "execute" : "submit");
    snprintf(names[i * 2], sizeof names[0], "outer %d", i);
    snprintf(names[i * 2 + 1], sizeof names[0], "inner %d", i);
    w->co[(size_t)i * 2].what = names[i * 2];
    w->co[(size_t)i * 2 + 1].what = names[i * 2 + 1];
    w->co[(size_t)i * 2].exec = w->execs[(size_t)p.exec].get();
    // an inner task that inherits (chain) or has no executor at all (cancellable proxy) runs where its awaiter runs
    w->co[(size_t)i * 2 + 1].exec = w->execs[(size_t)(p.inner_exec >= 0 ? p.inner_exec : p.exec)].get();
    dsched::label(p.inner_kind == 0 ? "inner_immediate" : p.inner_kind == 1 ? "inner_future" : "inner_shared_future");
    if (cancellable) dsched::label(p.cbmode == CB_NONE ? "cb_none" : p.cbmode == CB_PUBLISH ? "cb_publish" : "cb_cancel_inside");
    if (p.inner_exec >= 0 && p.inner_exec != p.exec) dsched::label("cross_executor");
  }
  for (int a = 0; a < nact; a++) {
    int nops = c.range(1, 4);
    for (int j = 0; j < nops; j++) {
      static const AOp kb[] = {A_CANCEL, A_CANCEL, A_CANCEL, A_YIELD};
      static const AOp kc[] = {A_YIELD, A_YIELD};
      ActOp op{cancellable ? c.pick(kb) : c.pick(kc), 0};
      if (op.op == A_CANCEL) op.arg = (int)c.below((uint32_t)no);
      w->actors[(size_t)a].push_back(op);
    }
  }
  // each gate is completed exactly once: by an actor at a random position, or by main at the end
  for (int g = 0; g < ngates; g++) {
    int who = (int)c.below((uint32_t)nact + 1);
    if (who == 0) who = 1;  // raw 0: first actor
    else if (c.chance(1, 6)) continue;  // left to main
    auto& ops = w->actors[(size_t)who - 1];
    size_t pos = c.below((uint32_t)ops.size() + 1);
    ops.insert(ops.begin() + (long)pos, ActOp{A_SETGATE, g});
  }
  for (int i = 0; i < no; i++) {
    int l = w->outers[(size_t)i].launcher;
    if (l == 0) continue;
    auto& ops = w->actors[(size_t)l - 1];
    size_t pos = c.below((uint32_t)ops.size() + 1);
    ops.insert(ops.begin() + (long)pos, ActOp{A_LAUNCH, i});
  }
  for (int a = 0; a < nact; a++) {
    dsched::describe(" T%d[", a + 1);
    for (size_t j = 0; j < w->actors[(size_t)a].size(); j++) {
      const ActOp& op = w->actors[(size_t)a][j];
      dsched::describe("%s%s", j ? "," : "", aop_name[op.op]);
      if (op.op == A_CANCEL || op.op == A_SETGATE || op.op == A_LAUNCH) dsched::describe("(%d)", op.arg);
    }
    dsched::describe("]");
  }

  uint32_t in_use0 = slots_in_use<CancelBox, CancelBoxTag>();
  for (int i = 0; i < no; i++)
    if (w->outers[(size_t)i].launcher == 0) launch_B(i);
  {
    std::vector<std::thread> th;
    for (int a = 0; a < nact; a++) th.emplace_back([a] { run_actor(a); });
    for (auto& t : th) t.join();
  }
  for (int g = 0; g < ngates; g++) do_setgate(g);
  wait_idle();

  check_common_end();
  bool nt = false;
  for (int i = 0; i < no; i++) {
    const OuterPlan& p = w->outers[(size_t)i];
    OuterRec& r = w->orec[(size_t)i];
    if (r.resumed != 1) dsched::fail("resume-once", "outer %d resumed %d times", i, r.resumed);
    if (p.inner_kind != 0 && r.inner_resumed != 1)
      dsched::fail("resume-once", "inner %d resumed %d times from its future", i, r.inner_resumed);
    if (cancellable) {
      if (r.has_value == (r.cancel_true > 0))
        dsched::fail("cancel-iff-empty", "outer %d: result is %s but %d cancel() call(s) returned true (of %d)", i, r.has_value ? "a value" : "empty",
                     r.cancel_true, r.cancel_calls);
      if (p.cbmode != CB_NONE && r.t_cb_end == 0) dsched::fail("on-suspend", "outer %d: on_suspend callback never invoked", i);
      dsched::label(r.has_value ? "result_value" : "result_cancelled");
      GateSt& g = *w->gates[(size_t)p.gate];
      for (auto& cr : w->ccancels)
        if (cr.outer == i && !cr.inside && p.inner_kind != 0 && overlap(cr.t_begin, cr.t_end, g.t_set_begin, g.t_set_end + 1)) {
          dsched::label("cancel_overlaps_completion");
          nt = true;
        }
      for (auto& cr : w->ccancels)
        if (cr.outer == i && !cr.inside && r.t_inner_resumed && cr.t_begin < r.t_resumed && cr.t_end > r.t_inner_resumed) {
          dsched::label("cancel_overlaps_inner_finish");
          nt = true;
        }
    } else if (!r.has_value) {
      dsched::fail("await-value", "outer %d got no value from a plain task await", i);
    }
    if (p.inner_kind != 0) {
      GateSt& g = *w->gates[(size_t)p.gate];
      // completion overlapped the awaiter's registration window [await began, resumed]
      if (!r.inner_ready_at_await && g.t_set_begin < r.t_inner_resumed && g.t_set_begin > r.t_inner_await) {
        dsched::label("completion_after_await_began");
        if (dsched::stat_switches() >= 2) nt = true;
      }
      if (r.inner_ready_at_await) dsched::label("future_ready_at_await");
    }
    dsched::mix_hash(((uint64_t)r.has_value << 1) ^ ((uint64_t)r.cancel_true << 2) ^ (r.t_resumed << 8) ^ (r.t_inner_resumed << 24));
  }
  uint32_t in_use1 = slots_in_use<CancelBox, CancelBoxTag>();
  if (in_use1 != in_use0)
    dsched::fail("slot-leak", "DepositBox<BasicCancellable*> slots in use changed %u -> %u over the case", in_use0, in_use1);
  if (nt) dsched::nontrivial();
}

// ---------------------------------------------------------------------------------------------
void run_case(Chooser& c) {
  World world;
  W = &world;
  for (auto& a : world.published) a.store(-1, std::memory_order_relaxed);
  for (auto& a : world.btoken) a.store(0, std::memory_order_relaxed);
  tl_serial = 0;
  tl_gate_owned = false;
  tl_gate_wait = -1;
  world.known.parse(getenv("VF_ALLOW_KNOWN"));

  int scen = (int)c.below(10);
  world.scenario = scen < 6 ? 0 : scen < 8 ? 1 : 2;
  int npools = c.range(0, 2);
  world.execs.emplace_back(new InlineEx());
  for (int i = 0; i < npools; i++) {
    PoolEx* p = new PoolEx();
    world.execs.emplace_back(p);
    world.pools.push_back(p);
  }
  for (size_t i = 0; i < world.execs.size(); i++) {
    world.execs[i]->hub = &world.hub;
    world.execs[i]->index = (int)i;
  }
  dsched::describe("pools=%d[", npools);
  for (auto* p : world.pools) {
    int nwk = c.range(1, 2);
    p->start(nwk);
    dsched::describe("%d", nwk);
  }
  dsched::describe("] ");
  dsched::label(world.scenario == 0 ? "scenario_futex" : world.scenario == 1 ? "scenario_cancellable" : "scenario_chain");

  if (world.scenario == 0) run_A(c);
  else run_BC(c, world.scenario == 1);

  {
    std::lock_guard<std::mutex> lk(world.hub.mu);
    world.hub.stop = true;
  }
  for (auto* p : world.pools) p->join();
  world.futures.clear();
  W = nullptr;
}

void tune(dsched::Params& p, Chooser&) { p.max_steps = 300000; }

}  // namespace

int main(int argc, char** argv) {
  vf::Target t;
  t.name = "c13_coroutine";
  t.property_id = "C13";
  t.run_case = run_case;
  t.tune = tune;
  t.nontrivial_rule =
      "a cancel overlapped a wake on the same futex, or a wait's registration overlapped a wake, or a deposit-box slot was reused, "
      "or a completion (set_value / cancel) overlapped the awaiter's registration or the inner task's finish";
  return vf::main_driver(argc, argv, t);
}
