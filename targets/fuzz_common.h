// Shared by the libFuzzer (E2) targets: evidence counters written to the file
// named by VF_STATS_FILE, an oracle-failure macro that dumps the decoded case
// before trapping, and a small structured decoder over the fuzzer's bytes.
#pragma once
#include <stdarg.h>
#include <stdint.h>
#include <stdio.h>
#include <stdlib.h>
#include <string.h>

#include <map>
#include <set>
#include <string>
#include <vector>

namespace vfz {

struct Stats {
  uint64_t cases = 0;
  uint64_t nontrivial_cases = 0;
  std::set<uint64_t> distinct;
  std::map<std::string, uint64_t> labels;
  std::vector<std::string> samples;
  std::string rule;
  bool registered = false;
};
inline Stats& stats() {
  static Stats* s = new Stats();  // leaked on purpose: must survive static destruction
  return *s;
}

inline std::string jstr(const std::string& s) {
  std::string o = "\"";
  for (unsigned char c : s) {
    if (c == '"' || c == '\\') { o += '\\'; o += (char)c; }
    else if (c == '\n') o += "\\n";
    else if (c < 0x20 || c >= 0x7f) { char b[8]; snprintf(b, sizeof b, "\\u%04x", c); o += b; }
    else o += (char)c;
  }
  return o + "\"";
}

inline void flush_stats() {
  const char* path = getenv("VF_STATS_FILE");
  if (!path) return;
  Stats& s = stats();
  FILE* f = fopen(path, "w");
  if (!f) return;
  fprintf(f, "{\"cases\":%llu,\"nontrivial_cases\":%llu,\"rule\":%s,\"distinct_nontrivial_hashes\":[", (unsigned long long)s.cases,
          (unsigned long long)s.nontrivial_cases, jstr(s.rule).c_str());
  size_t i = 0;
  for (uint64_t h : s.distinct) {
    if (i >= 200000) break;
    fprintf(f, "%s\"%llx\"", i ? "," : "", (unsigned long long)h);
    i++;
  }
  fprintf(f, "],\"distinct_nontrivial\":%zu,\"labels\":{", s.distinct.size());
  i = 0;
  for (auto& l : s.labels) fprintf(f, "%s%s:%llu", i++ ? "," : "", jstr(l.first).c_str(), (unsigned long long)l.second);
  fprintf(f, "},\"samples\":[");
  for (i = 0; i < s.samples.size(); i++) fprintf(f, "%s%s", i ? "," : "", jstr(s.samples[i]).c_str());
  fprintf(f, "]}\n");
  fclose(f);
}

inline void begin_case(const char* rule) {
  Stats& s = stats();
  if (!s.registered) {
    s.registered = true;
    s.rule = rule;
    atexit(flush_stats);
  }
  s.cases++;
  if ((s.cases & 0xFFF) == 0) flush_stats();
}
inline void label(const char* name) { stats().labels[name]++; }
inline void nontrivial(uint64_t case_hash, const std::string& sample) {
  Stats& s = stats();
  s.nontrivial_cases++;
  if (s.distinct.size() < 2000000 && s.distinct.insert(case_hash).second && s.samples.size() < 4) s.samples.push_back(sample);
}

inline uint64_t hash_bytes(const uint8_t* d, size_t n) {
  uint64_t h = 0xcbf29ce484222325ULL;
  for (size_t i = 0; i < n; i++) h = (h ^ d[i]) * 0x100000001b3ULL;
  return h;
}

[[noreturn]] inline void fail(const std::string& described_case, const char* fmt, ...) __attribute__((format(printf, 2, 3)));
inline void fail(const std::string& described_case, const char* fmt, ...) {
  char buf[4096];
  va_list ap;
  va_start(ap, fmt);
  vsnprintf(buf, sizeof buf, fmt, ap);
  va_end(ap);
  fprintf(stderr, "\nORACLE-FAIL: %s\nCASE: %s\n", buf, described_case.c_str());
  fflush(stderr);
  flush_stats();
  __builtin_trap();
}

// Structured decoder: like FuzzedDataProvider but every read succeeds (0 at the end).
struct Dec {
  const uint8_t* p;
  size_t n, i = 0;
  Dec(const uint8_t* d, size_t s) : p(d), n(s) {}
  bool done() const { return i >= n; }
  uint8_t u8() { return i < n ? p[i++] : 0; }
  uint16_t u16() { uint16_t a = u8(); return (uint16_t)(a | (u8() << 8)); }
  uint32_t u32() { uint32_t a = u16(); return a | ((uint32_t)u16() << 16); }
  uint64_t u64() { uint64_t a = u32(); return a | ((uint64_t)u32() << 32); }
  uint32_t below(uint32_t m) { return m <= 1 ? 0 : (m <= 256 ? u8() % m : u32() % m); }
  int range(int lo, int hi) { return lo + (int)below((uint32_t)(hi - lo + 1)); }
  bool flip() { return u8() & 1; }
  std::string bytes(size_t maxlen) {
    size_t len = below((uint32_t)maxlen + 1);
    std::string s;
    for (size_t k = 0; k < len && i < n; k++) s += (char)p[i++];
    return s;
  }
};

}  // namespace vfz
