#!/usr/bin/env python3
"""Deterministic seed corpora for the C06/C12 libFuzzer targets (random op streams of realistic length:
libFuzzer's length control would otherwise spend the quick tier on 1-8 byte inputs)."""
import os, random, sys
root = os.path.dirname(os.path.dirname(os.path.abspath(__file__)))
spec = {"c06_resource": (512, 48), "c12_vector": (384, 64), "c12_string": (384, 32), "c12_manager": (384, 48)}
for name, (max_len, n) in spec.items():
    d = os.path.join(root, "corpus", name)
    os.makedirs(d, exist_ok=True)
    rnd = random.Random(hash(name) % 1000 if False else sum(map(ord, name)))
    for i in range(n):
        ln = rnd.choice([48, 96, 160, 256, max_len])
        data = bytearray(rnd.randrange(256) for _ in range(ln))
        if name == "c12_vector":
            data[0] = i % 8          # every element type
        if name == "c06_resource":
            data[0] = i % 5          # every page size
            data[1] = (i // 5) % 5
        with open(os.path.join(d, "seed-%02d" % i), "wb") as f:
            f.write(bytes(data))
