// Shared by the three C11 (serialization) libFuzzer targets: the harness-declared type family,
// a constructive value generator over vfz::Dec, the equality the property text defines
// (floats bitwise; a smart pointer to a value whose encoding is empty reads back as null),
// a harness-side model of "the encoding of this value is empty", and every way of presenting
// bytes to / collecting bytes from babylon::Serialization.
#pragma once
#include <babylon/reusable/string.h>
#include <babylon/reusable/vector.h>
#include <babylon/serialization.h>
#include <google/protobuf/io/zero_copy_stream_impl_lite.h>
#include <google/protobuf/stubs/logging.h>

#include <sanitizer/allocator_interface.h>
#include <signal.h>
#include <sys/time.h>
#include <unistd.h>

#include <list>
#include <memory>
#include <string>
#include <tuple>
#include <type_traits>
#include <unordered_map>
#include <unordered_set>
#include <vector>

#include "fuzz_common.h"
#include "known.h"
#include "proto/c11_compat.pb.h"

namespace c11 {

using babylon::Serialization;
using babylon::SwissAllocator;
using babylon::SwissMemoryResource;
using babylon::SwissString;
using babylon::SwissVector;
namespace pbio = ::google::protobuf::io;

// known findings are excluded from generation by default
// A witness file of a known finding starts with the 8 bytes "C11KNOWN": for that one input every
// known_* exclusion is off, so `<target binary> <witness>` fails on a tree that still has the
// defect. The prefix is recognised by hash, not by comparison, so that the fuzzer's comparison
// tracing cannot synthesise it and walk back into the excluded shapes.
inline bool& witness_mode() {
  static bool v = false;
  return v;
}
inline void strip_witness_prefix(const uint8_t*& data, size_t& size) {
  witness_mode() = false;
  if (size >= 8 && vfz::hash_bytes(data, 8) == 0x696a0fbee7fb7a3fULL) {
    witness_mode() = true;
    data += 8;
    size -= 8;
  }
}
// tokens (targets/known.h: VF_ALLOW_KNOWN=1 or a comma-separated list re-enables the shapes):
//   f5                        top-level / hostile-length vector on a limit-less stream (DESIGN.md F5)
//   c11-stale-field-cache     per-field cached size not refreshed when the member became empty
//   c11-null-scalar-ptr-elem  null smart pointer to a scalar as a container / array element
//   c11-no-progress           container of length-delimited elements never advances on an unreadable length
inline bool allow_known(const char* token) { return witness_mode() || vf_allow_known(token); }
// protobuf logs "invalid UTF-8" for proto2 string fields in debug builds: keep the shard logs readable
inline void quiet_protobuf() {
  static const bool once = (::google::protobuf::SetLogHandler(nullptr), true);
  (void)once;
}

// Termination oracle. The runner counts libFuzzer's own timeout-/oom- artifacts as load noise, so
// "the call does not return" must become an oracle failure of its own. Two load-independent
// detectors guard a call while a Watchdog object lives:
//  * allocator hooks: one allocation of >= 256 MiB, or more than 2 million allocations, while
//    parsing an input of at most a few KiB (every element / node costs at least one input byte,
//    so neither can happen in a parse that makes progress);
//  * a budget of user-mode CPU time (ITIMER_VIRTUAL: neither wall clock nor kernel time, which
//    both explode on a loaded machine) far above what any generated case needs, for loops that
//    spin without allocating.
// The handlers only use write(2): the interrupted code may hold the allocator lock.
class Watchdog {
 public:
  Watchdog(const std::string& described_case, int cpu_seconds) {
    static bool installed = false;
    if (!installed) {
      installed = true;
      struct sigaction sa;
      memset(&sa, 0, sizeof sa);
      sa.sa_handler = &Watchdog::expired;
      sigaction(SIGVTALRM, &sa, nullptr);
      __sanitizer_install_malloc_and_free_hooks(&Watchdog::on_malloc, &Watchdog::on_free);
    }
    snprintf(text(), 4096, "CASE: %s\n", described_case.c_str());
    seconds() = cpu_seconds;
    allocations() = 0;
    armed() = true;
    arm(cpu_seconds);
  }
  ~Watchdog() {
    armed() = false;
    arm(0);
  }
  static constexpr size_t MAX_ALLOCATION = 256u << 20;
  static constexpr size_t MAX_ALLOCATIONS = 2000000;

 private:
  static char* text() {
    static char buf[4096];
    return buf;
  }
  static volatile bool& armed() {
    static volatile bool v = false;
    return v;
  }
  static int& seconds() {
    static int v = 0;
    return v;
  }
  static size_t& allocations() {
    static size_t v = 0;
    return v;
  }
  static void arm(int secs) {
    struct itimerval t;
    memset(&t, 0, sizeof t);
    t.it_value.tv_sec = secs;
    setitimer(ITIMER_VIRTUAL, &t, nullptr);
  }
  [[noreturn]] static void die(const char* what) {
    armed() = false;
    char head[256];
    int n = snprintf(head, sizeof head, "\nORACLE-FAIL: termination: %s\n", what);
    ssize_t r = write(2, head, (size_t)n);
    r = write(2, text(), strlen(text()));
    (void)r;
    __builtin_trap();
  }
  static void expired(int) {
    if (!armed()) return;
    char what[128];
    snprintf(what, sizeof what, "the call did not return within %d s of user CPU time", seconds());
    die(what);
  }
  static void on_malloc(const volatile void*, size_t size) {
    if (!armed()) return;
    if (size >= MAX_ALLOCATION) {
      char what[160];
      snprintf(what, sizeof what, "no progress: the call asks for one allocation of %zu bytes (input of at most a few KiB)", size);
      die(what);
    }
    if (++allocations() > MAX_ALLOCATIONS) die("no progress: the call made more than 2000000 allocations (input of at most a few KiB)");
  }
  static void on_free(const volatile void*) {}
};

// ---------------------------------------------------------------------------------------------
// byte presentations
// ---------------------------------------------------------------------------------------------
// chunk pattern: up to 4 chunk sizes 0..7, cycled; a zero-sized chunk is legal for a
// ZeroCopy stream as long as a non-empty one eventually follows
struct Pattern {
  int sz[4] = {1, 1, 1, 1};
  int n = 1;
  std::string str() const {
    std::string s = "[";
    for (int i = 0; i < n; i++) s += (i ? "," : "") + std::to_string(sz[i]);
    return s + "]";
  }
};
inline Pattern decode_pattern(vfz::Dec& d) {
  Pattern p;
  uint8_t a = d.u8();
  p.n = 1 + (a & 3);
  bool nonzero = false;
  for (int i = 0; i < p.n; i++) {
    p.sz[i] = d.u8() % 8;
    nonzero |= p.sz[i] != 0;
  }
  if (!nonzero) p.sz[0] = 1 + (a >> 2) % 7;
  return p;
}

// every chunk handed out is its own heap block of exactly the chunk size, so an access past a
// chunk is an ASan report
class ChunkedInput : public pbio::ZeroCopyInputStream {
 public:
  // long inputs get proportionally longer chunks (a few hundred chunks at most per pass)
  ChunkedInput(const std::string& data, const Pattern& p) : _data(data), _p(p), _scale(1 + (int)(data.size() / 256)) {}
  bool Next(const void** data, int* size) override {
    if (_pos >= _data.size()) return false;
    int want = _p.sz[_k++ % _p.n] * _scale;
    size_t n = std::min((size_t)want, _data.size() - _pos);
    _block.reset(new char[n]);
    memcpy(_block.get(), _data.data() + _pos, n);
    _pos += n;
    _last = (int)n;
    *data = _block.get();
    *size = (int)n;
    return true;
  }
  void BackUp(int count) override {
    if (count < 0 || count > _last) vfz::fail("stream", "BackUp(%d) after a chunk of %d bytes", count, _last);
    // re-present the tail of the last chunk as the next chunk
    _pos -= (size_t)count;
    _last = 0;
  }
  bool Skip(int count) override {
    if (count < 0) vfz::fail("stream", "Skip(%d)", count);
    _last = 0;
    if ((size_t)count > _data.size() - _pos) {
      _pos = _data.size();
      return false;
    }
    _pos += (size_t)count;
    return true;
  }
  int64_t ByteCount() const override { return (int64_t)_pos; }

 private:
  const std::string& _data;
  Pattern _p;
  int _scale;
  size_t _pos = 0;
  unsigned _k = 0;
  int _last = 0;
  std::unique_ptr<char[]> _block;
};

class ChunkedOutput : public pbio::ZeroCopyOutputStream {
 public:
  // blocks grow with the output so that a long encoding takes a few hundred blocks at most
  explicit ChunkedOutput(const Pattern& p) : _p(p) {}
  bool Next(void** data, int* size) override {
    commit();
    int want = _p.sz[_k++ % _p.n] * (1 + (int)(_out.size() / 128));
    _block.reset(new char[(size_t)want]);
    memset(_block.get(), 0xCD, (size_t)want);
    _used = want;
    *data = _block.get();
    *size = want;
    return true;
  }
  void BackUp(int count) override {
    if (count < 0 || count > _used) vfz::fail("stream", "output BackUp(%d) after a block of %d bytes", count, _used);
    _used -= count;
  }
  int64_t ByteCount() const override { return (int64_t)_out.size() + _used; }
  const std::string& finish() {
    commit();
    return _out;
  }

 private:
  void commit() {
    if (_block) _out.append(_block.get(), (size_t)_used);
    _block.reset();
    _used = 0;
  }
  Pattern _p;
  unsigned _k = 0;
  int _used = 0;
  std::unique_ptr<char[]> _block;
  std::string _out;
};

enum InKind { IN_STRING = 0, IN_ARRAY, IN_STREAM_LIMIT, IN_STREAM_NOLIMIT, IN_ARRAYSTREAM_LIMIT, IN_ARRAYSTREAM_NOLIMIT, IN_KINDS };
inline const char* in_name(int k) {
  static const char* n[] = {"parse_from_string", "parse_from_array", "chunked-stream+limit", "chunked-stream/no-limit",
                            "ArrayInputStream(block)+limit", "ArrayInputStream(block)/no-limit"};
  return n[k];
}
inline bool in_is_unlimited_stream(int k) { return k == IN_STREAM_NOLIMIT || k == IN_ARRAYSTREAM_NOLIMIT; }

template <class T>
bool parse_with(int kind, const Pattern& p, const std::string& bytes, T& out) {
  switch (kind) {
    case IN_STRING:
      return Serialization::parse_from_string(bytes, out);
    case IN_ARRAY: {
      // exact-size heap copy (no terminating NUL): an overread is an ASan report
      std::unique_ptr<char[]> copy(new char[bytes.size()]);
      memcpy(copy.get(), bytes.data(), bytes.size());
      return Serialization::parse_from_array(copy.get(), bytes.size(), out);
    }
    case IN_STREAM_LIMIT:
    case IN_STREAM_NOLIMIT: {
      ChunkedInput in(bytes, p);
      pbio::CodedInputStream cis(&in);
      if (kind == IN_STREAM_LIMIT) {
        auto lim = cis.PushLimit((int)bytes.size());
        bool ok = Serialization::parse_from_coded_stream(cis, out);
        cis.PopLimit(lim);
        return ok;
      }
      return Serialization::parse_from_coded_stream(cis, out);
    }
    default: {
      int block = 1 + (p.sz[0] + p.n) % 7;
      pbio::ArrayInputStream in(bytes.data(), (int)bytes.size(), block);
      pbio::CodedInputStream cis(&in);
      if (kind == IN_ARRAYSTREAM_LIMIT) {
        auto lim = cis.PushLimit((int)bytes.size());
        bool ok = Serialization::parse_from_coded_stream(cis, out);
        cis.PopLimit(lim);
        return ok;
      }
      return Serialization::parse_from_coded_stream(cis, out);
    }
  }
}

enum OutKind { OUT_STRING = 0, OUT_ARRAY_CACHED, OUT_STREAM, OUT_STREAM_CACHED, OUT_KINDS };
inline const char* out_name(int k) {
  static const char* n[] = {"serialize_to_string", "serialize_to_array_with_cached_size", "serialize_to_coded_stream(chunked)",
                            "serialize_to_coded_stream_with_cached_size(chunked)"};
  return n[k];
}
// returns false when babylon reported failure; `predicted` receives calculate_serialized_size.
// The two entry points that size the value themselves are called WITHOUT a preceding
// calculate_serialized_size (the prediction is taken afterwards, from the unmodified object), so
// whatever the cached sizes hold from earlier use is what they start from.
template <class T>
bool serialize_with(int kind, const Pattern& p, const T& v, std::string& bytes, size_t& predicted) {
  switch (kind) {
    case OUT_STRING: {
      bool ok = Serialization::serialize_to_string(v, bytes);
      predicted = Serialization::calculate_serialized_size(v);
      return ok;
    }
    case OUT_ARRAY_CACHED: {
      predicted = Serialization::calculate_serialized_size(v);
      std::unique_ptr<char[]> buf(new char[predicted]);  // exact: one byte too many is an ASan report or HadError
      bool ok = Serialization::serialize_to_array_with_cached_size(v, buf.get(), predicted);
      bytes.assign(buf.get(), predicted);
      return ok;
    }
    default: {
      if (kind == OUT_STREAM_CACHED) predicted = Serialization::calculate_serialized_size(v);
      ChunkedOutput out(p);
      bool ok;
      {
        pbio::CodedOutputStream cos(&out);
        ok = kind == OUT_STREAM ? Serialization::serialize_to_coded_stream(v, cos)
                                : Serialization::serialize_to_coded_stream_with_cached_size(v, cos);
        cos.Trim();
        ok = ok && !cos.HadError();
      }
      bytes = out.finish();
      if (kind == OUT_STREAM) predicted = Serialization::calculate_serialized_size(v);
      return ok;
    }
  }
}

// ---------------------------------------------------------------------------------------------
// type classification
// ---------------------------------------------------------------------------------------------
template <class T> struct is_seq : std::false_type {};
template <class T, class A> struct is_seq<std::vector<T, A>> : std::true_type {};
template <class T, class A> struct is_seq<std::list<T, A>> : std::true_type {};
template <class T, class A> struct is_seq<babylon::ReusableVector<T, A>> : std::true_type {};
template <class A> struct is_seq<std::vector<bool, A>> : std::false_type {};
template <class T> struct is_vbool : std::false_type {};
template <class A> struct is_vbool<std::vector<bool, A>> : std::true_type {};
template <class T> struct is_set : std::false_type {};
template <class T, class H, class E, class A> struct is_set<std::unordered_set<T, H, E, A>> : std::true_type {};
template <class T> struct is_map : std::false_type {};
template <class K, class V, class H, class E, class A> struct is_map<std::unordered_map<K, V, H, E, A>> : std::true_type {};
template <class T> struct is_ptr : std::false_type {};
template <class T> struct is_ptr<std::unique_ptr<T>> : std::true_type {};
template <class T> struct is_ptr<std::shared_ptr<T>> : std::true_type {};
template <class T> struct is_str : std::false_type {};
template <class CT, class A> struct is_str<std::basic_string<char, CT, A>> : std::true_type {};
template <class CT, class R> struct is_str<babylon::MonotonicBasicString<char, CT, R>> : std::true_type {};
template <class T> constexpr bool is_msg = std::is_base_of<::google::protobuf::MessageLite, T>::value;
template <class T> concept Aggregate = requires(T& t) { t.vf_tie(); };
template <class T> constexpr bool is_scalar_kind = std::is_arithmetic<T>::value || std::is_enum<T>::value;

// does babylon give T the length-delimited wire type (everything except scalars and smart pointers to them)
template <class T> struct is_ld : std::bool_constant<!is_scalar_kind<T>> {};
template <class T> struct is_ld<std::unique_ptr<T>> : is_ld<T> {};
template <class T> struct is_ld<std::shared_ptr<T>> : is_ld<T> {};

// F5: the top-level deserialize of T asks BytesUntilLimit(): std::vector, std::vector<bool>,
// ReusableVector, and smart pointers to them
template <class T> struct f5_affected : std::false_type {};
template <class T, class A> struct f5_affected<std::vector<T, A>> : std::true_type {};
template <class T, class A> struct f5_affected<babylon::ReusableVector<T, A>> : std::true_type {};
template <class T> struct f5_affected<std::unique_ptr<T>> : f5_affected<T> {};
template <class T> struct f5_affected<std::shared_ptr<T>> : f5_affected<T> {};
// ... and reserve()s from that -1: std::vector<float/double>
template <class T> struct f5_reserves : std::false_type {};
template <class A> struct f5_reserves<std::vector<float, A>> : std::true_type {};
template <class A> struct f5_reserves<std::vector<double, A>> : std::true_type {};
template <class T> struct f5_reserves<std::unique_ptr<T>> : f5_reserves<T> {};
template <class T> struct f5_reserves<std::shared_ptr<T>> : f5_reserves<T> {};

// ... also below the root: does the parser of T reach a std::vector<float/double>
template <class T> constexpr bool f5_reserve_reach();
template <class Tuple, size_t... I>
constexpr bool f5_reserve_reach_tuple(std::index_sequence<I...>) {
  return (f5_reserve_reach<typename std::remove_cv<typename std::remove_reference<typename std::tuple_element<I, Tuple>::type>::type>::type>() || ...);
}
template <class T>
constexpr bool f5_reserve_reach() {
  if constexpr (f5_reserves<T>::value) {
    return true;
  } else if constexpr (is_seq<T>::value || is_set<T>::value) {
    return f5_reserve_reach<typename T::value_type>();
  } else if constexpr (is_map<T>::value) {
    return f5_reserve_reach<typename T::key_type>() || f5_reserve_reach<typename T::mapped_type>();
  } else if constexpr (is_ptr<T>::value) {
    return f5_reserve_reach<typename std::remove_const<typename T::element_type>::type>();
  } else if constexpr (std::is_array<T>::value) {
    return f5_reserve_reach<typename std::remove_extent<T>::type>();
  } else if constexpr (Aggregate<T>) {
    using Tuple = decltype(std::declval<T&>().vf_tie());
    return f5_reserve_reach_tuple<Tuple>(std::make_index_sequence<std::tuple_size<Tuple>::value>());
  } else {
    return false;
  }
}

// no-progress finding: does the parser of T reach a std::vector / list / unordered_set / unordered_map /
// ReusableVector whose elements (keys, values) are length-delimited (see known_unreadable_length_no_progress in c11_hostile.cpp)
template <class T> constexpr bool noprogress_reach();
template <class Tuple, size_t... I>
constexpr bool noprogress_reach_tuple(std::index_sequence<I...>) {
  return (noprogress_reach<typename std::remove_cv<typename std::remove_reference<typename std::tuple_element<I, Tuple>::type>::type>::type>() || ...);
}
template <class T>
constexpr bool noprogress_reach() {
  if constexpr (is_seq<T>::value || is_set<T>::value) {
    using E = typename T::value_type;
    return is_ld<E>::value || noprogress_reach<E>();
  } else if constexpr (is_map<T>::value) {
    using K = typename T::key_type;
    using V = typename T::mapped_type;
    return is_ld<K>::value || is_ld<V>::value || noprogress_reach<K>() || noprogress_reach<V>();
  } else if constexpr (is_ptr<T>::value) {
    return noprogress_reach<typename std::remove_const<typename T::element_type>::type>();
  } else if constexpr (std::is_array<T>::value) {
    return noprogress_reach<typename std::remove_extent<T>::type>();
  } else if constexpr (Aggregate<T>) {
    using Tuple = decltype(std::declval<T&>().vf_tie());
    return noprogress_reach_tuple<Tuple>(std::make_index_sequence<std::tuple_size<Tuple>::value>());
  } else {
    return false;
  }
}

// ... the subset whose loop condition is BytesUntilLimit() > 0: std::vector / ReusableVector of
// elements whose parse can succeed without consuming anything at the end of the data
// (length-delimited elements: unreadable length taken as 0; smart pointers: nothing to read)
template <class T> constexpr bool noprogress_vector_reach();
template <class Tuple, size_t... I>
constexpr bool noprogress_vector_reach_tuple(std::index_sequence<I...>) {
  return (noprogress_vector_reach<typename std::remove_cv<typename std::remove_reference<typename std::tuple_element<I, Tuple>::type>::type>::type>() || ...);
}
template <class T>
constexpr bool noprogress_vector_reach() {
  if constexpr (is_seq<T>::value) {
    using E = typename T::value_type;
    return (f5_affected<T>::value && (is_ld<E>::value || is_ptr<E>::value)) || noprogress_vector_reach<E>();
  } else if constexpr (is_set<T>::value) {
    return noprogress_vector_reach<typename T::value_type>();
  } else if constexpr (is_map<T>::value) {
    return noprogress_vector_reach<typename T::key_type>() || noprogress_vector_reach<typename T::mapped_type>();
  } else if constexpr (is_ptr<T>::value) {
    return noprogress_vector_reach<typename std::remove_const<typename T::element_type>::type>();
  } else if constexpr (std::is_array<T>::value) {
    return noprogress_vector_reach<typename std::remove_extent<T>::type>();
  } else if constexpr (Aggregate<T>) {
    using Tuple = decltype(std::declval<T&>().vf_tie());
    return noprogress_vector_reach_tuple<Tuple>(std::make_index_sequence<std::tuple_size<Tuple>::value>());
  } else {
    return false;
  }
}

// enumeration without a fixed underlying type: only its declared values are generated
enum PlainEnum { PE_ZERO = 0, PE_ONE = 1, PE_NEG = -3, PE_BIG = 70000 };
inline std::vector<PlainEnum> vf_enum_values(PlainEnum*) { return {PE_ZERO, PE_ONE, PE_NEG, PE_BIG}; }
// the proto2 enum of the harness schema is closed: declared values only
inline std::vector<vfc11::TestEnum> vf_enum_values(vfc11::TestEnum*) { return {vfc11::E1, vfc11::E2, vfc11::E3, vfc11::EN}; }

enum Kind { K_BOOL, K_INT, K_FLOAT, K_ENUM, K_STR, K_SEQ, K_VBOOL, K_ARRAY, K_SET, K_MAP, K_PTR, K_MSG, K_AGG };

// ---------------------------------------------------------------------------------------------
// generator
// ---------------------------------------------------------------------------------------------
struct Gen {
  vfz::Dec& d;
  int depth = 0;          // aggregate / container nesting of the value being generated
  size_t budget = 40000;  // bytes that the amplified (repeated) payloads may still use
  unsigned kinds = 0;     // Kind bits that carry a non-default value
  bool nested_ld = false; // a non-empty length-delimited value below the root
  bool scalar_ptr_elem_null = false;  // generated a null smart pointer to a scalar as a container / array element
  explicit Gen(vfz::Dec& dd) : d(dd) {}
  void kind(Kind k) { kinds |= 1u << k; }
  int nkinds() const { return __builtin_popcount(kinds); }
};

template <class I>
I gen_int(Gen& g) {
  using U = typename std::make_unsigned<I>::type;
  uint8_t sel = g.d.u8();
  switch (sel % 8) {
    case 0: return 0;
    case 1: return (I)(sel >> 3);
    case 2: return std::numeric_limits<I>::max();
    case 3: return std::numeric_limits<I>::min();
    case 4: return (I)(U)~(U)0;
    case 5: return (I)(U)g.d.u64();
    case 6: {  // around a varint length boundary: 2^(7k) - 1, 2^(7k), also negated
      int k = 1 + (sel >> 3) % 9;
      uint64_t v = (1ull << (7 * k)) - (g.d.u8() & 1);
      return (I)(U)((sel & 0x80) ? (0 - v) : v);
    }
    default: return (I)(U)g.d.u16();
  }
}
template <class F>
F gen_float(Gen& g) {
  uint8_t sel = g.d.u8();
  using U = typename std::conditional<sizeof(F) == 4, uint32_t, uint64_t>::type;
  U bits = 0;
  switch (sel % 6) {
    case 0: bits = 0; break;
    case 1: { F f = (F)(int8_t)(sel >> 3) / 4; memcpy(&bits, &f, sizeof bits); break; }
    case 2: bits = (U)1 << (sizeof(U) * 8 - 1); break;                    // -0.0
    case 3: bits = ~(U)0 >> 1; break;                                     // a NaN with a full payload
    case 4: bits = sizeof(F) == 4 ? (U)0x7f800001u : (U)0x7ff0000000000001ull; break;  // signalling NaN
    default: bits = (U)g.d.u64(); break;
  }
  F f;
  memcpy(&f, &bits, sizeof f);
  return f;
}
// arbitrary bytes; sometimes a long run so that length prefixes need 2 and 3 varint bytes
inline std::string gen_bytes(Gen& g) {
  uint8_t sel = g.d.u8();
  switch (sel % 8) {
    case 0: return std::string();
    case 1:
    case 2:
    case 3:
    case 4: return g.d.bytes(10);
    case 5:
    case 6: return std::string(1 + (sel >> 3) % 4, (char)g.d.u8());
    default: {
      static const uint32_t L[] = {127, 128, 129, 300, 126, 130, 2000, 16383, 16384, 16390, 200, 255, 256, 1000, 131, 125};
      size_t n = std::min<size_t>(L[(sel >> 3) % 16], g.budget);
      g.budget -= n;
      return std::string(n, (char)g.d.u8());
    }
  }
}
// element count of a container; big counts only for cheap elements
inline size_t gen_count(Gen& g, bool cheap) {
  uint8_t sel = g.d.u8();
  if (sel % 16 < 14 || !cheap) return sel % 4;  // 0..3 (0 first: the all-zero input is the empty container)
  static const uint32_t L[] = {16, 127, 128, 129, 600, 33, 64, 130, 4100, 16384, 20, 126, 40, 17, 250, 300};
  size_t n = std::min<size_t>(L[(sel >> 4) % 16], g.budget / 2);
  g.budget -= n * 2;
  return n;
}

template <class T> void fill(T& v, Gen& g);

template <class Tuple, class F, size_t... I>
void tuple_each_impl(Tuple&& t, F&& f, std::index_sequence<I...>) { (f(std::get<I>(t), I), ...); }
template <class Tuple, class F>
void tuple_each(Tuple&& t, F&& f) {
  tuple_each_impl(t, f, std::make_index_sequence<std::tuple_size<typename std::remove_reference<Tuple>::type>::value>());
}

inline void fill_msg(vfc11::Msg& m, Gen& g, int level);

template <class T>
void fill_elem(T& e, Gen& g) {
  fill(e, g);
  if constexpr (is_ptr<T>::value && !is_ld<T>::value) {
    // known_null_scalar_ptr_element: a null smart pointer to a scalar contributes no bytes as
    // a packed element / array slot, so the element is lost (or the array misaligned) on the way
    // back; see the C11 report. Excluded unless VF_ALLOW_KNOWN names c11-null-scalar-ptr-elem.
    if (!e) {
      if (allow_known("c11-null-scalar-ptr-elem")) {
        g.scalar_ptr_elem_null = true;
      } else {
        vfz::label("excluded_known_null_scalar_ptr_elem");
        e.reset(new typename T::element_type());
        fill(*e, g);
      }
    }
  }
}

template <class T>
void fill(T& v, Gen& g) {
  if constexpr (std::is_same<T, bool>::value) {
    v = g.d.u8() & 1;
    if (v) g.kind(K_BOOL);
  } else if constexpr (std::is_enum<T>::value) {
    using U = typename std::underlying_type<T>::type;
    if constexpr (requires { vf_enum_values((T*)nullptr); }) {
      // an enumeration without a fixed underlying type: declared values only
      auto vals = vf_enum_values((T*)nullptr);
      v = vals[g.d.u8() % vals.size()];
    } else {
      v = (T)gen_int<U>(g);
    }
    if ((U)v != 0) g.kind(K_ENUM);
  } else if constexpr (std::is_integral<T>::value) {
    v = gen_int<T>(g);
    if (v != 0) g.kind(K_INT);
  } else if constexpr (std::is_floating_point<T>::value) {
    v = gen_float<T>(g);
    g.kind(K_FLOAT);
  } else if constexpr (is_str<T>::value) {
    std::string s = gen_bytes(g);
    v.assign(s.data(), s.size());
    if (!s.empty()) {
      g.kind(K_STR);
      if (g.depth > 0) g.nested_ld = true;
    }
  } else if constexpr (is_vbool<T>::value) {
    size_t n = gen_count(g, true);
    v.clear();
    uint64_t bits = g.d.u64();
    for (size_t i = 0; i < n; i++) v.push_back((bits >> (i % 64)) & 1);
    if (n) {
      g.kind(K_VBOOL);
      if (g.depth > 0) g.nested_ld = true;
    }
  } else if constexpr (is_seq<T>::value) {
    using E = typename T::value_type;
    constexpr bool cheap = is_scalar_kind<E>;
    size_t n = (!cheap && g.depth >= 4) ? 0 : gen_count(g, cheap);
    v.clear();
    g.depth++;
    if constexpr (cheap) {
      E pat[3];
      size_t np = std::min<size_t>(n, 3);
      for (size_t i = 0; i < np; i++) fill(pat[i], g);
      for (size_t i = 0; i < n; i++) v.emplace_back(pat[i % 3]);
    } else {
      for (size_t i = 0; i < n; i++) {
        v.emplace_back();
        fill_elem(v.back(), g);
      }
    }
    g.depth--;
    if (n) {
      g.kind(K_SEQ);
      if (g.depth > 0) g.nested_ld = true;
    }
  } else if constexpr (std::is_array<T>::value) {
    g.depth++;
    for (auto& e : v) fill_elem(e, g);
    g.depth--;
    g.kind(K_ARRAY);
    if (g.depth > 0) g.nested_ld = true;
  } else if constexpr (is_set<T>::value) {
    using E = typename T::value_type;
    size_t n = g.depth >= 4 ? 0 : gen_count(g, is_scalar_kind<E>);
    n = std::min<size_t>(n, 600);
    v.clear();
    g.depth++;
    for (size_t i = 0; i < n; i++) {
      E e {};
      if (i < 4 || !std::is_integral<E>::value) {
        fill(e, g);
      } else if constexpr (std::is_integral<E>::value) {
        e = (E)(i * 2654435761u);
      }
      v.emplace(std::move(e));
    }
    g.depth--;
    if (!v.empty()) {
      g.kind(K_SET);
      if (g.depth > 0) g.nested_ld = true;
    }
  } else if constexpr (is_map<T>::value) {
    using K = typename T::key_type;
    using V = typename T::mapped_type;
    size_t n = g.depth >= 4 ? 0 : g.d.u8() % 4;
    v.clear();
    g.depth++;
    for (size_t i = 0; i < n; i++) {
      K k {};
      V val {};
      fill(k, g);
      fill(val, g);
      v.emplace(std::move(k), std::move(val));
    }
    g.depth--;
    if (!v.empty()) {
      g.kind(K_MAP);
      if (g.depth > 0) g.nested_ld = true;
    }
  } else if constexpr (is_ptr<T>::value) {
    using E = typename std::remove_const<typename T::element_type>::type;
    uint8_t sel = g.d.u8() % 4;
    if (sel == 0 || g.depth >= 6) {
      v.reset();
    } else {
      v.reset(new E());  // sel == 1: pointer to a default (often empty-encoded) value
      if (sel >= 2) fill(const_cast<E&>(*v), g);
      g.kind(K_PTR);
    }
  } else if constexpr (is_msg<T>) {
    v.Clear();
    fill_msg(v, g, 0);
    if (v.ByteSizeLong()) {
      g.kind(K_MSG);
      if (g.depth > 0) g.nested_ld = true;
    }
  } else {
    static_assert(Aggregate<T>, "type not known to the C11 generator");
    bool outer = g.depth > 0;
    g.depth++;
    tuple_each(v.vf_tie(), [&](auto& member, size_t) { fill(member, g); });
    g.depth--;
    g.kind(K_AGG);
    if (outer) g.nested_ld = true;
  }
}

// protobuf message with a few fields of every group populated
inline void fill_msg(vfc11::Msg& m, Gen& g, int level) {
  uint16_t mask = g.d.u16();
  if (mask & 1) m.set_b(g.d.u8() & 1);
  if (mask & 2) m.set_i32(gen_int<int32_t>(g));
  if (mask & 4) m.set_u64(gen_int<uint64_t>(g));
  if (mask & 8) m.set_s64(gen_int<int64_t>(g));
  if (mask & 0x10) m.set_f32(gen_int<uint32_t>(g));
  if (mask & 0x20) m.set_d(gen_float<double>(g));
  if (mask & 0x40) m.set_s(gen_bytes(g));
  if (mask & 0x80) m.set_by(gen_bytes(g));
  if (mask & 0x100) m.set_e(g.d.u8() & 1 ? vfc11::E2 : vfc11::EN);
  if (mask & 0x200) for (int i = g.d.u8() % 4; i > 0; i--) m.add_rs(gen_bytes(g));
  if (mask & 0x400) for (int i = g.d.u8() % 4; i > 0; i--) m.add_rpi32(gen_int<int32_t>(g));
  if (mask & 0x800) for (int i = g.d.u8() % 4; i > 0; i--) m.add_rf(gen_float<float>(g));
  if ((mask & 0x1000) && level < 2) fill_msg(*m.mutable_m(), g, level + 1);
  if ((mask & 0x2000) && level < 2) for (int i = g.d.u8() % 3; i > 0; i--) fill_msg(*m.add_rm(), g, level + 1);
}

// ---------------------------------------------------------------------------------------------
// model: "the babylon encoding of this value has zero bytes"
// ---------------------------------------------------------------------------------------------
template <class T>
bool enc_empty(const T& v) {
  if constexpr (is_scalar_kind<T>) {
    return false;
  } else if constexpr (is_str<T>::value) {
    return v.size() == 0;
  } else if constexpr (is_vbool<T>::value) {
    return v.empty();
  } else if constexpr (is_seq<T>::value || is_set<T>::value || std::is_array<T>::value) {
    using E = typename std::remove_cv<typename std::remove_reference<decltype(*std::begin(v))>::type>::type;
    if constexpr (is_ld<E>::value) {
      return std::begin(v) == std::end(v);  // every element carries a length prefix
    } else {
      for (auto& e : v)
        if (!enc_empty(e)) return false;
      return true;
    }
  } else if constexpr (is_map<T>::value) {
    using K = typename T::key_type;
    using V = typename T::mapped_type;
    if constexpr (is_ld<K>::value || is_ld<V>::value) {
      return v.empty();
    } else {
      for (auto& e : v)
        if (!enc_empty(e.first) || !enc_empty(e.second)) return false;
      return true;
    }
  } else if constexpr (is_ptr<T>::value) {
    return !v || enc_empty(*v);
  } else if constexpr (is_msg<T>) {
    return v.ByteSizeLong() == 0;
  } else {
    bool all = true;
    tuple_each(const_cast<T&>(v).vf_tie(), [&](auto& member, size_t) { all = all && enc_empty(member); });
    return all;
  }
}

// For every member (or base) that BABYLON_SERIALIZABLE gives a per-field cached size (size
// complexity COMPLEX) and that lives at a stable address below `v` (members of member aggregates
// and of array elements; not what containers / smart pointers re-create): is its encoding empty?
template <class T>
void complex_member_emptiness(const T& v, std::vector<bool>& out) {
  if constexpr (Aggregate<T>) {
    tuple_each(const_cast<T&>(v).vf_tie(), [&](auto& member, size_t) {
      using M = typename std::remove_reference<decltype(member)>::type;
      if constexpr (babylon::SerializeTraits<M>::SERIALIZED_SIZE_COMPLEXITY == babylon::SerializationHelper::SERIALIZED_SIZE_COMPLEXITY_COMPLEX)
        out.push_back(enc_empty(member));
      complex_member_emptiness(member, out);
    });
  } else if constexpr (std::is_array<T>::value) {
    for (auto& e : v) complex_member_emptiness(e, out);
  }
}

// ---------------------------------------------------------------------------------------------
// equality: `a` is the value that was serialized, `b` the fresh object that was parsed
// ---------------------------------------------------------------------------------------------
template <class T> bool eq(const T& a, const T& b, std::string& why);
template <class TA, class TB, size_t... I>
bool eq_tuple(TA& ta, TB& tb, std::string& why, size_t& idx, std::index_sequence<I...>) {
  bool ok = true;
  ((ok = ok && (eq(std::get<I>(ta), std::get<I>(tb), why) || (idx = I, false))), ...);
  return ok;
}
template <class T>
bool eq(const T& a, const T& b, std::string& why) {
  if constexpr (std::is_floating_point<T>::value) {
    if (memcmp(&a, &b, sizeof a) == 0) return true;
    why += ": float bits differ";
    return false;
  } else if constexpr (is_scalar_kind<T>) {
    if (a == b) return true;
    why += ": scalar " + std::to_string((long long)a) + " vs " + std::to_string((long long)b);
    return false;
  } else if constexpr (is_str<T>::value) {
    if (a.size() == b.size() && memcmp(a.data(), b.data(), a.size()) == 0) return true;
    why += ": string of " + std::to_string(a.size()) + " bytes vs " + std::to_string(b.size());
    return false;
  } else if constexpr (is_vbool<T>::value) {
    if (a == b) return true;
    why += ": vector<bool> of " + std::to_string(a.size()) + " vs " + std::to_string(b.size());
    return false;
  } else if constexpr (is_seq<T>::value) {
    if (a.size() != b.size()) {
      why += ": " + std::to_string(a.size()) + " elements vs " + std::to_string(b.size());
      return false;
    }
    auto ia = a.begin();
    auto ib = b.begin();
    for (size_t i = 0; ia != a.end(); ++ia, ++ib, ++i)
      if (!eq(*ia, *ib, why)) {
        why = "[" + std::to_string(i) + "]" + why;
        return false;
      }
    return true;
  } else if constexpr (std::is_array<T>::value) {
    for (size_t i = 0; i < std::extent<T>::value; i++)
      if (!eq(a[i], b[i], why)) {
        why = "[" + std::to_string(i) + "]" + why;
        return false;
      }
    return true;
  } else if constexpr (is_set<T>::value) {
    if (a.size() != b.size()) {
      why += ": set of " + std::to_string(a.size()) + " vs " + std::to_string(b.size());
      return false;
    }
    for (auto& e : a)
      if (b.find(e) == b.end()) {
        why += ": set element missing";
        return false;
      }
    return true;
  } else if constexpr (is_map<T>::value) {
    if (a.size() != b.size()) {
      why += ": map of " + std::to_string(a.size()) + " vs " + std::to_string(b.size());
      return false;
    }
    for (auto& e : a) {
      auto it = b.find(e.first);
      if (it == b.end()) {
        why += ": map key missing";
        return false;
      }
      if (!eq(e.second, it->second, why)) {
        why = "[key]" + why;
        return false;
      }
    }
    return true;
  } else if constexpr (is_ptr<T>::value) {
    bool expect_null = !a || enc_empty(*a);
    if (expect_null) {
      if (!b) return true;
      why += a ? ": pointer to an empty encoding read back non-null" : ": null pointer read back non-null";
      return false;
    }
    if (!b) {
      why += ": non-null pointer read back null";
      return false;
    }
    if (eq(*a, *b, why)) return true;
    why = "->" + why;
    return false;
  } else if constexpr (is_msg<T>) {
    if (a.SerializeAsString() == b.SerializeAsString()) return true;
    why += ": protobuf message differs";
    return false;
  } else {
    auto ta = const_cast<T&>(a).vf_tie();
    auto tb = const_cast<T&>(b).vf_tie();
    size_t idx = 0;
    bool ok = eq_tuple(ta, tb, why, idx, std::make_index_sequence<std::tuple_size<decltype(ta)>::value>());
    if (!ok) why = ".m" + std::to_string(idx) + why;
    return ok;
  }
}

// ---------------------------------------------------------------------------------------------
// bounded textual form of a value for the failure report
// ---------------------------------------------------------------------------------------------
inline void show_bytes(const char* p, size_t n, std::string& o) {
  o += "\"";
  bool run = n > 8;
  for (size_t i = 1; run && i < n; i++) run = p[i] == p[0];
  char b[8];
  if (run) {
    snprintf(b, sizeof b, "\\x%02x", (unsigned char)p[0]);
    o += b;
    o += "\"*" + std::to_string(n);
    return;
  }
  for (size_t i = 0; i < n && i < 24; i++) {
    snprintf(b, sizeof b, "\\x%02x", (unsigned char)p[i]);
    o += b;
  }
  o += n > 24 ? "...\"(" + std::to_string(n) + ")" : "\"";
}
template <class T>
void show(const T& v, std::string& o) {
  if (o.size() > 1800) {
    if (o.size() < 1803) o += "...";
    return;
  }
  if constexpr (std::is_floating_point<T>::value) {
    typename std::conditional<sizeof(T) == 4, uint32_t, uint64_t>::type bits;
    memcpy(&bits, &v, sizeof v);
    char b[40];
    snprintf(b, sizeof b, "f0x%llx", (unsigned long long)bits);
    o += b;
  } else if constexpr (is_scalar_kind<T>) {
    o += std::to_string((long long)v);
    if constexpr (std::is_same<T, uint64_t>::value)
      if (v >> 63) o += "(u64)";
  } else if constexpr (is_str<T>::value) {
    show_bytes(v.data(), v.size(), o);
  } else if constexpr (is_vbool<T>::value) {
    o += "vb(" + std::to_string(v.size()) + ")[";
    for (size_t i = 0; i < v.size() && i < 16; i++) o += v[i] ? '1' : '0';
    o += "]";
  } else if constexpr (is_seq<T>::value || is_set<T>::value || std::is_array<T>::value) {
    o += "[";
    size_t i = 0, n = 0;
    for (auto it = std::begin(v); it != std::end(v); ++it) n++;
    for (auto& e : v) {
      if (i++) o += ",";
      if (i > 6) {
        o += "...(" + std::to_string(n) + ")";
        break;
      }
      show(e, o);
    }
    o += "]";
  } else if constexpr (is_map<T>::value) {
    o += "{";
    size_t i = 0;
    for (auto& e : v) {
      if (i++) o += ",";
      show(e.first, o);
      o += ":";
      show(e.second, o);
    }
    o += "}";
  } else if constexpr (is_ptr<T>::value) {
    if (!v) {
      o += "null";
    } else {
      o += "&";
      show(*v, o);
    }
  } else if constexpr (is_msg<T>) {
    std::string s = v.SerializeAsString();
    o += "msg";
    show_bytes(s.data(), s.size(), o);
  } else {
    o += "{";
    tuple_each(const_cast<T&>(v).vf_tie(), [&](auto& member, size_t i) {
      if (i) o += " ";
      show(member, o);
    });
    o += "}";
  }
}

inline std::string hex(const std::string& s, size_t max = 64) {
  std::string o;
  char b[4];
  for (size_t i = 0; i < s.size() && i < max; i++) {
    snprintf(b, sizeof b, "%02x", (unsigned char)s[i]);
    o += b;
  }
  if (s.size() > max) o += "...(" + std::to_string(s.size()) + " bytes)";
  return o;
}

// ---------------------------------------------------------------------------------------------
// the type family
// ---------------------------------------------------------------------------------------------
#define VF_TIE(...) \
  auto vf_tie() { return std::tie(__VA_ARGS__); }

enum FixedEnum : int32_t { FE_ZERO = 0 };
enum class Scoped8 : int8_t { ZERO = 0 };
enum class ScopedU64 : uint64_t { ZERO = 0 };

// > 10 SIMPLE members: the macro gives the whole object a cached size
struct Scalars {
  bool b {false};
  int8_t i8 {0};
  int16_t i16 {0};
  int32_t i32 {0};
  int64_t i64 {0};
  uint8_t u8 {0};
  uint16_t u16 {0};
  uint32_t u32 {0};
  uint64_t u64 {0};
  float f {0};
  double d {0};
  PlainEnum pe {PE_ZERO};
  FixedEnum fe {FE_ZERO};
  Scoped8 s8 {Scoped8::ZERO};
  ScopedU64 su64 {ScopedU64::ZERO};
  // field numbers on both sides of the 1/2/3/4/5-byte tag boundaries
  BABYLON_SERIALIZABLE((b, 1)(i8, 2)(i16, 15)(i32, 16)(i64, 17)(u8, 2047)(u16, 2048)(u32, 262143)(u64, 262144)(f, 33554431)(
      d, 33554432)(pe, 536870911)(fe, 3)(s8, 4)(su64, 5))
  VF_TIE(b, i8, i16, i32, i64, u8, u16, u32, u64, f, d, pe, fe, s8, su64)
};

// < 10 SIMPLE members and no COMPLEX one: no cache at all
struct Few {
  int32_t i {0};
  std::string s;
  float f {0};
  BABYLON_SERIALIZABLE((i, 1)(s, 2)(f, 3))
  VF_TIE(i, s, f)
};

// only members whose encoding can be empty: the whole aggregate can encode to nothing
struct MaybeEmpty {
  std::string s;
  std::vector<int32_t> v;
  std::unique_ptr<Few> p;
  BABYLON_SERIALIZABLE((s, 1)(v, 2)(p, 3))
  VF_TIE(s, v, p)
};

// COMPLEX members: one cached size per field
struct Containers {
  std::vector<int32_t> vi32;
  std::vector<int64_t> vi64;
  std::vector<uint8_t> vu8;
  std::vector<float> vf;
  std::vector<double> vd;
  std::vector<bool> vb;
  std::vector<Scoped8> ve;
  std::vector<std::string> vs;
  std::vector<std::vector<int32_t>> vv;
  std::vector<Few> vagg;
  std::vector<MaybeEmpty> vme;
  std::list<int32_t> li;
  std::list<std::string> ls;
  std::list<Few> lagg;
  std::list<std::list<double>> ll;
  std::unordered_set<int32_t> si;
  std::unordered_set<std::string> ss;
  std::unordered_map<int32_t, int64_t> mii;
  std::unordered_map<std::string, std::string> mss;
  std::unordered_map<std::string, Few> msagg;
  std::unordered_map<uint64_t, std::vector<std::string>> mv;
  BABYLON_SERIALIZABLE((vi32, 1)(vi64, 2)(vu8, 3)(vf, 4)(vd, 5)(vb, 6)(ve, 7)(vs, 8)(vv, 9)(vagg, 10)(vme, 11)(li, 12)(ls, 13)(
      lagg, 14)(ll, 15)(si, 16)(ss, 17)(mii, 18)(mss, 19)(msagg, 20)(mv, 21))
  VF_TIE(vi32, vi64, vu8, vf, vd, vb, ve, vs, vv, vagg, vme, li, ls, lagg, ll, si, ss, mii, mss, msagg, mv)
};

struct Arrays {
  int32_t ai[3] {};
  float af[2] {};
  double ad[3] {};
  bool ab[2] {};
  Scoped8 ae[2] {};
  std::string as[2];
  Few aagg[2];
  std::vector<int32_t> av[2];
  int64_t aa[2][2] {};
  BABYLON_SERIALIZABLE((ai, 1)(af, 2)(ad, 3)(ab, 4)(ae, 5)(as, 6)(aagg, 7)(av, 8)(aa, 9))
  VF_TIE(ai, af, ad, ab, ae, as, aagg, av, aa)
};

struct Ptrs {
  std::unique_ptr<int32_t> ui;
  std::unique_ptr<float> uf;
  std::unique_ptr<std::string> us;
  std::unique_ptr<Few> uagg;
  std::unique_ptr<MaybeEmpty> ume;
  std::unique_ptr<std::unique_ptr<int32_t>> uu;
  std::unique_ptr<std::vector<int32_t>> uv;
  std::unique_ptr<const std::string> ucs;
  std::shared_ptr<int64_t> si;
  std::shared_ptr<std::string> ss;
  std::shared_ptr<Scalars> sagg;
  std::shared_ptr<MaybeEmpty> sme;
  std::shared_ptr<std::shared_ptr<std::string>> sss;
  std::shared_ptr<std::vector<double>> sv;
  std::vector<std::unique_ptr<Few>> vu;
  std::vector<std::shared_ptr<std::string>> vsp;
  BABYLON_SERIALIZABLE((ui, 1)(uf, 2)(us, 3)(uagg, 4)(ume, 5)(uu, 6)(uv, 7)(ucs, 8)(si, 9)(ss, 10)(sagg, 11)(sme, 12)(sss, 13)(
      sv, 14)(vu, 15)(vsp, 16))
  VF_TIE(ui, uf, us, uagg, ume, uu, uv, ucs, si, ss, sagg, sme, sss, sv, vu, vsp)
};

// containers / arrays whose elements are smart pointers to scalars (see known_null_scalar_ptr_element in fill_elem)
struct ScalarPtrElems {
  std::vector<std::unique_ptr<int32_t>> vup;
  std::list<std::shared_ptr<double>> lsp;
  std::unique_ptr<int32_t> aup[2];
  BABYLON_SERIALIZABLE((vup, 1)(lsp, 2)(aup, 3))
  VF_TIE(vup, lsp, aup)
};

// base classes: a base without a cache, and a base with cached sizes
struct DerivedFew : public Few {
  int64_t x {0};
  std::vector<std::string> names;
  BABYLON_SERIALIZABLE_WITH_BASE((Few, 1), (x, 2)(names, 3))
  auto vf_tie() { return std::tie(static_cast<Few&>(*this), x, names); }
};
struct DerivedScalars : public Scalars {
  std::string tail;
  BABYLON_COMPATIBLE_WITH_BASE((Scalars, 7), (tail, 1))
  auto vf_tie() { return std::tie(static_cast<Scalars&>(*this), tail); }
};
struct DerivedContainers : public Containers {
  double w {0};
  BABYLON_SERIALIZABLE_WITH_BASE((Containers, 100), (w, 1))
  auto vf_tie() { return std::tie(static_cast<Containers&>(*this), w); }
};

// shorthand forms of the macros (automatic field numbers)
struct AutoTag {
  int32_t i {0};
  std::string s;
  std::vector<int32_t> v;
  BABYLON_SERIALIZABLE(i, s, v)
  VF_TIE(i, s, v)
};
struct AutoTagDerived : public AutoTag {
  uint32_t a {0};
  std::string t;
  BABYLON_SERIALIZABLE_WITH_BASE(AutoTag, a, t)
  auto vf_tie() { return std::tie(static_cast<AutoTag&>(*this), a, t); }
};

// deep nesting (the macro can describe neither a type that contains itself nor a class template:
// a chain of distinct types)
struct Nest0 {
  int32_t v {0};
  std::string tag;
  BABYLON_SERIALIZABLE((v, 1)(tag, 4))
  VF_TIE(v, tag)
};
#define VF_NEST(NAME, INNER)                             \
  struct NAME {                                          \
    int32_t v {0};                                       \
    std::vector<INNER> kids;                             \
    std::unique_ptr<INNER> next;                         \
    std::string tag;                                     \
    BABYLON_SERIALIZABLE((v, 1)(kids, 2)(next, 3)(tag, 4)) \
    VF_TIE(v, kids, next, tag)                           \
  };
VF_NEST(Nest1, Nest0)
VF_NEST(Nest2, Nest1)
VF_NEST(Nest3, Nest2)
VF_NEST(Nest4, Nest3)
VF_NEST(Nest5, Nest4)
VF_NEST(Nest6, Nest5)
using Tree = Nest6;

// protobuf messages as members, behind pointers and in containers
struct WithMsg {
  int32_t i {0};
  vfc11::Msg m;
  std::unique_ptr<vfc11::Msg> pm;
  std::vector<vfc11::Msg> vm;
  std::shared_ptr<vfc11::Msg> sm;
  BABYLON_SERIALIZABLE((i, 1)(m, 2)(pm, 3)(vm, 4)(sm, 5))
  VF_TIE(i, m, pm, vm, sm)
};

// babylon's allocator-aware containers
struct ReusableItem {
  struct AllocationMetadata {};
  int32_t i {0};
  BABYLON_COMPATIBLE((i, 1))
  VF_TIE(i)
};
struct ReusableAgg {
  using allocator_type = SwissAllocator<>;
  explicit ReusableAgg(allocator_type a) : vi {a}, vd {a}, vs {a}, vitem {a}, s {a} {}
  SwissVector<int32_t> vi;
  SwissVector<double> vd;
  SwissVector<SwissString> vs;
  SwissVector<ReusableItem> vitem;
  SwissString s;
  BABYLON_COMPATIBLE((vi, 1)(vd, 2)(vs, 3)(vitem, 4)(s, 5))
  VF_TIE(vi, vd, vs, vitem, s)
};

// everything at once, two levels deep
struct Everything {
  Scalars sc;
  Few few;
  Containers co;
  Arrays ar;
  Ptrs pt;
  DerivedFew df;
  DerivedScalars ds;
  AutoTagDerived at;
  Tree tr;
  WithMsg wm;
  std::vector<Ptrs> vpt;
  std::unique_ptr<Containers> pco;
  BABYLON_SERIALIZABLE((sc, 1)(few, 2)(co, 3)(ar, 4)(pt, 5)(df, 6)(ds, 7)(at, 8)(tr, 9)(wm, 10)(vpt, 11)(pco, 12))
  VF_TIE(sc, few, co, ar, pt, df, ds, at, tr, wm, vpt, pco)
};

// ---------------------------------------------------------------------------------------------
// a fresh object of a root type (allocator-aware roots live in their own memory resource)
// ---------------------------------------------------------------------------------------------
template <class T, class E = void>
struct Holder {
  T v {};
  T& get() { return v; }
};
template <class T> struct needs_swiss : std::false_type {};
template <class C, class CT, class R> struct needs_swiss<babylon::MonotonicBasicString<C, CT, R>> : std::true_type {};
template <class T, class A> struct needs_swiss<babylon::ReusableVector<T, A>> : std::true_type {};
template <> struct needs_swiss<ReusableAgg> : std::true_type {};
template <class T>
struct Holder<T, typename std::enable_if<needs_swiss<T>::value>::type> {
  SwissMemoryResource resource;
  T* p;
  Holder() : p(SwissAllocator<>(resource).create_object<T>()) {}
  Holder(const Holder&) = delete;
  T& get() { return *p; }
};

// root types: visit<T>() is called with a tag for the selected index
template <class T> struct Tag { using type = T; };
#define VF_C11_ROOTS(X)                                                                                        \
  X(Scalars) X(Few) X(MaybeEmpty) X(Containers) X(Arrays) X(Ptrs) X(DerivedFew) X(DerivedScalars)              \
  X(DerivedContainers) X(AutoTag) X(AutoTagDerived) X(Tree) X(WithMsg) X(ReusableAgg) X(Everything)            \
  X(ScalarPtrElems)                                                                                            \
  X(int32_t) X(uint64_t) X(double) X(bool) X(Scoped8) X(std::string) X(SwissString)                            \
  X(std::vector<int32_t>) X(std::vector<float>) X(std::vector<double>) X(std::vector<bool>)                    \
  X(std::vector<std::string>) X(std::vector<Few>) X(SwissVector<int32_t>) X(SwissVector<SwissString>)          \
  X(std::list<int64_t>) X(std::list<Few>) X(std::unordered_set<std::string>)                                   \
  X(VF_MAP_STRING_I32) X(std::unique_ptr<Few>) X(std::shared_ptr<std::string>)                                 \
  X(std::unique_ptr<std::vector<int32_t>>) X(std::shared_ptr<std::vector<double>>) X(VF_ARR_I32_3)             \
  X(VF_ARR_FEW_2) X(vfc11::Msg)                                                                                \
  X(VF_MAP_STRING_CONTAINERS) X(VF_MAP_I32_SCALARS) X(VF_VEC_MAP_STRING_CONTAINERS) X(VF_PTR_MAP_STRING_CONTAINERS)
// maps at the root (or reached only through forwarding wrappers) whose key has no cached size and whose mapped value
// has one: nothing above the map runs the sizing pass for it (new roots are appended: first bytes below the old count
// keep their meaning)
using VF_MAP_STRING_CONTAINERS = std::unordered_map<std::string, Containers>;
using VF_MAP_I32_SCALARS = std::unordered_map<int32_t, Scalars>;
using VF_VEC_MAP_STRING_CONTAINERS = std::vector<VF_MAP_STRING_CONTAINERS>;
using VF_PTR_MAP_STRING_CONTAINERS = std::unique_ptr<VF_MAP_STRING_CONTAINERS>;
using VF_MAP_STRING_I32 = std::unordered_map<std::string, int32_t>;
using VF_ARR_I32_3 = int32_t[3];
using VF_ARR_FEW_2 = Few[2];

#define VF_C11_NAME(T) #T,
inline const char* const* root_names() {
  static const char* const n[] = {VF_C11_ROOTS(VF_C11_NAME)};
  return n;
}
#define VF_C11_COUNT(T) +1
constexpr int ROOTS = 0 VF_C11_ROOTS(VF_C11_COUNT);

template <class F>
void with_root(int index, F&& f) {
  int i = 0;
#define VF_C11_CASE(T) \
  if (index == i++) return f(Tag<T>());
  VF_C11_ROOTS(VF_C11_CASE)
#undef VF_C11_CASE
}

}  // namespace c11
