// C12 (manager part): ReusableManager<SwissMemoryResource> histories. Objects of
// several reusable types are created through the manager, every cycle applies a
// workload mirrored on std models, then manager.clear() (logical clear, every
// N-th time: capacity extraction + release + re-creation). Checked: contents
// during the cycle, "equal to fresh" and retained capacity after every clear,
// accessors across re-creation, element lifetime through a registry, and zero
// growth of the resource once a fixed workload is repeated. libFuzzer + ASan.
#include "known.h"
#include <babylon/reusable/manager.h>
#include <babylon/reusable/string.h>
#include <babylon/reusable/vector.h>

#include <google/protobuf/descriptor.pb.h>

#include <memory>
#include <set>
#include <string>
#include <vector>

#include "fuzz_common.h"

namespace {

using ::babylon::NewDeletePageAllocator;
using ::babylon::ReusableAccessor;
using ::babylon::ReusableManager;
using ::babylon::SwissAllocator;
using ::babylon::SwissMemoryResource;
using ::babylon::SwissString;
using ::babylon::SwissVector;
using Manager = ReusableManager<SwissMemoryResource>;
using Msg = ::google::protobuf::FileDescriptorProto;

const char* RULE =
    "manager history: objects of up to 7 reusable types, a free phase with varying workloads and a fixed phase repeating one "
    "workload; non-trivial = at least two re-creations happened and the zero-growth check ran on a cycle after the second one";

std::string* g_desc = nullptr;
[[noreturn]] void failc(const char* fmt, ...) __attribute__((format(printf, 1, 2)));
void failc(const char* fmt, ...) {
  char buf[2048];
  va_list ap;
  va_start(ap, fmt);
  vsnprintf(buf, sizeof buf, fmt, ap);
  va_end(ap);
  vfz::fail(g_desc ? *g_desc : std::string("?"), "%s", buf);
}

// a reusable type with a lifetime registry
struct Registry {
  std::set<const void*> live;
  long constructed = 0, destroyed = 0, cleared = 0, extracted = 0, rebuilt = 0;
};
Registry* g_reg = nullptr;

struct Tracked {
  struct AllocationMetadata {
    int cap = 0;
  };
  int value = 0;
  int cap = 0;
  void born() {
    if (!g_reg->live.insert(this).second) failc("Tracked constructed at %p over a live object", (void*)this);
    g_reg->constructed++;
  }
  void alive(const char* what) const {
    if (!g_reg->live.count(this)) failc("Tracked at %p %s while it is not alive", (const void*)this, what);
  }
  Tracked() { born(); }
  Tracked(const AllocationMetadata& m) : cap(m.cap) {
    born();
    g_reg->rebuilt++;
  }
  Tracked(const Tracked&) = delete;
  Tracked& operator=(const Tracked&) = delete;
  ~Tracked() {
    if (!g_reg->live.erase(this)) failc("Tracked at %p destroyed while not alive (double destruction?)", (void*)this);
    g_reg->destroyed++;
  }
  void clear() {
    alive("cleared");
    value = 0;
    g_reg->cleared++;
  }
  void update_allocation_metadata(AllocationMetadata& m) const {
    alive("asked for its capacity");
    if (m.cap < cap) m.cap = cap;
    g_reg->extracted++;
  }
  void set(int v) {
    alive("written");
    value = v;
    if (cap < v) cap = v;
  }
  int get() const {
    alive("read");
    return value;
  }
};

std::string gen_string(vfz::Dec& d) {
  static const size_t L[] = {0, 1, 5, 15, 16, 24, 40, 100, 300, 33};
  uint8_t a = d.u8();
  size_t len = L[a % 10];
  uint8_t seed = d.u8();
  std::string s(len, 'a');
  for (size_t i = 0; i < len; i++) s[i] = (char)('a' + (seed + i * 3) % 26);
  return s;
}

struct Fill {
  int obj = 0;
  unsigned shape = 0;
  std::vector<std::string> strs;
  std::vector<int> ints;
};

enum Kind { K_STRING, K_VINT, K_VSTR, K_NESTED, K_MSG, K_MSG_BASE, K_TRACKED, K_KINDS };
const char* kind_name[] = {"SwissString", "SwissVector<int>", "SwissVector<SwissString>", "SwissVector<SwissVector<SwissString>>",
                           "FileDescriptorProto", "Message(base,creator)", "Tracked"};

struct MsgModel {
  Msg expect;  // a heap message built by the same setters
};

struct Obj {
  Kind kind;
  ReusableAccessor<SwissString> s;
  ReusableAccessor<SwissVector<int>> vi;
  ReusableAccessor<SwissVector<SwissString>> vs;
  ReusableAccessor<SwissVector<SwissVector<SwissString>>> vn;
  ReusableAccessor<Msg> msg;
  ReusableAccessor<::google::protobuf::Message> base;
  ReusableAccessor<Tracked> tr;
  // models
  std::string ms;
  std::vector<int> mvi;
  std::vector<std::string> mvs;
  std::vector<std::vector<std::string>> mvn;
  Msg mmsg;
  int mtr = 0;
  // retained capacity
  size_t cap = 0;        // capacity() seen before the last clear
  size_t cons = 0;       // constructed_size() seen before the last clear
  const void* addr = nullptr;
  int tracked_high = 0;
};

// F7 (known finding, reported by this target): a protobuf message re-created from capacity metadata is not equal to a
// fresh one when a singular sub-message field was ever used: MessageAllocationMetadata::FieldAllocationMetadata::reserve
// calls Reflection::MutableMessage, which sets the presence bit, and nothing clears it afterwards (has_options() stays
// true, the message serializes an empty `options {}`). The shape is exactly: a manager-owned message whose singular
// sub-message field is touched before a re-creation. Excluded from generation unless VF_ALLOW_KNOWN=1.
bool allow_known() {
  static int v = -1;
  if (v < 0) v = vf_allow_known("f7") ? 1 : 0;
  return v == 1;
}
bool g_excluded_f7 = false;
bool known_f7_submessage_presence_after_recreation(bool touches_singular_submessage) {
  if (!touches_singular_submessage || allow_known()) return false;
  if (!g_excluded_f7) vfz::label("excluded_known_f7");
  g_excluded_f7 = true;
  return true;
}

void fill_msg(Msg& m, const Fill& f) {
  if (!f.strs.empty()) m.set_name(f.strs[0]);
  for (size_t i = 1; i < f.strs.size(); i++) {
    if (i % 3 == 1) {
      m.add_dependency(f.strs[i]);
    } else if (i % 3 == 2) {
      auto* mt = m.add_message_type();
      mt->set_name(f.strs[i]);
      auto* fd = mt->add_field();
      fd->set_name(f.strs[i - 1]);
      fd->set_number((int)i);
    } else if (!known_f7_submessage_presence_after_recreation(true)) {
      m.mutable_options()->set_java_package(f.strs[i]);
    } else {
      m.set_package(f.strs[i]);
    }
  }
  for (int v : f.ints) m.add_public_dependency(v);
  if (f.shape & 1) m.set_syntax("proto3");
  if ((f.shape & 2) && !known_f7_submessage_presence_after_recreation(true)) m.mutable_options()->set_deprecated(true);
}

struct Runner {
  vfz::Dec& d;
  std::string& desc;
  NewDeletePageAllocator pa;  // outlives the manager
  std::unique_ptr<Manager> mgr;
  std::vector<Obj> objs;
  size_t interval = 1;
  size_t clears = 0, recreations = 0;
  bool nt = false;
  Runner(vfz::Dec& dd, std::string& ds) : d(dd), desc(ds) {}

  void note(const char* fmt, ...) __attribute__((format(printf, 2, 3))) {
    if (desc.size() > 6000) return;
    char buf[256];
    va_list ap;
    va_start(ap, fmt);
    vsnprintf(buf, sizeof buf, fmt, ap);
    va_end(ap);
    desc += ' ';
    desc += buf;
  }

  Fill gen_fill() {
    Fill f;
    f.obj = (int)(d.u8() % objs.size());
    f.shape = d.u8();
    size_t ns = d.u8() % 7, ni = d.u8() % 12;
    for (size_t i = 0; i < ns; i++) f.strs.push_back(gen_string(d));
    for (size_t i = 0; i < ni; i++) f.ints.push_back((int)d.u8() + 1);
    return f;
  }

  static bool str_eq(const SwissString& a, const std::string& b) { return a.size() == b.size() && memcmp(a.data(), b.data(), b.size()) == 0; }

  void apply(const Fill& f) {
    Obj& o = objs[(size_t)f.obj];
    switch (o.kind) {
      case K_STRING: {
        SwissString& x = *o.s;
        if (!f.strs.empty()) {
          x.assign(f.strs[0].data(), f.strs[0].size());
          o.ms = f.strs[0];
        }
        for (size_t i = 1; i < f.strs.size(); i++) {
          x.append(f.strs[i].data(), f.strs[i].size());
          o.ms += f.strs[i];
        }
        if ((f.shape & 1) && !f.ints.empty()) {
          x.resize((size_t)f.ints[0] % 64, 'z');
          o.ms.resize((size_t)f.ints[0] % 64, 'z');
        }
        break;
      }
      case K_VINT: {
        auto& x = *o.vi;
        for (int v : f.ints) {
          x.push_back(v);
          o.mvi.push_back(v);
        }
        if ((f.shape & 1) && o.mvi.size() > 1) {
          x.erase(x.begin() + 1);
          o.mvi.erase(o.mvi.begin() + 1);
        }
        if (f.shape & 2) {
          x.insert(x.begin(), (size_t)3, 7);
          o.mvi.insert(o.mvi.begin(), (size_t)3, 7);
        }
        if (f.shape & 4) {
          x.resize(o.mvi.size() + 2);
          o.mvi.resize(o.mvi.size() + 2);
        }
        break;
      }
      case K_VSTR: {
        auto& x = *o.vs;
        for (auto& s : f.strs) {
          x.emplace_back(s);
          o.mvs.push_back(s);
        }
        if ((f.shape & 1) && o.mvs.size() > 1) {
          x.erase(x.begin());
          o.mvs.erase(o.mvs.begin());
        }
        if ((f.shape & 2) && !f.strs.empty()) {
          size_t pos = o.mvs.size() / 2;
          x.insert(x.begin() + (long)pos, f.strs[0]);
          o.mvs.insert(o.mvs.begin() + (long)pos, f.strs[0]);
        }
        if (f.shape & 4) {
          x.resize(o.mvs.size() + 2);
          o.mvs.resize(o.mvs.size() + 2);
        }
        if ((f.shape & 8) && !o.mvs.empty()) {
          x.pop_back();
          o.mvs.pop_back();
        }
        break;
      }
      case K_NESTED: {
        auto& x = *o.vn;
        for (size_t i = 0; i < f.strs.size(); i++) {
          if (i % 3 == 0 || x.empty()) {
            x.emplace_back();
            o.mvn.emplace_back();
          }
          x.back().emplace_back(f.strs[i]);
          o.mvn.back().push_back(f.strs[i]);
        }
        if ((f.shape & 1) && o.mvn.size() > 1) {
          x.erase(x.begin());
          o.mvn.erase(o.mvn.begin());
        }
        break;
      }
      case K_MSG:
        fill_msg(*o.msg, f);
        fill_msg(o.mmsg, f);
        break;
      case K_MSG_BASE:
        fill_msg(*static_cast<Msg*>(o.base.get()), f);
        fill_msg(o.mmsg, f);
        break;
      case K_TRACKED: {
        int v = f.ints.empty() ? 1 : f.ints[0];
        o.tr->set(v);
        o.mtr = v;
        if (o.tracked_high < v) o.tracked_high = v;
        break;
      }
      default: break;
    }
  }

  void verify(size_t i, const char* when) {
    Obj& o = objs[i];
    switch (o.kind) {
      case K_STRING:
        if (!str_eq(*o.s, o.ms)) failc("%s: object %zu (%s) differs from the std::string model (size %zu vs %zu)", when, i, kind_name[o.kind], o.s->size(), o.ms.size());
        break;
      case K_VINT: {
        auto& x = *o.vi;
        if (x.size() != o.mvi.size()) failc("%s: object %zu (%s) has %zu elements, model %zu", when, i, kind_name[o.kind], x.size(), o.mvi.size());
        for (size_t j = 0; j < o.mvi.size(); j++)
          if (x[j] != o.mvi[j]) failc("%s: object %zu (%s) differs from the model at %zu: %d vs %d", when, i, kind_name[o.kind], j, x[j], o.mvi[j]);
        break;
      }
      case K_VSTR: {
        auto& x = *o.vs;
        if (x.size() != o.mvs.size()) failc("%s: object %zu (%s) has %zu elements, model %zu", when, i, kind_name[o.kind], x.size(), o.mvs.size());
        for (size_t j = 0; j < o.mvs.size(); j++)
          if (!str_eq(x[j], o.mvs[j])) failc("%s: object %zu (%s) differs from the model at %zu", when, i, kind_name[o.kind], j);
        break;
      }
      case K_NESTED: {
        auto& x = *o.vn;
        if (x.size() != o.mvn.size()) failc("%s: object %zu (%s) has %zu elements, model %zu", when, i, kind_name[o.kind], x.size(), o.mvn.size());
        for (size_t j = 0; j < o.mvn.size(); j++) {
          if (x[j].size() != o.mvn[j].size()) failc("%s: object %zu (%s): inner vector %zu has %zu elements, model %zu", when, i, kind_name[o.kind], j, x[j].size(), o.mvn[j].size());
          for (size_t k = 0; k < o.mvn[j].size(); k++)
            if (!str_eq(x[j][k], o.mvn[j][k])) failc("%s: object %zu (%s) differs from the model at [%zu][%zu]", when, i, kind_name[o.kind], j, k);
        }
        break;
      }
      case K_MSG:
      case K_MSG_BASE: {
        const ::google::protobuf::Message& m = o.kind == K_MSG ? static_cast<const ::google::protobuf::Message&>(*o.msg) : *o.base;
        if (m.SerializeAsString() != o.mmsg.SerializeAsString())
          failc("%s: object %zu (%s) serializes differently from the heap message built by the same setters:\n  got    %s\n  expect %s", when, i,
                kind_name[o.kind], m.ShortDebugString().substr(0, 300).c_str(), o.mmsg.ShortDebugString().substr(0, 300).c_str());
        break;
      }
      case K_TRACKED:
        if (o.tr->get() != o.mtr) failc("%s: object %zu (Tracked) holds %d, model %d", when, i, o.tr->get(), o.mtr);
        break;
      default: break;
    }
  }

  const void* address(Obj& o) {
    switch (o.kind) {
      case K_STRING: return o.s.get();
      case K_VINT: return o.vi.get();
      case K_VSTR: return o.vs.get();
      case K_NESTED: return o.vn.get();
      case K_MSG: return o.msg.get();
      case K_MSG_BASE: return o.base.get();
      default: return o.tr.get();
    }
  }

  void before_clear(Obj& o) {
    switch (o.kind) {
      case K_STRING: o.cap = o.s->capacity(); break;
      case K_VINT: o.cap = o.vi->capacity(); o.cons = o.vi->constructed_size(); break;
      case K_VSTR: o.cap = o.vs->capacity(); o.cons = o.vs->constructed_size(); break;
      case K_NESTED: o.cap = o.vn->capacity(); o.cons = o.vn->constructed_size(); break;
      default: break;
    }
    o.addr = address(o);
  }

  // after manager.clear(): the accessor designates an empty object; capacity is kept (same instance) or rebuilt (re-creation)
  void after_clear(size_t i, bool recreated) {
    Obj& o = objs[i];
    const void* now = address(o);
    if (!now) failc("after clear(): accessor of object %zu (%s) yields null", i, kind_name[o.kind]);
    if (!mgr->resource().contains(now)) failc("after clear(): object %zu (%s) at %p is not inside the manager's resource", i, kind_name[o.kind], now);
    if (!recreated && now != o.addr) failc("a logical clear (no re-creation due) moved object %zu (%s) from %p to %p", i, kind_name[o.kind], o.addr, now);
    switch (o.kind) {
      case K_STRING:
        if (!o.s) failc("accessor turned false");
        if (!o.s->empty() || o.s->c_str()[0] != 0) failc("after clear(): object %zu (SwissString) is not empty (size %zu)", i, o.s->size());
        if (o.s->capacity() < o.cap) failc("after clear()%s: capacity of object %zu (SwissString) fell from %zu to %zu", recreated ? " with re-creation" : "", i, o.cap, o.s->capacity());
        o.ms.clear();
        break;
      case K_VINT:
        if (!o.vi->empty() || o.vi->begin() != o.vi->end()) failc("after clear(): object %zu (%s) is not empty", i, kind_name[o.kind]);
        if (o.vi->capacity() < (recreated ? o.cons : o.cap)) failc("after clear()%s: capacity of object %zu (%s) fell below what it retained: %zu < %zu", recreated ? " with re-creation" : "", i, kind_name[o.kind], o.vi->capacity(), recreated ? o.cons : o.cap);
        if (!recreated && o.vi->constructed_size() < o.cons) failc("after clear(): constructed_size of object %zu fell from %zu to %zu", i, o.cons, o.vi->constructed_size());
        o.mvi.clear();
        break;
      case K_VSTR:
        if (!o.vs->empty()) failc("after clear(): object %zu (%s) is not empty", i, kind_name[o.kind]);
        if (o.vs->capacity() < (recreated ? o.cons : o.cap)) failc("after clear()%s: capacity of object %zu (%s) fell below what it retained: %zu < %zu", recreated ? " with re-creation" : "", i, kind_name[o.kind], o.vs->capacity(), recreated ? o.cons : o.cap);
        if (o.vs->constructed_size() < o.cons) failc("after clear()%s: constructed_size of object %zu (%s) fell from %zu to %zu", recreated ? " with re-creation" : "", i, kind_name[o.kind], o.cons, o.vs->constructed_size());
        o.mvs.clear();
        break;
      case K_NESTED:
        if (!o.vn->empty()) failc("after clear(): object %zu (%s) is not empty", i, kind_name[o.kind]);
        if (o.vn->capacity() < (recreated ? o.cons : o.cap)) failc("after clear()%s: capacity of object %zu (%s) fell below what it retained", recreated ? " with re-creation" : "", i, kind_name[o.kind]);
        if (o.vn->constructed_size() < o.cons) failc("after clear()%s: constructed_size of object %zu (%s) fell from %zu to %zu", recreated ? " with re-creation" : "", i, kind_name[o.kind], o.cons, o.vn->constructed_size());
        o.mvn.clear();
        break;
      case K_MSG:
      case K_MSG_BASE: {
        const ::google::protobuf::Message& m = o.kind == K_MSG ? static_cast<const ::google::protobuf::Message&>(*o.msg) : *o.base;
        if (m.ByteSizeLong() != 0) failc("after clear(): object %zu (%s) is not empty: %s", i, kind_name[o.kind], m.ShortDebugString().substr(0, 300).c_str());
        ::google::protobuf::Arena& arena = mgr->resource();
        if (m.GetArena() != &arena) failc("after clear(): object %zu (%s) is not on the manager's arena", i, kind_name[o.kind]);
        o.mmsg.Clear();
        break;
      }
      case K_TRACKED:
        if (o.tr->get() != 0) failc("after clear(): object %zu (Tracked) holds %d", i, o.tr->get());
        if (o.tr->cap < o.tracked_high) failc("after clear()%s: Tracked lost its retained capacity: %d < %d", recreated ? " with re-creation" : "", o.tr->cap, o.tracked_high);
        o.mtr = 0;
        break;
      default: break;
    }
  }

  // one cycle: run fills, verify, clear, verify. Returns the growth of space_used() during the workload.
  size_t cycle(const std::vector<Fill>& w) {
    SwissMemoryResource& res = mgr->resource();
    size_t u0 = res.space_used();
    for (auto& f : w) apply(f);
    size_t u1 = res.space_used();
    for (size_t i = 0; i < objs.size(); i++) verify(i, "during the cycle");
    for (auto& o : objs) before_clear(o);
    long extracted0 = g_reg->extracted, destroyed0 = g_reg->destroyed, cleared0 = g_reg->cleared;
    size_t tracked = 0;
    for (auto& o : objs) tracked += o.kind == K_TRACKED;
    mgr->clear();
    clears++;
    bool recreated = clears % interval == 0;
    if (recreated) {
      recreations++;
      vfz::label("recreation");
      if ((size_t)(g_reg->extracted - extracted0) != tracked) failc("re-creation extracted the capacity of %ld of %zu Tracked objects", g_reg->extracted - extracted0, tracked);
      if ((size_t)(g_reg->destroyed - destroyed0) != tracked) failc("re-creation destroyed %ld of %zu Tracked objects", g_reg->destroyed - destroyed0, tracked);
      if (g_reg->live.size() != tracked) failc("after re-creation %zu Tracked objects are alive, expected %zu", g_reg->live.size(), tracked);
    } else {
      vfz::label("logical_clear");
      if ((size_t)(g_reg->cleared - cleared0) != tracked) failc("a logical clear reached %ld of %zu Tracked objects", g_reg->cleared - cleared0, tracked);
      if (g_reg->destroyed != destroyed0) failc("a logical clear destroyed objects");
    }
    for (size_t i = 0; i < objs.size(); i++) after_clear(i, recreated);
    return u1 - u0;
  }

  void run() {
    g_reg->live.clear();
    unsigned cfg = d.u8();
    interval = 1 + cfg % 5;
    static const size_t PS[] = {0, 256, 1024, 4096};
    size_t ps = PS[(cfg >> 4) % 4];
    mgr.reset(new Manager);
    if (ps) {
      pa.set_page_size(ps);
      mgr->resource().set_page_allocator(pa);
    }
    mgr->set_recreate_interval(interval);
    size_t nobj = 1 + d.u8() % 5;
    note("interval=%zu ps=%zu objs=[", interval, ps);
    for (size_t i = 0; i < nobj; i++) {
      Obj o;
      o.kind = (Kind)(d.u8() % K_KINDS);
      switch (o.kind) {
        case K_STRING: o.s = (d.u8() & 1) ? mgr->create_object<SwissString>() : mgr->create_object<SwissString>(std::string("initial value that is longer than the small buffer")); break;
        case K_VINT: o.vi = mgr->create_object<SwissVector<int>>(); break;
        case K_VSTR: o.vs = mgr->create_object<SwissVector<SwissString>>(); break;
        case K_NESTED: o.vn = mgr->create_object<SwissVector<SwissVector<SwissString>>>(); break;
        case K_MSG: o.msg = mgr->create_object<Msg>(); break;
        case K_MSG_BASE:
          o.base = mgr->create_object<::google::protobuf::Message>([](SwissMemoryResource& r) -> ::google::protobuf::Message* {
            ::google::protobuf::Arena& arena = r;
            return ::google::protobuf::Arena::CreateMessage<Msg>(&arena);
          });
          break;
        default: o.tr = mgr->create_object<Tracked>(); break;
      }
      note("%s,", kind_name[o.kind]);
      vfz::label(kind_name[o.kind]);
      objs.push_back(std::move(o));
    }
    note("]");
    // an object created with a value starts with it
    for (auto& o : objs)
      if (o.kind == K_STRING) o.ms.assign(o.s->data(), o.s->size());

    // free phase
    size_t free_cycles = d.u8() % 7;
    note("free=%zu", free_cycles);
    for (size_t c = 0; c < free_cycles && !d.done(); c++) {
      std::vector<Fill> w;
      size_t n = d.u8() % 6;
      for (size_t i = 0; i < n; i++) w.push_back(gen_fill());
      cycle(w);
    }
    // fixed phase: one workload, repeated; after the second re-creation of this phase a cycle may not take new memory
    std::vector<Fill> w;
    size_t n = 1 + d.u8() % 6;
    for (size_t i = 0; i < n; i++) w.push_back(gen_fill());
    size_t reps = 2 * interval + 1 + d.u8() % (2 * interval + 2);
    note("fixed: %zu fills x %zu cycles", n, reps);
    size_t rec0 = recreations;
    size_t checked = 0;
    for (size_t c = 0; c < reps; c++) {
      size_t rec_before = recreations - rec0;
      size_t growth = cycle(w);
      if (rec_before >= 2) {
        checked++;
        if (growth != 0)
          failc("fixed workload, cycle %zu of the fixed phase (after %zu re-creations in this phase): the workload took %zu new bytes from the resource although the same workload ran in every earlier cycle",
                c, rec_before, growth);
      } else if (growth == 0) {
        vfz::label("zero_growth_before_second_recreation");
      }
    }
    if (checked) {
      nt = true;
      vfz::label("zero_growth_checked");
    }
    // tear down: everything registered is destroyed exactly once
    mgr.reset();
    if (!g_reg->live.empty()) failc("%zu Tracked objects survive the manager", g_reg->live.size());
    if (g_reg->constructed != g_reg->destroyed) failc("Tracked: %ld constructed, %ld destroyed", g_reg->constructed, g_reg->destroyed);
  }
};

}  // namespace

// ASan / UBSan reports do not pass through vfz::fail: print the decoded case next to them
extern "C" void __asan_set_error_report_callback(void (*)(const char*));
static void vf_print_case_on_report(const char*) {
  if (g_desc) fprintf(stderr, "CASE: %s\n", g_desc->c_str());
}
extern "C" int LLVMFuzzerInitialize(int*, char***) {
  __asan_set_error_report_callback(&vf_print_case_on_report);
  return 0;
}

extern "C" int LLVMFuzzerTestOneInput(const uint8_t* data, size_t size) {
  vfz::begin_case(RULE);
  vfz::Dec d(data, size);
  std::string desc;
  g_desc = &desc;
  Registry reg;
  g_reg = &reg;
  g_excluded_f7 = false;
  {
    Runner r(d, desc);
    r.run();
    if (r.nt) vfz::nontrivial(vfz::hash_bytes(data, size), desc.substr(0, 400));
  }
  g_reg = nullptr;
  g_desc = nullptr;
  return 0;
}
