// C15: ConcurrentTransientTopic under the schedule fuzzer.
//   every consumer receives every item exactly once, all consumers receive the same
//   sequence (= publication index order), each publisher's items in submission order,
//   batches contiguous, payload complete (happens-before checked), no item before its
//   publish callback returned, end marker only after close() and after the last item,
//   no lost wake-up (DEADLOCK), clear() makes the topic behave like a new one.
#include <babylon/concurrent/transient_topic.h>

#include <stdio.h>
#include <string.h>

#include <thread>
#include <vector>

#include "../engine/common/driver.h"

using dsched::Tracked;
using vf::Chooser;

namespace {

enum ItemState : int { ST_NONE = 0, ST_FILLING = 1, ST_DONE = 2 };

struct ItemInfo {
  int round;
  int pub;  // 0 = pre-published prefix, 1.. = publisher thread
  int op;   // operation index inside the publisher
  int pos;  // position inside the batch
  int state = ST_NONE;
};

struct World {
  std::vector<ItemInfo> items;  // id = index + 1
  int round = 0;
  bool quiet = false;
};
World* W;

struct ItemValue {
  uint64_t id;
};

struct Item {
  Tracked<uint64_t> id;
  Tracked<uint64_t> a;
  Tracked<uint64_t> b;
  int busy = 0;  // harness owner mark (plain, only touched while holding the baton)

  Item() = default;
  // publish(U&&) assigns the published value into the slot: this is the publisher's write
  // (for the single publish the assignment is the whole publish callback)
  Item& operator=(const ItemValue& v) {
    fill(v.id);
    W->items[(size_t)v.id - 1].state = ST_DONE;
    return *this;
  }
  void fill(uint64_t nid) {
    if (busy) dsched::fail("slot-sharing", "publisher of id %lu entered a slot another publisher is filling", (unsigned long)nid);
    busy = 1;
    ItemInfo& inf = W->items[(size_t)nid - 1];
    if (inf.state != ST_NONE) dsched::fail("harness", "id %lu filled twice", (unsigned long)nid);
    inf.state = ST_FILLING;
    if (W->quiet) {
      dsched::track_reset(&id.ts);
      dsched::track_reset(&a.ts);
      dsched::track_reset(&b.ts);
      id.v = nid;
      a.v = nid * 3 + 1;
      b.v = ~nid;
    } else {
      id.set(nid, "item.id");
      a.set(nid * 3 + 1, "item.a");
      dsched::point();
      b.set(~nid, "item.b");
    }
    busy = 0;
  }
};

using Topic = babylon::ConcurrentTransientTopic<Item>;
using Iter = Topic::Iterator;

enum PubKind { P_ONE = 0, P_BATCH = 1 };
struct PubOp {
  PubKind kind;
  int n;
  bool conc;
  uint64_t first_id;  // ids first_id .. first_id + n - 1
};
struct PubPlan {
  std::vector<PubOp> ops;
};
struct ConsPlan {
  bool is_const;
  int skip;                 // first batch size (walk over the prefix), 0 = none
  std::vector<int> batch;   // 0 = consume() pointer form, 1..6 = consume(n); cycled
  std::vector<uint64_t> got;
  bool slept_through_close = false;
};

struct Round {
  int pre = 0;
  uint64_t pre_first = 0;
  std::vector<PubPlan> pubs;
  std::vector<ConsPlan> cons;
  size_t total = 0;
  bool close_started = false;
  bool crossing_publish = false;
  bool crossing_consume = false;
};

void mark_done(uint64_t first, int n) {
  for (int i = 0; i < n; i++) W->items[(size_t)first - 1 + (size_t)i].state = ST_DONE;
}

void run_publisher(Topic& topic, Round& R, int p) {
  PubPlan& plan = R.pubs[(size_t)p];
  for (size_t k = 0; k < plan.ops.size(); k++) {
    PubOp& op = plan.ops[k];
    if (op.kind == P_ONE) {
      ItemValue v{op.first_id};
      if (op.conc) topic.publish(v);
      else topic.publish<false>(v);
    } else {
      int filled = 0, calls = 0;
      auto cb = [&](Iter b, Iter e) {
        calls++;
        int here = 0;
        if (e - b <= 0 || (e - b) > op.n - filled)
          dsched::fail("batch-range", "publish_n(%d) callback got a range of %ld with %d already filled", op.n, (long)(e - b), filled);
        for (; b != e; ++b) {
          b->fill(op.first_id + (uint64_t)filled + (uint64_t)here);
          here++;
        }
        mark_done(op.first_id + (uint64_t)filled, here);
        filled += here;
      };
      if (op.conc) topic.publish_n((size_t)op.n, cb);
      else topic.publish_n<false>((size_t)op.n, cb);
      if (filled != op.n) dsched::fail("batch-range", "publish_n(%d) handed out %d slots in total", op.n, filled);
      if (calls > 1) R.crossing_publish = true;
    }
  }
}

template <class Consumer>
void consume_loop(Consumer consumer, Round& R, ConsPlan& plan, int cidx) {
  size_t index = 0;  // next publication index this consumer expects
  size_t bi = 0;
  bool first = true;
  int after_end = 0;
  for (;;) {
    int n;
    if (first && plan.skip > 0) n = plan.skip;
    else { n = plan.batch[bi % plan.batch.size()]; bi++; }
    first = false;
    size_t want = n == 0 ? 1 : (size_t)n;
    size_t gotn = 0;
    bool close_before = R.close_started;
    uint32_t sleeps0 = dsched::stat_futex_sleeps();
    auto take = [&](const Item& it, size_t k) {
      uint64_t id = it.id.get("item.id");
      uint64_t a = it.a.get("item.a");
      if (index + k >= (size_t)R.pre) dsched::point();  // (no extra preemption points while walking the quiet prefix)
      uint64_t b = it.b.get("item.b");
      if (id == 0 || id > W->items.size())
        dsched::fail("unpublished", "consumer %d got an item that was never published at index %zu (id %lu)", cidx, index + k, (unsigned long)id);
      ItemInfo& inf = W->items[(size_t)id - 1];
      if (inf.round != W->round)
        dsched::fail("clear", "consumer %d got id %lu of round %d at index %zu in round %d: clear() left it behind", cidx,
                     (unsigned long)id, inf.round, index + k, W->round);
      if (inf.state != ST_DONE)
        dsched::fail("premature", "consumer %d got id %lu at index %zu before its publish callback returned (state %d)", cidx,
                     (unsigned long)id, index + k, inf.state);
      if (a != id * 3 + 1 || b != ~id)
        dsched::fail("payload", "consumer %d got id %lu with torn payload a=%lx b=%lx", cidx, (unsigned long)id, (unsigned long)a,
                     (unsigned long)b);
      if (it.busy) dsched::fail("slot-sharing", "consumer %d got id %lu while a publisher is inside the slot", cidx, (unsigned long)id);
      plan.got.push_back(id);
    };
    if (n == 0) {
      auto* p = consumer.consume();
      if (p != nullptr) { gotn = 1; take(*p, 0); }
    } else {
      auto range = consumer.consume((size_t)n);
      gotn = range.size();
      if (gotn > want) dsched::fail("range-size", "consumer %d consume(%d) returned %zu items", cidx, n, gotn);
      for (size_t k = 0; k < gotn; k++) take(range[k], k);
    }
    if (gotn > 0 && index / 128 != (index + gotn - 1) / 128) R.crossing_consume = true;
    index += gotn;
    if (after_end > 0) {
      if (gotn != 0) dsched::fail("end-marker", "consumer %d received %zu more items after the end marker", cidx, gotn);
      if (--after_end == 0) break;
      continue;
    }
    if (gotn < want) {
      // end marker: nullptr / short or empty range
      if (!R.close_started) dsched::fail("end-marker", "consumer %d got the end marker (%zu of %zu) before close() was called", cidx, gotn, want);
      if (index != R.total)
        dsched::fail("end-marker", "consumer %d got the end marker after %zu of %zu items", cidx, index, R.total);
      if (!close_before && dsched::stat_futex_sleeps() > sleeps0) plan.slept_through_close = true;
      after_end = 1;  // "returns nullptr / an empty range once closed and fully consumed": ask once more
    } else if (index > R.total) {
      dsched::fail("exactly-once", "consumer %d received %zu items, only %zu were published", cidx, index, R.total);
    }
  }
}

void run_round(Chooser& c, Topic& topic, int round) {
  W->round = round;
  Round R;
  bool prefix = c.chance(1, 2);
  R.pre = prefix ? c.range(120, 130) : 0;
  int npub = c.range(1, 3), ncons = c.range(1, 3);
  dsched::describe(" R%d{pre=%d;", round, R.pre);

  auto new_ids = [&](int pub, int op, int n) {
    uint64_t first = W->items.size() + 1;
    for (int i = 0; i < n; i++) W->items.push_back(ItemInfo{round, pub, op, i, ST_NONE});
    return first;
  };
  R.pre_first = new_ids(0, 0, R.pre);
  R.total = (size_t)R.pre;
  R.pubs.resize((size_t)npub);
  for (int p = 0; p < npub; p++) {
    int nops = c.range(1, 3);
    dsched::describe(" P%d[", p + 1);
    for (int k = 0; k < nops; k++) {
      PubOp op{};
      op.kind = c.chance(1, 2) ? P_BATCH : P_ONE;
      op.n = op.kind == P_BATCH ? c.range(2, 6) : 1;
      op.conc = npub == 1 ? !c.chance(1, 2) : true;  // CONCURRENT=false only when no other publisher exists
      op.first_id = new_ids(p + 1, k, op.n);
      R.total += (size_t)op.n;
      R.pubs[(size_t)p].ops.push_back(op);
      dsched::describe("%s%s%d%s", k ? "," : "", op.kind == P_BATCH ? "n" : "p", op.n, op.conc ? "" : "!");
      dsched::label(op.kind == P_BATCH ? (op.conc ? "publish_n" : "publish_n<false>") : (op.conc ? "publish" : "publish<false>"));
    }
    dsched::describe("]");
  }
  R.cons.resize((size_t)ncons);
  for (int i = 0; i < ncons; i++) {
    ConsPlan& cp = R.cons[(size_t)i];
    cp.is_const = c.chance(1, 4);
    cp.skip = (R.pre > 0 && c.chance(7, 8)) ? R.pre - c.range(0, 8) : 0;
    int nb = c.range(1, 3);
    dsched::describe(" C%d%s[skip=%d:", i + 1, cp.is_const ? "c" : "", cp.skip);
    for (int k = 0; k < nb; k++) {
      int n = c.range(0, 6);
      cp.batch.push_back(n);
      dsched::describe("%s%d", k ? "," : "", n);
    }
    dsched::describe("]");
    if (cp.is_const) dsched::label("const_consumer");
  }
  int close_delay = c.range(0, 3);
  dsched::describe(" close+%d}", close_delay);

  // (ConcurrentTransientTopic::reserve and the ConsumeRange / Consumer `operator bool` are declared in
  //  transient_topic.h but defined nowhere in the tree: using them does not link, so they are not exercised)
  if (R.pre > 0) {
    // quiet single-threaded phase: the prefix brings the publication index next to the 128-slot block edge
    dsched::quiet_begin();
    W->quiet = true;
    for (int i = 0; i < R.pre; i++) {
      topic.publish<false>(ItemValue{R.pre_first + (uint64_t)i});
    }
    W->quiet = false;
    dsched::quiet_end();
    dsched::label("prefix");
  }

  const Topic& ctopic = topic;
  std::vector<std::thread> cons_threads, pub_threads;
  for (int i = 0; i < ncons; i++) {
    cons_threads.emplace_back([&, i] {
      ConsPlan& cp = R.cons[(size_t)i];
      if (cp.is_const) consume_loop(ctopic.subscribe(), R, cp, i + 1);
      else consume_loop(topic.subscribe(), R, cp, i + 1);
    });
  }
  for (int p = 0; p < npub; p++) pub_threads.emplace_back([&, p] { run_publisher(topic, R, p); });
  // documented precondition: close() only after every publish has completed
  for (auto& t : pub_threads) t.join();
  for (int i = 0; i < close_delay; i++) dsched::yield_point();
  R.close_started = true;
  topic.close();
  for (auto& t : cons_threads) t.join();

  // ---- oracles over the recorded histories ----
  const std::vector<uint64_t>& ref = R.cons[0].got;
  for (int i = 0; i < ncons; i++) {
    const std::vector<uint64_t>& g = R.cons[(size_t)i].got;
    if (g.size() != R.total) dsched::fail("exactly-once", "consumer %d received %zu items, %zu were published", i + 1, g.size(), R.total);
    for (size_t k = 0; k < g.size(); k++)
      if (g[k] != ref[k])
        dsched::fail("same-sequence", "consumer %d saw id %lu at index %zu, consumer 1 saw id %lu", i + 1, (unsigned long)g[k], k,
                     (unsigned long)ref[k]);
  }
  {
    std::vector<int> seen(W->items.size() + 1, 0);
    for (uint64_t id : ref)
      if (++seen[(size_t)id] > 1) dsched::fail("exactly-once", "id %lu delivered twice to one consumer", (unsigned long)id);
    for (size_t id = 1; id <= W->items.size(); id++)
      if (W->items[id - 1].round == round && !seen[id]) dsched::fail("exactly-once", "id %zu published but never delivered", id);
    // prefix first, in order
    for (int i = 0; i < R.pre; i++)
      if (ref[(size_t)i] != R.pre_first + (uint64_t)i)
        dsched::fail("order", "index %d holds id %lu, the prefix put id %lu there", i, (unsigned long)ref[(size_t)i],
                     (unsigned long)(R.pre_first + (uint64_t)i));
    // per publisher submission order, batches contiguous
    std::vector<uint64_t> last(npub + 1, 0);
    for (size_t k = 0; k < ref.size(); k++) {
      const ItemInfo& inf = W->items[(size_t)ref[k] - 1];
      if (inf.pub == 0) continue;
      if (ref[k] <= last[(size_t)inf.pub])
        dsched::fail("order", "publisher %d: id %lu delivered after its later id %lu", inf.pub, (unsigned long)ref[k],
                     (unsigned long)last[(size_t)inf.pub]);
      last[(size_t)inf.pub] = ref[k];
      if (inf.pos > 0 && (k == 0 || ref[k - 1] != ref[k] - 1))
        dsched::fail("batch-contiguous", "id %lu (position %d of a publish_n batch) does not directly follow id %lu", (unsigned long)ref[k],
                     inf.pos, (unsigned long)(ref[k] - 1));
    }
  }
  for (uint64_t id : ref) dsched::mix_hash(id);
  for (auto& cp : R.cons) {
    dsched::mix_hash(cp.got.size() * 131 + (uint64_t)cp.skip);
    if (cp.slept_through_close) dsched::label("close_raced_sleeping_consume");
  }
  if (R.crossing_publish) dsched::label("publish_n_crossed_block");
  if (R.crossing_consume) dsched::label("consume_crossed_block");
  if (R.crossing_publish || R.crossing_consume) dsched::nontrivial();
}

void run_case(Chooser& c) {
  World world;
  W = &world;
  {
    Topic topic;
    int rounds = c.chance(1, 3) ? 2 : 1;
    dsched::describe("rounds=%d", rounds);
    for (int r = 0; r < rounds; r++) {
      if (r > 0) {
        topic.clear();
        dsched::label("clear_second_round");
      }
      run_round(c, topic, r);
    }
  }
  if (dsched::stat_futex_sleeps() > 0) dsched::label("slept_in_futex");
  if (dsched::stat_futex_wakes() > 0) {
    dsched::label("woken_by_futex_wake");
    dsched::nontrivial();
  }
  W = nullptr;
}

void tune(dsched::Params& p, Chooser&) { p.max_steps = 200000; }

}  // namespace

int main(int argc, char** argv) {
  vf::Target t;
  t.name = "c15_topic";
  t.property_id = "C15";
  t.nontrivial_rule = "a consumer slept on a slot and was released by a futex_wake, or a publish_n / consume range crossed a 128-slot block";
  t.run_case = run_case;
  t.eintr_percent = 25;  // futex_wait may return early (EINTR / spurious 0) in a quarter of the cases
  t.tune = tune;
  return vf::main_driver(argc, argv, t);
}
