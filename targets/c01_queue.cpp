// C01 / C02: ConcurrentBoundedQueue under the schedule fuzzer.
//   C01: exactly once, FIFO, exclusive fully-published access, try_ honesty.
//   C02 (-DTARGET_C02): liveness configuration: small capacities, blocking ops,
//        timed exclusive pops; DEADLOCK / LIVELOCK are the verdicts that matter.
#include <babylon/concurrent/bounded_queue.h>

#include <stdio.h>
#include <string.h>
#include <time.h>

#include <map>
#include <thread>
#include <type_traits>
#include <vector>

#include "../engine/common/driver.h"

using dsched::Tracked;
using vf::Chooser;

namespace {

struct Elem {
  Tracked<uint64_t> id;
  Tracked<uint64_t> a;
  Tracked<uint64_t> b;
  int busy = 0;  // harness owner mark (plain; only touched while holding the baton)
  Elem() = default;
  Elem(const Elem& o) { *this = o; }
  // the assigning push/pop overloads move values with operator=: keep the payload under the hb check
  Elem& operator=(const Elem& o) {
    if (busy) dsched::fail("exclusive-access", "assignment into a slot that is in use");
    busy = 1;
    id.set(o.id.get("elem.id"), "elem.id");
    a.set(o.a.get("elem.a"), "elem.a");
    dsched::point();
    b.set(o.b.get("elem.b"), "elem.b");
    busy = 0;
    return *this;
  }
};
// The queue is instantiated with a scheduling interface that only watches: while a timed exclusive pop is in
// progress on this thread, every wait it asks for must end by the pop's deadline (a wait requested beyond the
// deadline returns late whenever nothing wakes it). Independent of scheduling delay, unlike a return-time bound.
// tl_timed: -1 = no timed pop in progress; 0 = in progress, no wait requested yet; > 0 = the pop's own deadline: the
// clock value it last read before its FIRST wait plus the duration it asked for. Every later wait of the same pop
// (after an early or spurious wake-up) is judged at the moment the pop last read the clock (so scheduling delay between
// reading the clock and calling the wait does not count): that clock value plus the requested duration must not lie
// beyond the deadline. A wait requested beyond it returns late whenever nothing wakes it.
thread_local int64_t tl_timed = -1;
struct WatchSched : public babylon::SchedInterface {
  static int futex_wait(uint32_t* futex, uint32_t val, const struct ::timespec* timeout) noexcept {
    if (tl_timed >= 0) {
      if (timeout == nullptr) dsched::fail("timed-pop", "a timed exclusive pop asked for an unbounded futex wait");
      int64_t req = (int64_t)timeout->tv_sec * 1000000000LL + timeout->tv_nsec;
      if (req < 0) req = 0;
      int64_t until = dsched::last_clock_read_ns() + req;
      if (tl_timed == 0) {
        tl_timed = until > 0 ? until : 1;
      } else if (until > tl_timed + 1000) {
        dsched::fail("timed-pop", "after a wake-up a timed exclusive pop asked to sleep %ld ns, i.e. until %ld ns after its own deadline",
                     (long)req, (long)(until - tl_timed));
      }
    }
    return babylon::SchedInterface::futex_wait(futex, val, timeout);
  }
};
using Queue = babylon::ConcurrentBoundedQueue<Elem, WatchSched>;
using Iter = Queue::Iterator;

enum Mode { M_FUTEX = 0, M_SPIN = 1, M_COMP = 2 };
enum OpKind {
  O_PUSH, O_TRY_PUSH, O_PUSH_N, O_TRY_PUSH_N, O_PUSH_VALUE, O_PUSH_COMP,
  O_POP, O_TRY_POP, O_POP_N, O_TRY_POP_N, O_POP_VALUE, O_POP_COMP, O_POP_TIMED
};
const char* op_name[] = {"push", "try_push", "push_n", "try_push_n", "push_value", "push_n_comp",
                         "pop", "try_pop", "pop_n", "try_pop_n", "pop_value", "pop_n_comp", "pop_timed"};

struct Op {
  OpKind kind;
  int hold;        // extra yields inside the callback (keeps the slot busy while others overtake)
  int n;           // batch size
  bool conc;       // CONCURRENT
  bool wake;       // USE_FUTEX_WAKE
  int timeout_us;  // timed pop
};

struct Event {
  uint64_t id;
  int opseq;  // index into op records
  int pos;    // position inside the op
};
struct OpRec {
  int thread;
  OpKind kind;
  uint64_t begin, end;
  dsched::Stamp done;
};

struct World {
  Queue* q;
  size_t cap;
  Mode mode;
  std::vector<OpRec> ops;
  std::vector<Event> pushed, popped;
  int inflight = 0;
  int push_inflight = 0;  // push-side operations in flight
  uint64_t op_epoch = 0;
  bool overlapped = false;
  int64_t model_size = 0;  // completed pushes - completed pops (elements)
  uint64_t next_comp_id = 1;
};
World* W;
thread_local int tl_hold = 0;  // how long the current op lingers inside its callbacks
void linger() {
  for (int i = 0; i < tl_hold; i++) dsched::yield_point();
}

uint64_t make_id(int thread, int seq) { return ((uint64_t)(thread + 1) << 20) | (uint64_t)seq; }

void fill(Elem& e, uint64_t id) {
  if (e.busy) dsched::fail("exclusive-access", "producer callback entered a slot that is in use (id %lx)", (unsigned long)id);
  e.busy = 1;
  e.id.set(id, "elem.id");
  e.a.set(id * 3 + 1, "elem.a");
  dsched::point();
  linger();
  e.b.set(~id, "elem.b");
  e.busy = 0;
}
uint64_t drain(Elem& e) {
  if (e.busy) dsched::fail("exclusive-access", "consumer callback entered a slot that is in use");
  e.busy = 1;
  uint64_t id = e.id.get("elem.id");
  uint64_t a = e.a.get("elem.a");
  dsched::point();
  linger();
  uint64_t b = e.b.get("elem.b");
  if (a != id * 3 + 1 || b != ~id)
    dsched::fail("payload", "element %lx delivered with torn payload a=%lx b=%lx", (unsigned long)id, (unsigned long)a,
                 (unsigned long)b);
  e.busy = 0;
  return id;
}

int op_begin(int thread, OpKind k) {
  if (W->inflight > 0) W->overlapped = true;
  W->inflight++;
  W->op_epoch++;
  W->ops.push_back(OpRec{thread, k, dsched::step(), 0, {}});
  return (int)W->ops.size() - 1;
}
void op_end(int seq) {
  W->inflight--;
  W->ops[(size_t)seq].end = dsched::step();
  W->ops[(size_t)seq].done = dsched::stamp();
}
bool all_prior_ordered(int seq) {
  for (int i = 0; i < seq; i++) {
    const OpRec& r = W->ops[(size_t)i];
    if (r.end == 0 || !dsched::ordered_after(r.done)) return false;
  }
  return true;
}

template <class F>
void dispatch3(bool a, bool b, bool c, F&& f) {
  auto T = std::true_type{};
  auto Fa = std::false_type{};
  if (a) { if (b) { if (c) f(T, T, T); else f(T, T, Fa); } else { if (c) f(T, Fa, T); else f(T, Fa, Fa); } }
  else   { if (b) { if (c) f(Fa, T, T); else f(Fa, T, Fa); } else { if (c) f(Fa, Fa, T); else f(Fa, Fa, Fa); } }
}
template <class F>
void dispatch2(bool a, bool b, F&& f) {
  auto T = std::true_type{};
  auto Fa = std::false_type{};
  if (a) { if (b) f(T, T); else f(T, Fa); } else { if (b) f(Fa, T); else f(Fa, Fa); }
}

struct ThreadPlan {
  bool producer;
  int quota;  // elements to move with this thread
  std::vector<Op> ops;
};

// ---- producer side -----------------------------------------------------------
void do_push_ops(int thread, const ThreadPlan& plan) {
  Queue& q = *W->q;
  bool wait = W->mode == M_FUTEX;
  int seq = 0, left = plan.quota;
  size_t opi = 0;
  while (left > 0) {
    Op op = opi < plan.ops.size() ? plan.ops[opi] : Op{W->mode == M_COMP ? O_PUSH_COMP : O_PUSH, 0, 1, true, true, 0};
    opi++;
    int n = op.n < 1 ? 1 : op.n;
    if (n > left) n = left;
    if ((size_t)n > W->cap) n = (int)W->cap;
    tl_hold = op.hold;
    int rec = op_begin(thread, op.kind);
    W->push_inflight++;
    uint64_t epoch0 = W->op_epoch;
    bool alone0 = W->inflight == 1;
    int64_t size0 = W->model_size;
    int done = 0;
    auto rec_push = [&](uint64_t id, int pos) { W->pushed.push_back(Event{id, rec, pos}); };
    switch (op.kind) {
      case O_PUSH:
        dispatch3(op.conc, wait, op.wake, [&](auto C, auto Wt, auto K) {
          q.template push<C(), Wt(), K()>([&](Elem& e) { uint64_t id = make_id(thread, seq++); rec_push(id, 0); fill(e, id); });
        });
        done = 1;
        break;
      case O_PUSH_VALUE: {
        // the assigning overload: value constructed outside, moved in by operator=
        Elem v;
        uint64_t id = make_id(thread, seq++);
        fill(v, id);
        rec_push(id, 0);
        dispatch3(op.conc, wait, op.wake, [&](auto C, auto Wt, auto K) { q.template push<C(), Wt(), K()>(v); });
        done = 1;
        break;
      }
      case O_TRY_PUSH: {
        bool ok = false;
        dispatch2(op.conc, op.wake, [&](auto C, auto K) {
          ok = q.template try_push<C(), K()>([&](Elem& e) { uint64_t id = make_id(thread, seq++); rec_push(id, 0); fill(e, id); });
        });
        if (!ok) {
          dsched::label("try_push_failed");
          if (alone0 && epoch0 == W->op_epoch && all_prior_ordered(rec) && size0 < (int64_t)W->cap)
            dsched::fail("try-honesty", "try_push failed although the queue held %ld of %zu and nothing overlapped", (long)size0, W->cap);
        }
        done = ok ? 1 : 0;
        break;
      }
      case O_PUSH_N:
        dispatch3(op.conc, wait, op.wake, [&](auto C, auto Wt, auto K) {
          int pos = 0;
          q.template push_n<C(), Wt(), K()>([&](Iter b, Iter e) {
            for (; b != e; ++b) { uint64_t id = make_id(thread, seq++); rec_push(id, pos++); fill(*b, id); }
          }, (size_t)n);
        });
        done = n;
        break;
      case O_TRY_PUSH_N: {
        size_t r = 0;
        dispatch2(op.conc, op.wake, [&](auto C, auto K) {
          int pos = 0;
          r = q.template try_push_n<C(), K()>([&](Iter b, Iter e) {
            for (; b != e; ++b) { uint64_t id = make_id(thread, seq++); rec_push(id, pos++); fill(*b, id); }
          }, (size_t)n);
        });
        if (r > (size_t)n) dsched::fail("try-honesty", "try_push_n returned %zu > %d", r, n);
        if (r < (size_t)n) {
          dsched::label("try_push_n_short");
          if (alone0 && epoch0 == W->op_epoch && all_prior_ordered(rec) && (int64_t)W->cap - size0 > (int64_t)r)
            dsched::fail("try-honesty", "try_push_n pushed %zu of %d although %ld slots were free and nothing overlapped", r, n,
                         (long)((int64_t)W->cap - size0));
        }
        done = (int)r;
        break;
      }
      case O_PUSH_COMP: {
        int pos = 0;
        q.push_n(
            [&](Iter b, Iter e) { for (; b != e; ++b) { uint64_t id = make_id(thread, seq++); rec_push(id, pos++); fill(*b, id); } },
            [&](Iter b, Iter e) {
              // queue full: the pusher itself consumes to make room
              for (; b != e; ++b) { uint64_t id = drain(*b); W->popped.push_back(Event{id, rec, 1000 + pos++}); W->model_size--; dsched::label("comp_push_consumed"); }
            },
            (size_t)n);
        done = n;
        break;
      }
      default:
        break;
    }
    W->model_size += done;
    W->push_inflight--;
    op_end(rec);
    left -= done;
    if (done == 0) dsched::yield_point();
  }
}

// ---- consumer side -----------------------------------------------------------
void do_pop_ops(int thread, const ThreadPlan& plan) {
  Queue& q = *W->q;
  bool wait = W->mode == M_FUTEX;
  int left = plan.quota;
  size_t opi = 0;
  int fails = 0;
  while (left > 0) {
    Op op = opi < plan.ops.size() ? plan.ops[opi] : Op{W->mode == M_COMP ? O_POP_COMP : O_POP, 0, 1, true, true, 0};
    opi++;
    // a consumer that keeps failing falls back to a blocking / compensating pop
    if (fails >= 3 && (op.kind == O_TRY_POP || op.kind == O_TRY_POP_N || op.kind == O_POP_TIMED))
      op = Op{W->mode == M_COMP ? O_POP_COMP : O_POP, 0, 1, op.conc, true, 0};
    int n = op.n < 1 ? 1 : op.n;
    if (n > left) n = left;
    if ((size_t)n > W->cap) n = (int)W->cap;
    tl_hold = op.hold;
    int rec = op_begin(thread, op.kind);
    uint64_t epoch0 = W->op_epoch;
    bool alone0 = W->inflight == 1;
    int64_t size0 = W->model_size;
    int done = 0;
    auto rec_pop = [&](uint64_t id, int pos) { W->popped.push_back(Event{id, rec, pos}); };
    switch (op.kind) {
      case O_POP:
        dispatch3(op.conc, wait, op.wake, [&](auto C, auto Wt, auto K) {
          q.template pop<C(), Wt(), K()>([&](Elem& e) { rec_pop(drain(e), 0); });
        });
        done = 1;
        break;
      case O_POP_VALUE: {
        Elem out;
        dispatch3(op.conc, wait, op.wake, [&](auto C, auto Wt, auto K) { q.template pop<C(), Wt(), K()>(out); });
        rec_pop(drain(out), 0);
        done = 1;
        break;
      }
      case O_TRY_POP: {
        bool ok = false;
        dispatch2(op.conc, op.wake, [&](auto C, auto K) {
          ok = q.template try_pop<C(), K()>([&](Elem& e) { rec_pop(drain(e), 0); });
        });
        if (!ok) {
          dsched::label("try_pop_failed");
          if (alone0 && epoch0 == W->op_epoch && all_prior_ordered(rec) && size0 > 0)
            dsched::fail("try-honesty", "try_pop failed although the queue held %ld elements and nothing overlapped", (long)size0);
        }
        done = ok ? 1 : 0;
        break;
      }
      case O_POP_N:
        dispatch3(op.conc, wait, op.wake, [&](auto C, auto Wt, auto K) {
          int pos = 0;
          q.template pop_n<C(), Wt(), K()>([&](Iter b, Iter e) { for (; b != e; ++b) rec_pop(drain(*b), pos++); }, (size_t)n);
        });
        done = n;
        break;
      case O_TRY_POP_N: {
        size_t r = 0;
        dispatch2(op.conc, op.wake, [&](auto C, auto K) {
          int pos = 0;
          r = q.template try_pop_n<C(), K()>([&](Iter b, Iter e) { for (; b != e; ++b) rec_pop(drain(*b), pos++); }, (size_t)n);
        });
        if (r > (size_t)n) dsched::fail("try-honesty", "try_pop_n returned %zu > %d", r, n);
        if (r < (size_t)n) {
          dsched::label("try_pop_n_short");
          if (alone0 && epoch0 == W->op_epoch && all_prior_ordered(rec) && size0 > (int64_t)r)
            dsched::fail("try-honesty", "try_pop_n popped %zu of %d although %ld elements were queued and nothing overlapped", r, n, (long)size0);
        }
        done = (int)r;
        break;
      }
      case O_POP_COMP: {
        int pos = 0;
        q.pop_n(
            [&](Iter b, Iter e) { for (; b != e; ++b) rec_pop(drain(*b), pos++); },
            [&](Iter b, Iter e) {
              // queue empty: the popper itself produces
              for (; b != e; ++b) {
                uint64_t id = make_id(100 + thread, (int)W->next_comp_id++);
                W->pushed.push_back(Event{id, rec, 1000 + pos++});
                fill(*b, id);
                W->model_size++;
                dsched::label("comp_pop_produced");
              }
            },
            (size_t)n);
        done = n;
        break;
      }
      case O_POP_TIMED: {
        struct timespec to = {op.timeout_us / 1000000, (op.timeout_us % 1000000) * 1000L};
        int64_t t0 = dsched::now_ns();
        // Completed pushes are certainly available only if no push is in flight:
        // an unfinished push with an earlier ticket hides the completed ones behind it.
        int64_t pushed_before = W->push_inflight == 0 ? size0 : 0;
        size_t r = 0;
        int pos = 0;
        // the deadline bounds the wait, not the time the client's own callback takes: stop the watch when the
        // first callback starts (or at the return when nothing was delivered)
        int64_t t_wait_end = -1;
        auto cb = [&](Iter b, Iter e) {
          tl_timed = -1;
          if (t_wait_end < 0) t_wait_end = dsched::now_ns();
          for (; b != e; ++b) rec_pop(drain(*b), pos++);
        };
        tl_timed = 0;
        if (op.wake) r = q.template try_pop_n_exclusively_until<true>(cb, (size_t)n, &to);
        else r = q.template try_pop_n_exclusively_until<false>(cb, (size_t)n, &to);
        tl_timed = -1;
        if (t_wait_end < 0) t_wait_end = dsched::now_ns();
        int64_t dt = t_wait_end - t0;
        int64_t limit = (int64_t)op.timeout_us * 1000 + 2000000 + 200000;
        if (dt > limit) dsched::fail("timed-pop", "timed exclusive pop returned after %ld ns, timeout %d us", (long)dt, op.timeout_us);
        if (r > (size_t)n) dsched::fail("timed-pop", "timed pop returned %zu > %d", r, n);
        int64_t must = pushed_before < n ? pushed_before : n;
        if (dsched::weak_mode() && !all_prior_ordered(rec)) must = 0;
        if ((int64_t)r < must) dsched::fail("timed-pop", "timed pop returned %zu but %ld elements were completely pushed before the call", r, (long)must);
        if (r < (size_t)n) dsched::label("timed_pop_short");
        else dsched::label("timed_pop_full");
        done = (int)r;
        break;
      }
      default:
        break;
    }
    W->model_size -= done;
    op_end(rec);
    left -= done;
    if (done == 0) { fails++; dsched::yield_point(); } else fails = 0;
  }
}

// ---- the case ------------------------------------------------------------------
void run_case(Chooser& c) {
  World world;
  W = &world;
#ifdef TARGET_C02
  Mode mode = c.chance(3, 4) ? M_FUTEX : M_SPIN;
  size_t min_cap = (size_t)c.range(1, 4);
#else
  Mode mode = (Mode)c.below(3);
  size_t min_cap = (size_t)c.range(1, 8);
#endif
  Queue q(min_cap);
  world.q = &q;
  world.cap = q.capacity();
  world.mode = mode;
  bool pump = c.chance(1, 4);
  int maxt = vf::thorough() ? 4 : 3;
  int nprod = c.range(1, maxt), ncons = c.range(1, maxt);
#ifdef TARGET_C02
  bool timed_consumer = ncons == 1 && c.chance(1, 3);
#else
  bool timed_consumer = false;
#endif
  int total = c.range(1, vf::thorough() ? 32 : 16);
  if (total < nprod) total = nprod;
  if (total < ncons) total = ncons;

  static const char* mode_name[] = {"FUTEX", "SPIN", "COMP"};
  dsched::describe("mode=%s cap=%zu pump=%d total=%d;", mode_name[mode], world.cap, (int)pump, total);
  dsched::label(mode == M_FUTEX ? "mode_futex" : mode == M_SPIN ? "mode_spin" : "mode_comp");

  if (pump) {
    // run the ticket counters up to just before the 16-bit version wrap
    dsched::quiet_begin();
    size_t rounds = 32766 + c.below(3);
    std::vector<Elem> tmp(world.cap);
    for (size_t r = 0; r < rounds; r++) {
      q.push_n<false, false, false>([&](Iter, Iter) {}, world.cap);
      q.pop_n<false, false, false>([&](Iter, Iter) {}, world.cap);
    }
    dsched::quiet_end();
    dsched::label("pumped_to_wrap");
  }

  // start somewhere inside the ring, so that wrap-arounds fall at varying places of the program
  {
    size_t off = c.below((uint32_t)world.cap);
    if (off) {
      dsched::quiet_begin();
      for (size_t i = 0; i < off; i++) {
        q.push<false, false, false>([&](Elem&) {});
        q.pop<false, false, false>([&](Elem&) {});
      }
      dsched::quiet_end();
      dsched::label("ring_offset");
    }
    dsched::describe(" off=%zu;", off);
  }

  // quotas
  std::vector<ThreadPlan> plans;
  auto split = [&](int parts, bool producer) {
    std::vector<int> q2((size_t)parts, 1);
    for (int i = parts; i < total; i++) q2[c.below((uint32_t)parts)]++;
    for (int i = 0; i < parts; i++) plans.push_back(ThreadPlan{producer, q2[(size_t)i], {}});
  };
  split(nprod, true);
  split(ncons, false);
  for (size_t t = 0; t < plans.size(); t++) {
    ThreadPlan& p = plans[t];
    int nops = c.range(1, 4);
    bool single_side = p.producer ? nprod == 1 : ncons == 1;
    dsched::describe(" T%zu%s q=%d[", t + 1, p.producer ? "P" : "C", p.quota);
    for (int i = 0; i < nops; i++) {
      Op op{};
      op.hold = c.chance(1, 4) ? c.range(1, 6) : 0;
      op.n = c.range(1, (int)world.cap);
      // CONCURRENT=false only where exactly one thread ever touches that end; with
      // compensation every thread may touch both ends
      op.conc = (single_side && mode != M_COMP) ? c.flip() : true;
      op.wake = mode == M_FUTEX ? true : (mode == M_COMP ? false : c.flip());
      op.timeout_us = 0;
      if (p.producer) {
        static const OpKind fut[] = {O_PUSH, O_PUSH, O_TRY_PUSH, O_PUSH_N, O_PUSH_N, O_TRY_PUSH_N, O_PUSH_VALUE};
        static const OpKind comp[] = {O_PUSH_COMP, O_PUSH_COMP, O_TRY_PUSH, O_TRY_PUSH_N};
        op.kind = mode == M_COMP ? c.pick(comp) : c.pick(fut);
      } else {
        static const OpKind fut[] = {O_POP, O_POP, O_TRY_POP, O_POP_N, O_POP_N, O_TRY_POP_N, O_POP_VALUE};
        static const OpKind comp[] = {O_POP_COMP, O_POP_COMP, O_TRY_POP, O_TRY_POP_N};
        op.kind = mode == M_COMP ? c.pick(comp) : c.pick(fut);
        if (timed_consumer && c.chance(1, 2)) {
          op.kind = O_POP_TIMED;
          static const int tos[] = {0, 1, 1000, 1000000};
          op.timeout_us = c.pick(tos);
          op.conc = false;
        }
      }
      // the compensating overloads take tickets with an atomic add: always concurrent-safe
      if (op.kind == O_PUSH_COMP || op.kind == O_POP_COMP) op.conc = true;
      p.ops.push_back(op);
      dsched::describe("%s%s(n=%d%s%s%s%s)", i ? "," : "", op_name[op.kind], op.n, op.conc ? "" : ",nc", op.wake ? ",wake" : "",
                       op.kind == O_POP_TIMED ? ",timed" : "", op.hold ? ",hold" : "");
      if (op.hold) dsched::label("op_lingers_in_callback");
      dsched::label(op_name[op.kind]);
    }
    dsched::describe("]");
  }

  std::vector<std::thread> threads;
  for (size_t t = 0; t < plans.size(); t++) {
    threads.emplace_back([&, t] {
      if (plans[t].producer) do_push_ops((int)t + 1, plans[t]);
      else do_pop_ops((int)t + 1, plans[t]);
    });
  }
  for (auto& th : threads) th.join();

  // quiescent: drain what compensation left behind, with exact sequential expectations
  size_t remaining = 0;
  {
    int rec = op_begin(0, O_TRY_POP_N);
    int pos = 0;
    for (;;) {
      size_t r = q.try_pop_n<true, false>([&](Iter b, Iter e) { for (; b != e; ++b) world.popped.push_back(Event{drain(*b), rec, pos++}); }, world.cap);
      remaining += r;
      if (r == 0) break;
    }
    op_end(rec);
  }
  if ((int64_t)remaining != world.model_size)
    dsched::fail("conservation", "final drain found %zu elements, model expects %ld", remaining, (long)world.model_size);
  if (q.size() != 0) dsched::fail("conservation", "size() == %zu after the final drain", q.size());

  // quiescent epilogue: the drained queue behaves like a new one (size/clear/reserve/swap, FIFO)
  {
    size_t k = (size_t)c.range(0, (int)world.cap);
    for (size_t i = 0; i < k; i++) q.push<false, false, false>([&](Elem& e) { fill(e, 0x7000000 + i); });
    if (q.size() != k) dsched::fail("sequential", "size() == %zu after %zu pushes into an empty queue", q.size(), k);
    uint8_t how = (uint8_t)c.below(4);
    if (how == 1) {
      q.clear();
      if (q.size() != 0) dsched::fail("sequential", "size() == %zu after clear()", q.size());
      bool got = q.try_pop<false, false>([&](Elem&) {});
      if (got) dsched::fail("sequential", "try_pop succeeded after clear()");
      dsched::label("epilogue_clear");
    } else if (how == 2) {
      Queue other(1);
      other.swap(q);
      if (q.capacity() != 1 || q.size() != 0 || other.size() != k || other.capacity() != world.cap)
        dsched::fail("sequential", "swap: sizes/capacities wrong (this %zu/%zu other %zu/%zu)", q.size(), q.capacity(), other.size(), other.capacity());
      for (size_t i = 0; i < k; i++) {
        uint64_t id = 0;
        if (!other.try_pop<false, false>([&](Elem& e) { id = drain(e); }) || id != 0x7000000 + i)
          dsched::fail("sequential", "after swap element %zu came out as %lx", i, (unsigned long)id);
      }
      other.swap(q);
      dsched::label("epilogue_swap");
    } else if (how == 3) {
      size_t ncap = (size_t)c.range(1, 9);
      size_t got = q.reserve_and_clear(ncap);
      size_t want = 1;
      while (want < ncap) want <<= 1;
      if (got != want || q.capacity() != want || q.size() != 0)
        dsched::fail("sequential", "reserve_and_clear(%zu) -> %zu, capacity %zu size %zu", ncap, got, q.capacity(), q.size());
      for (size_t i = 0; i < want; i++)
        if (!q.try_push<false, false>([&](Elem& e) { fill(e, 0x7100000 + i); })) dsched::fail("sequential", "try_push %zu failed on a cleared queue of capacity %zu", i, want);
      if (q.try_push<false, false>([&](Elem&) {})) dsched::fail("sequential", "try_push succeeded on a full queue");
      for (size_t i = 0; i < want; i++) {
        uint64_t id = 0;
        if (!q.try_pop<false, false>([&](Elem& e) { id = drain(e); }) || id != 0x7100000 + i)
          dsched::fail("sequential", "after reserve_and_clear element %zu came out as %lx", i, (unsigned long)id);
      }
      dsched::label("epilogue_reserve");
    } else {
      for (size_t i = 0; i < k; i++) {
        uint64_t id = 0;
        if (!q.try_pop<false, false>([&](Elem& e) { id = drain(e); }) || id != 0x7000000 + i)
          dsched::fail("sequential", "sequential FIFO broken: element %zu came out as %lx", i, (unsigned long)id);
      }
      if (q.try_pop<false, false>([&](Elem&) {})) dsched::fail("sequential", "try_pop succeeded on an empty queue");
    }
  }

  // (1) multiset equality
  std::map<uint64_t, int> bal;
  for (auto& e : world.pushed) bal[e.id]++;
  for (auto& e : world.pushed)
    if (bal[e.id] > 1) dsched::fail("exactly-once", "harness pushed id %lx twice", (unsigned long)e.id);
  std::map<uint64_t, int> seen;
  for (auto& e : world.popped) {
    if (!bal.count(e.id)) dsched::fail("exactly-once", "popped id %lx that was never pushed", (unsigned long)e.id);
    if (++seen[e.id] > 1) dsched::fail("exactly-once", "id %lx delivered twice", (unsigned long)e.id);
  }
  if (seen.size() != bal.size()) {
    for (auto& kv : bal)
      if (!seen.count(kv.first)) dsched::fail("exactly-once", "id %lx pushed but never delivered (lost)", (unsigned long)kv.first);
  }
  // (2) FIFO between ordered operations
  std::map<uint64_t, const Event*> pop_of;
  for (auto& e : world.popped) pop_of[e.id] = &e;
  for (auto& A : world.pushed)
    for (auto& B : world.pushed) {
      if (A.id == B.id) continue;
      const OpRec& pa = world.ops[(size_t)A.opseq];
      const OpRec& pb = world.ops[(size_t)B.opseq];
      bool a_before_b = (pa.end < pb.begin) || (A.opseq == B.opseq && A.pos < B.pos);
      if (!a_before_b) continue;
      const Event* xa = pop_of[A.id];
      const Event* xb = pop_of[B.id];
      const OpRec& qa = world.ops[(size_t)xa->opseq];
      const OpRec& qb = world.ops[(size_t)xb->opseq];
      bool b_popped_first = (qb.end < qa.begin) || (xa->opseq == xb->opseq && xb->pos < xa->pos);
      if (b_popped_first)
        dsched::fail("fifo",
                     "id %lx was pushed before id %lx but popped after it by ordered operations: push(A)=op%d[T%d %s %lu..%lu pos %d] "
                     "push(B)=op%d[T%d %s %lu..%lu pos %d] pop(A)=op%d[T%d %s %lu..%lu pos %d] pop(B)=op%d[T%d %s %lu..%lu pos %d]",
                     (unsigned long)A.id, (unsigned long)B.id, A.opseq, pa.thread, op_name[pa.kind], (unsigned long)pa.begin,
                     (unsigned long)pa.end, A.pos, B.opseq, pb.thread, op_name[pb.kind], (unsigned long)pb.begin, (unsigned long)pb.end,
                     B.pos, xa->opseq, qa.thread, op_name[qa.kind], (unsigned long)qa.begin, (unsigned long)qa.end, xa->pos, xb->opseq,
                     qb.thread, op_name[qb.kind], (unsigned long)qb.begin, (unsigned long)qb.end, xb->pos);
    }

  for (auto& e : world.pushed) dsched::mix_hash(e.id);
  for (auto& e : world.popped) dsched::mix_hash(e.id * 31 + (uint64_t)e.opseq);
#ifdef TARGET_C02
  if (dsched::stat_futex_wakes() > 0) dsched::nontrivial();
  if (dsched::stat_futex_sleeps() > 0) dsched::label("slept_in_futex");
  if (dsched::stat_futex_wakes() > 0) dsched::label("woken_by_futex_wake");
#else
  if (world.overlapped && dsched::stat_switches() >= 2) dsched::nontrivial();
  if (world.overlapped) dsched::label("ops_overlapped");
#endif
}

void tune(dsched::Params& p, Chooser&) { p.max_steps = 200000; }

}  // namespace

int main(int argc, char** argv) {
  vf::Target t;
#ifdef TARGET_C02
  t.name = "c02_wakeup";
  t.property_id = "C02";
  t.nontrivial_rule = "at least one thread slept in futex_wait and was released by a futex_wake (not by timeout)";
#else
  t.name = "c01_queue";
  t.property_id = "C01";
  t.nontrivial_rule = "two queue operations overlapped in step time and at least two context switches happened";
#endif
  t.run_case = run_case;
  t.eintr_percent = 25;  // futex_wait may return early (EINTR / spurious 0) in a quarter of the cases
  t.tune = tune;
  return vf::main_driver(argc, argv, t);
}
