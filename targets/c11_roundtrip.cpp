// C11 (round trip + exact size): a value of a harness-declared type family is decoded from the
// fuzzer's bytes, serialized through every output presentation (size oracle: the predicted size
// equals the bytes produced; all presentations agree), then parsed through every input
// presentation into a fresh object that must equal the value (floats bitwise; a smart pointer to
// a value whose encoding is empty reads back as null). Every second case refills the same object
// in place and repeats, so cached sizes left by the first pass are stale in the second.
#include "c11_common.h"
#include "proto/c11_compat.pb.cc"

namespace {
using namespace c11;

const char* RULE =
    "value decoded into one of the root types of c11_common.h, serialized by 4 output presentations and parsed by 6 input "
    "presentations; non-trivial = the value carries >= 3 distinct field kinds with non-default content and >= 1 non-empty "
    "length-delimited member below the root";

// F5 (known finding): std::vector / ReusableVector (and smart pointers to them) as the TOP-LEVEL
// value parsed from a stream-backed CodedInputStream without an enclosing limit
template <class T>
bool known_f5_toplevel_vector_unlimited_stream(int in_kind) {
  return f5_affected<T>::value && in_is_unlimited_stream(in_kind);
}

// Finding of this target (token c11-stale-field-cache): an object that was already sized / serialized while one of its
// COMPLEX members (per-field cached size) was non-empty is serialized again after that member
// became empty: calculate_serialized_size_field returns before it refreshes the field cache.
bool known_stale_field_cache(const std::vector<bool>& before, const std::vector<bool>& after) {
  for (size_t i = 0; i < before.size() && i < after.size(); i++)
    if (!before[i] && after[i]) return true;
  return false;
}

void emit_seed(int root, const std::string& bytes) {
  static const char* dir = getenv("VF_C11_EMIT_SEEDS");
  static int emitted = 0;
  if (!dir || bytes.empty() || bytes.size() > 200 || emitted > 4000) return;
  std::string name = std::string(dir) + "/rt-" + std::to_string(root) + "-" + std::to_string(vfz::hash_bytes((const uint8_t*)bytes.data(), bytes.size()) & 0xffffff);
  FILE* f = fopen(name.c_str(), "wb");
  if (!f) return;
  unsigned char head[4] = {(unsigned char)root, (unsigned char)(emitted % IN_KINDS), (unsigned char)(emitted * 7), (unsigned char)(emitted * 13)};
  fwrite(head, 1, 4, f);
  fwrite(bytes.data(), 1, bytes.size(), f);
  fclose(f);
  emitted++;
}

template <class T>
void check_value(const T& v, Gen& g, const Pattern& pout, const Pattern& pin, std::string& desc, int root) {
  // ---- every output presentation: size oracle + agreement
  std::string ref;
  for (int ok = 0; ok < OUT_KINDS; ok++) {
    std::string bytes;
    size_t predicted = 0;
    bool success = serialize_with(ok, pout, v, bytes, predicted);
    if (!success) vfz::fail(desc, "%s reported failure (predicted size %zu)", out_name(ok), predicted);
    if (bytes.size() != predicted)
      vfz::fail(desc, "size oracle: calculate_serialized_size == %zu but %s produced %zu bytes: %s", predicted, out_name(ok),
                bytes.size(), hex(bytes).c_str());
    if (ok == 0) {
      ref = bytes;
    } else if (bytes != ref) {
      vfz::fail(desc, "%s produced different bytes than serialize_to_string: %s vs %s", out_name(ok), hex(bytes).c_str(),
                hex(ref).c_str());
    }
  }
  emit_seed(root, ref);
  if (ref.size() >= 16384) vfz::label("bytes>=16384");
  else if (ref.size() >= 128) vfz::label("bytes>=128");
  else if (ref.empty()) vfz::label("bytes==0");
  // ---- every input presentation into a fresh object
  for (int ik = 0; ik < IN_KINDS; ik++) {
    if (known_f5_toplevel_vector_unlimited_stream<T>(ik) && !allow_known("f5")) {
      vfz::label("excluded_known_f5");
      continue;
    }
    if (g.scalar_ptr_elem_null) vfz::label("allowed_known_null_scalar_ptr_elem");
    auto fresh = std::make_unique<Holder<T>>();
    bool success = parse_with(ik, pin, ref, fresh->get());
    if (!success) vfz::fail(desc, "%s (chunks %s) rejected the bytes produced by serialize: %s", in_name(ik), pin.str().c_str(), hex(ref).c_str());
    std::string why;
    if (!eq(v, fresh->get(), why)) {
      std::string got;
      show(fresh->get(), got);
      vfz::fail(desc, "round trip through %s (chunks %s): value%s; bytes %s; read back %s", in_name(ik), pin.str().c_str(), why.c_str(),
                hex(ref).c_str(), got.c_str());
    }
  }
}

template <class T>
void run_root(vfz::Dec& d, int root, const uint8_t* data, size_t size) {
  Pattern pout = decode_pattern(d);
  Pattern pin = decode_pattern(d);
  int rounds = 1 + (d.u8() & 1);
  auto holder = std::make_unique<Holder<T>>();
  T& v = holder->get();
  std::string desc = std::string(root_names()[root]) + " out-chunks " + pout.str() + " in-chunks " + pin.str();
  bool nt = false;
  std::string last;
  for (int round = 0; round < rounds; round++) {
    Gen g(d);
    std::vector<bool> before, after;
    complex_member_emptiness(v, before);
    size_t rewind = d.i;
    fill(v, g);  // in place: cached sizes left in aggregates by the previous round stay behind
    complex_member_emptiness(v, after);
    T* subject = &v;
    std::unique_ptr<Holder<T>> clean;
    if (round && known_stale_field_cache(before, after)) {
      if (allow_known("c11-stale-field-cache")) {
        vfz::label("allowed_known_stale_field_cache");
      } else {
        // same value, but in a fresh object (no stale caches), so the value itself is still checked
        vfz::label("excluded_known_stale_field_cache");
        clean = std::make_unique<Holder<T>>();
        d.i = rewind;
        Gen again(d);
        fill(clean->get(), again);
        subject = &clean->get();
      }
    }
    last.clear();
    show(*subject, last);
    desc += (round ? " | refill in place: " : " value ") + last;
    check_value(*subject, g, pout, pin, desc, root);
    if (g.nkinds() >= 3 && g.nested_ld) nt = true;
    if (g.budget < 40000) vfz::label("amplified_payload");
    if (g.kinds & (1u << K_PTR)) vfz::label("has_nonnull_ptr");
  }
  vfz::label(root_names()[root]);
  if (rounds == 2) vfz::label("refilled_in_place");
  if (nt) vfz::nontrivial(vfz::hash_bytes(data, size), desc.substr(0, 600));
}

}  // namespace

extern "C" int LLVMFuzzerTestOneInput(const uint8_t* data, size_t size) {
  vfz::begin_case(RULE);
  quiet_protobuf();
  strip_witness_prefix(data, size);
  vfz::Dec d(data, size);
  int root = d.u8() % ROOTS;
  with_root(root, [&](auto tag) { run_root<typename decltype(tag)::type>(d, root, data, size); });
  return 0;
}
