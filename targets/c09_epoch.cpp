// C09: Epoch under the schedule / weak-memory fuzzer.
//   Nothing becomes reclaimable while a reader that may see it is inside a region: if a region was entered
//   (thread-local lock or Accessor lock) and an object was unlinked and a tick taken afterwards,
//   low_water_mark() does not reach that tick before the region is left. Regions nest, travel with their
//   Accessor to other threads, and an unlocked / released Accessor never holds the mark back.
//
// Program (shapes of test_epoch.cpp concurrent_works_fine* and docs/concurrent/epoch.en.md):
//   one Epoch, one harness-level `std::atomic<Node*> head`; per case EITHER thread-local style OR Accessor style.
//   writers: new node; old = head.exchange(new, acq_rel); v = epoch.tick(); later `v <= low_water_mark()` => the
//            old node is "reclaimed" = poisoned (no freed-memory checker exists: flag + Tracked<> payload).
//   readers: lock (nesting <= 3); p = head.load(acquire); dereference p until the OUTERMOST unlock; Accessor
//            regions may be handed (locked, with the pointers read so far) to another thread.
#include <babylon/concurrent/epoch.h>

#include <stdio.h>
#include <string.h>

#include <atomic>
#include <memory>
#include <thread>
#include <vector>

#include "../engine/common/driver.h"

using dsched::Tracked;
using vf::Chooser;
using babylon::Epoch;

namespace {

constexpr uint64_t POISON = 0xDEADDEADDEADDEADull;

#ifdef C09_TRACE  // debugging aid: -DC09_TRACE prints the history of a replayed case to stderr
#define TRACE(...) do { fprintf(stderr, "[%5lu T%d] ", (unsigned long)dsched::step(), dsched::tid()); fprintf(stderr, __VA_ARGS__); fputc('\n', stderr); } while (0)
#else
#define TRACE(...) do { } while (0)
#endif

struct Node {
  int id = 0;
  int writer = -1;              // owner (the writer that unlinked it), -1 while linked
  bool poisoned = false;        // "memory was handed back"
  uint64_t poisoned_step = 0;
  Tracked<uint64_t> payload;    // set by the creator before publication, poisoned by the reclaimer
  // retirement record
  uint64_t unlink_begin_step = 0;
  uint64_t tick_begin_step = 0, tick_end_step = 0;
  uint64_t tick = 0;
};
uint64_t payload_of(int id) { return 0xC0900000ull + (uint64_t)id * 7; }

struct Read {
  Node* n;
  int tid;
};
struct Region {
  uint64_t lock_begin_step = 0;
  uint64_t lock_done_step = 0;  // outermost lock() returned
  bool unlock_begun = false;    // outermost unlock() entered
  bool closed = false;          // outermost unlock() returned
  uint64_t closed_step = 0;
  bool hb_cleared = false;
  std::vector<Read> reads;      // payload reads done inside (for the re-publication rule, see open_region)
};

// what travels with a critical region: the accessor (Accessor style), nesting depth, pointers read so far
struct Handle {
  Epoch::Accessor acc;
  bool has_acc = false;
  int depth = 0;
  int region = -1;
  std::vector<Node*> held;
};

struct Mailbox {
  Handle h;
  std::atomic<int> ready{0};
};

struct World {
  Epoch epoch;  // first member: destroyed last (accessors in handles / mailboxes are released before)
  std::atomic<Node*> head{nullptr};
  std::vector<std::unique_ptr<Node>> nodes;
  std::vector<Region> regions;
  bool tl_style = false;
  int publish_mode = 0;  // 0: exchange(acq_rel) (test_epoch.cpp); 1: store(release); 2: store(seq_cst) - single writer only
  uint64_t lock_begin_count = 0;  // outermost locks started
  int locks_inflight = 0;         // outermost locks started and not yet returned
  uint64_t last_tick = 0;
  bool nt = false;
  int reclaimed_in_run = 0;
  std::vector<std::unique_ptr<Mailbox>> mail;  // mail[j]: handed to reader j
  std::vector<std::unique_ptr<Handle>> kept;   // accessors kept (unlocked) past the end of their thread
};
World* W;

Node* new_node() {
  auto n = std::make_unique<Node>();
  n->id = (int)W->nodes.size();
  n->payload.set(payload_of(n->id), "node payload");
  Node* p = n.get();
  W->nodes.push_back(std::move(n));
  return p;
}

// ---- reader side ----------------------------------------------------------------
enum ROp : uint8_t { R_LOCK, R_UNLOCK, R_LOAD, R_DEREF, R_POINT };
enum SessEnd : uint8_t { E_RELEASE, E_KEEP, E_DESTROY, E_MOVE_ASSIGN, E_HANDOFF };
enum SessSrc : uint8_t { S_NEW, S_KEPT, S_RECV };
struct Session {
  SessSrc src = S_NEW;
  std::vector<ROp> ops;
  std::vector<uint8_t> arg;  // deref index selector
  SessEnd end = E_RELEASE;
};
struct ReaderPlan {
  int wave = 0;
  int send_to = -1;    // reader index that receives this reader's last session
  int recv_from = -1;
  std::vector<Session> sessions;
};

// Payload reads and the happens-before (Tracked) check of the reclaiming write.
// A reclaimer is ordered after the reads of a closed region through the release store of that region's unlock.
// An outermost lock() re-publishes a slot - the same accessor / thread again, or a new owner of a recycled accessor
// or thread id - with a RELAXED store; a scan that reads that store instead of the unlock's release store computes a
// correct mark but has, by the C++ rules the engine models, no happens-before edge to the earlier owner's reads.
// That is outside the listed property, so the reads of a region leave the HB check as soon as a slot publication
// may follow its unlock: when an outermost lock() starts after the region was closed, or is in flight while it
// closes. Reads of regions still open always stay under the check, and so do closed regions nothing locks after.
void forget_reads(Region& r) {
  for (Read& rd : r.reads) rd.n->payload.ts.rclk[rd.tid] = 0;
  r.hb_cleared = true;
}
void open_region(Handle& h) {
  for (Region& r : W->regions)
    if (r.closed && !r.hb_cleared) forget_reads(r);
  W->regions.emplace_back();
  h.region = (int)W->regions.size() - 1;
  W->regions[(size_t)h.region].lock_begin_step = dsched::step();
  W->lock_begin_count++;
  W->locks_inflight++;
}
void region_opened(Handle& h) {
  W->regions[(size_t)h.region].lock_done_step = dsched::step();
  W->locks_inflight--;
}

void do_lock(Handle& h) {
  bool outer = h.depth == 0;
  if (outer) open_region(h);
  if (W->tl_style) W->epoch.lock();
  else h.acc.lock();
  if (outer) region_opened(h);
  else dsched::label("nested_lock");
  TRACE("lock done depth=%d region=%d", h.depth + 1, h.region);
  h.depth++;
}
void do_unlock(Handle& h) {
  bool outer = h.depth == 1;
  if (outer) {
    W->regions[(size_t)h.region].unlock_begun = true;
    h.held.clear();
  }
  if (W->tl_style) W->epoch.unlock();
  else h.acc.unlock();
  h.depth--;
  TRACE("unlock done depth=%d region=%d", h.depth, h.region);
  if (outer) {
    W->regions[(size_t)h.region].closed = true;
    W->regions[(size_t)h.region].closed_step = dsched::step();
    if (W->locks_inflight > 0) forget_reads(W->regions[(size_t)h.region]);
    h.region = -1;
  }
}
void do_load(Handle& h) {
  Node* p = W->head.load(std::memory_order_acquire);
  h.held.push_back(p);
  TRACE("load head -> node %d", p->id);
  dsched::point();
}
void do_deref(Handle& h, unsigned sel) {
  if (h.held.empty()) return;
  Node* n = h.held[sel % h.held.size()];
  Region& r = W->regions[(size_t)h.region];
  if (n->poisoned)
    dsched::fail("use-after-reclaim",
                 "T%d dereferences node %d inside a region (locked at step %lu, nesting %d) but the node was reclaimed at step %lu "
                 "(unlinked at step %lu by writer %d, tick %lu taken at steps %lu..%lu)",
                 dsched::tid(), n->id, (unsigned long)r.lock_done_step, h.depth, (unsigned long)n->poisoned_step,
                 (unsigned long)n->unlink_begin_step, n->writer, (unsigned long)n->tick, (unsigned long)n->tick_begin_step,
                 (unsigned long)n->tick_end_step);
  uint64_t v = n->payload.get("node payload");
  r.reads.push_back(Read{n, dsched::tid()});
  TRACE("deref node %d in region %d", n->id, h.region);
  if (v != payload_of(n->id))
    dsched::fail("use-after-reclaim", "T%d reads payload %lx of node %d inside a region", dsched::tid(), (unsigned long)v, n->id);
  dsched::point();
  if (n->poisoned)
    dsched::fail("use-after-reclaim", "node %d was reclaimed (step %lu) while T%d was dereferencing it inside a region locked at step %lu",
                 n->id, (unsigned long)n->poisoned_step, dsched::tid(), (unsigned long)r.lock_done_step);
  dsched::label("deref_in_region");
}

void run_reader(int me, const ReaderPlan& plan) {
  Handle cur;  // the accessor this thread currently works with
  for (size_t si = 0; si < plan.sessions.size(); si++) {
    const Session& s = plan.sessions[si];
    if (!W->tl_style) {
      if (s.src == S_RECV) {
        Mailbox& mb = *W->mail[(size_t)me];
        while (mb.ready.load(std::memory_order_acquire) == 0) dsched::yield_point();
        // a kept accessor of ours is unlocked: move-assigning over it swaps, the old one dies with the mailbox copy
        cur.acc = std::move(mb.h.acc);
        cur.has_acc = true;
        cur.depth = mb.h.depth;
        cur.region = mb.h.region;
        cur.held = std::move(mb.h.held);
        mb.h.has_acc = false;
        dsched::label(cur.depth > 0 ? "received_locked_region" : "received_unlocked_accessor");
      } else if (s.src == S_NEW || !cur.has_acc) {
        if (cur.has_acc) {
          cur.acc.release();
          dsched::label("accessor_released");
        }
        cur.acc = W->epoch.create_accessor();
        cur.has_acc = true;
        dsched::label("accessor_created");
      }
    }
    for (size_t i = 0; i < s.ops.size(); i++) {
      switch (s.ops[i]) {
        case R_LOCK: do_lock(cur); break;
        case R_UNLOCK: do_unlock(cur); break;
        case R_LOAD: do_load(cur); break;
        case R_DEREF: do_deref(cur, s.arg[i]); break;
        case R_POINT: dsched::yield_point(); break;  // let the others run while the region is open
      }
    }
    if (W->tl_style) continue;
    switch (s.end) {
      case E_RELEASE:
        cur.acc.release();
        cur.has_acc = false;
        dsched::label("accessor_released");
        break;
      case E_KEEP:
        break;
      case E_DESTROY: {
        Epoch::Accessor dying(std::move(cur.acc));
        cur.has_acc = false;
        dsched::point();
        dsched::label("accessor_destroyed");
        break;
      }
      case E_MOVE_ASSIGN: {
        // operator= swaps: the old (unlocked) accessor ends up in the temporary and is released with it
        Epoch::Accessor fresh = W->epoch.create_accessor();
        cur.acc = std::move(fresh);
        dsched::point();
        dsched::label("accessor_move_assigned");
        break;
      }
      case E_HANDOFF: {
        Mailbox& mb = *W->mail[(size_t)plan.send_to];
        mb.h.acc = std::move(cur.acc);
        mb.h.has_acc = true;
        mb.h.depth = cur.depth;
        mb.h.region = cur.region;
        mb.h.held = std::move(cur.held);
        cur = Handle();
        mb.ready.store(1, std::memory_order_release);
        dsched::label(mb.h.depth > 0 ? "handoff_locked" : "handoff_unlocked");
        break;
      }
    }
  }
  if (!W->tl_style && cur.has_acc) {
    // kept beyond the life of this thread, unlocked: must never hold the mark back
    auto k = std::make_unique<Handle>();
    k->acc = std::move(cur.acc);
    k->has_acc = true;
    W->kept.push_back(std::move(k));
    dsched::label("accessor_kept_unlocked");
  }
}

// ---- writer side ----------------------------------------------------------------
enum WOp : uint8_t { W_REPLACE, W_POLL, W_REPLACE2, W_WAIT };
struct WriterPlan {
  std::vector<WOp> ops;
};
struct WriterState {
  int id;
  std::vector<Node*> pending;
  bool have_prev = false;
  uint64_t prev_lwm = 0, prev_count = 0;
  bool prev_clean = false;
};

void unlink(WriterState& ws, int n) {
  uint64_t b = dsched::step();
  std::vector<Node*> olds;
  for (int i = 0; i < n; i++) {
    Node* fresh = new_node();
    Node* old;
    if (W->publish_mode == 0) {
      old = W->head.exchange(fresh, std::memory_order_acq_rel);
    } else {
      // single writer: plain replace with the store order a user would pick
      old = W->head.load(std::memory_order_relaxed);
      W->head.store(fresh, W->publish_mode == 1 ? std::memory_order_release : std::memory_order_seq_cst);
    }
    old->writer = ws.id;
    TRACE("unlinked node %d, new head node %d", old->id, fresh->id);
    old->unlink_begin_step = b;
    olds.push_back(old);
    dsched::point();
  }
  uint64_t tb = dsched::step();
  uint64_t v = W->epoch.tick();
  uint64_t te = dsched::step();
  TRACE("tick -> %lu", (unsigned long)v);
  if (v > W->last_tick) W->last_tick = v;
  for (Node* o : olds) {
    o->tick = v;
    o->tick_begin_step = tb;
    o->tick_end_step = te;
    ws.pending.push_back(o);
  }
}

void poison(Node* n) {
  if (n->poisoned) dsched::fail("harness", "node %d reclaimed twice", n->id);
  n->poisoned = true;
  n->poisoned_step = dsched::step();
  TRACE("reclaim node %d (tick %lu)", n->id, (unsigned long)n->tick);
  n->payload.set(POISON, "node payload (reclaim)");
}

// one low_water_mark() scan + the reclaim decision for this writer's retired nodes
void poll(WriterState& ws) {
  uint64_t count0 = W->lock_begin_count;
  bool clean0 = W->locks_inflight == 0;
  uint64_t lwm = W->epoch.low_water_mark();
  TRACE("low_water_mark -> %lu", (unsigned long)lwm);
  // --- no schedule point from here to the end of the checks ---
  bool blocked = false;
  for (Node* o : ws.pending) {
    bool overlapped = false;
    for (Region& r : W->regions) {
      // NT: the region overlapped this node's unlink -> tick -> scan window
      if (r.lock_begin_step != 0 && (!r.closed || r.closed_step >= o->unlink_begin_step)) overlapped = true;
      // the listed property, directly: region entered (lock returned) before the tick was started and not yet being
      // left => the mark must stay below the tick. (Own ticks only: the scanning thread's tick is the fence that
      // orders it after the reader's slot publication.)
      if (r.lock_done_step != 0 && r.lock_done_step < o->tick_begin_step && !r.unlock_begun && lwm >= o->tick)
        dsched::fail("mark-passed-open-region",
                     "low_water_mark() returned %lu >= tick %lu (taken at steps %lu..%lu after node %d was unlinked) although a "
                     "region locked at step %lu is still open",
                     (unsigned long)lwm, (unsigned long)o->tick, (unsigned long)o->tick_begin_step, (unsigned long)o->tick_end_step,
                     o->id, (unsigned long)r.lock_done_step);
      if (r.lock_done_step != 0 && r.lock_done_step < o->tick_begin_step && !r.unlock_begun) blocked = true;
    }
    if (overlapped) W->nt = true;
  }
  if (blocked) dsched::label("scan_held_back_by_open_region");
  // monotone per observer while no region opens (sequentially consistent reads only: a stale scan may legitimately
  // have missed a lock that a later scan sees)
  if (!dsched::weak_mode() && ws.have_prev && ws.prev_clean && ws.prev_count == W->lock_begin_count && lwm < ws.prev_lwm)
    dsched::fail("mark-monotone", "low_water_mark() went from %lu to %lu for writer %d although no region was opened in between",
                 (unsigned long)ws.prev_lwm, (unsigned long)lwm, ws.id);
  ws.have_prev = true;
  ws.prev_lwm = lwm;
  ws.prev_count = count0;
  ws.prev_clean = clean0;
  size_t keep = 0;
  for (Node* o : ws.pending) {
    if (o->tick <= lwm) {
      poison(o);
      W->reclaimed_in_run++;
    } else {
      ws.pending[keep++] = o;
    }
  }
  ws.pending.resize(keep);
}

void run_writer(WriterState& ws, const WriterPlan& plan) {
  for (WOp op : plan.ops) {
    switch (op) {
      case W_REPLACE: unlink(ws, 1); break;
      case W_REPLACE2: unlink(ws, 2); dsched::label("batched_unlink"); break;
      case W_POLL: poll(ws); break;
      case W_WAIT:
        // test_epoch.cpp: while (reclaim_version > epoch.low_water_mark()) sched_yield();
        while (!ws.pending.empty()) {
          poll(ws);
          if (!ws.pending.empty()) dsched::yield_point();
        }
        dsched::label("writer_waited_for_reclaim");
        break;
    }
  }
}

// ---- generator --------------------------------------------------------------------
// Ops of one session starting at nesting `depth` with `held` pointers; leaves *depth / *held at the end state.
void gen_ops(Chooser& c, Session& s, int* depth, int* held, bool end_locked) {
  int n = c.range(0, 6);
  auto push = [&](ROp op, uint8_t a = 0) { s.ops.push_back(op); s.arg.push_back(a); };
  if (*depth == 0) { push(R_LOCK); (*depth)++; }
  for (int i = 0; i < n; i++) {
    if (*depth == 0) { push(R_LOCK); (*depth)++; continue; }
    // weights: load 3, deref 3, lock 2, unlock 2, yield 3
    unsigned k = c.below(13);
    if (k < 3) { push(R_LOAD); (*held)++; }
    else if (k < 6) { if (*held > 0) push(R_DEREF, (uint8_t)c.below(4)); else { push(R_LOAD); (*held)++; } }
    else if (k < 8) { if (*depth < 3) { push(R_LOCK); (*depth)++; } else push(R_POINT); }
    else if (k < 10) { push(R_UNLOCK); (*depth)--; if (*depth == 0) *held = 0; }
    else push(R_POINT);
  }
  if (end_locked) {
    if (*depth == 0) { push(R_LOCK); (*depth)++; }
    if (*held == 0) { push(R_LOAD); (*held)++; }
  } else {
    if (*depth > 0 && *held > 0 && c.flip()) push(R_DEREF, (uint8_t)c.below(4));
    while (*depth > 0) { push(R_UNLOCK); (*depth)--; }
    *held = 0;
  }
}

const char* rop_name(ROp o) {
  switch (o) { case R_LOCK: return "L"; case R_UNLOCK: return "U"; case R_LOAD: return "ld"; case R_DEREF: return "*"; default: return "."; }
}

void run_case(Chooser& c) {
  auto world = std::make_unique<World>();
  W = world.get();
  world->tl_style = c.flip();
  int nw = c.range(1, 2);
  int nr = c.range(1, 4);
  {
    unsigned pm = c.below(4);
    world->publish_mode = (nw == 1 && pm == 2) ? 1 : (nw == 1 && pm == 3) ? 2 : 0;
  }
  std::vector<WriterPlan> wplans((size_t)nw);
  for (auto& p : wplans) {
    int n = c.range(1, 5);
    static const WOp kinds[] = {W_REPLACE, W_POLL, W_REPLACE, W_POLL, W_REPLACE2, W_WAIT};
    for (int i = 0; i < n; i++) p.ops.push_back(c.pick(kinds));
  }
  std::vector<ReaderPlan> rplans((size_t)nr);
  // handoff pairs (Accessor style): sender i < receiver j, each reader sends at most once (its last session)
  // and receives at most once; a sender never belongs to a later wave than its receiver
  for (int j = 0; j < nr; j++) rplans[(size_t)j].wave = (j > 0 && c.chance(1, 4)) ? 1 : 0;
  if (!world->tl_style)
    for (int j = 1; j < nr; j++) {
      if (!c.chance(1, 2)) continue;
      int i = (int)c.below((uint32_t)j);
      if (rplans[(size_t)i].send_to >= 0 || rplans[(size_t)i].wave > rplans[(size_t)j].wave) continue;
      rplans[(size_t)i].send_to = j;
      rplans[(size_t)j].recv_from = i;
    }
  struct Sent { int depth = 0, held = 0; };
  std::vector<Sent> sent((size_t)nr);
  for (int j = 0; j < nr; j++) {
    ReaderPlan& p = rplans[(size_t)j];
    int ns = c.range(1, 3);
    int recv_at = p.recv_from >= 0 ? (int)c.below((uint32_t)ns) : -1;
    bool have_acc = false;
    for (int k = 0; k < ns; k++) {
      Session s;
      int depth = 0, held = 0;
      if (k == recv_at) {
        s.src = S_RECV;
        depth = sent[(size_t)p.recv_from].depth;
        held = sent[(size_t)p.recv_from].held;
      } else if (have_acc && c.flip()) {
        s.src = S_KEPT;
      } else {
        s.src = S_NEW;
      }
      bool last = k == ns - 1;
      bool handoff = last && p.send_to >= 0;
      bool end_locked = handoff && !c.chance(1, 4);
      gen_ops(c, s, &depth, &held, end_locked);
      if (handoff) {
        s.end = E_HANDOFF;
        sent[(size_t)j].depth = depth;
        sent[(size_t)j].held = held;
        have_acc = false;
      } else {
        static const SessEnd ends[] = {E_RELEASE, E_KEEP, E_DESTROY, E_MOVE_ASSIGN, E_KEEP};
        s.end = c.pick(ends);
        have_acc = s.end == E_KEEP || s.end == E_MOVE_ASSIGN;
      }
      p.sessions.push_back(std::move(s));
    }
  }

  static const char* pmn[] = {"exchange(acq_rel)", "store(release)", "store(seq_cst)"};
  dsched::describe("%s publish=%s;", world->tl_style ? "thread-local" : "accessor", pmn[world->publish_mode]);
  dsched::label(world->publish_mode == 0 ? "publish_exchange" : world->publish_mode == 1 ? "publish_store_release" : "publish_store_seq_cst");
  for (int i = 0; i < nw; i++) {
    dsched::describe(" W%d[", i);
    static const char* wn[] = {"replace", "poll", "replace2", "wait"};
    for (size_t k = 0; k < wplans[(size_t)i].ops.size(); k++) dsched::describe("%s%s", k ? "," : "", wn[wplans[(size_t)i].ops[k]]);
    dsched::describe("]");
  }
  for (int j = 0; j < nr; j++) {
    ReaderPlan& p = rplans[(size_t)j];
    dsched::describe(" R%d%s[", j, p.wave ? "(wave2)" : "");
    for (size_t k = 0; k < p.sessions.size(); k++) {
      Session& s = p.sessions[k];
      static const char* sn[] = {"new", "kept", "recv"};
      static const char* en[] = {"release", "keep", "destroy", "move-assign", "handoff"};
      dsched::describe("%s%s:", k ? " | " : "", world->tl_style ? "tl" : sn[s.src]);
      for (ROp o : s.ops) dsched::describe("%s", rop_name(o));
      if (!world->tl_style) {
        if (s.end == E_HANDOFF) dsched::describe(":handoff->R%d", p.send_to);
        else dsched::describe(":%s", en[s.end]);
      }
    }
    dsched::describe("]");
  }
  dsched::label(world->tl_style ? "style_thread_local" : "style_accessor");

  for (int j = 0; j < nr; j++) world->mail.push_back(std::make_unique<Mailbox>());
  world->head.store(new_node(), std::memory_order_release);

  std::vector<WriterState> wstates((size_t)nw);
  for (int i = 0; i < nw; i++) wstates[(size_t)i].id = i;
  std::vector<std::thread> wave1, wave2, writers;
  for (int j = 0; j < nr; j++)
    if (rplans[(size_t)j].wave == 0) wave1.emplace_back([&, j] { run_reader(j, rplans[(size_t)j]); });
  for (int i = 0; i < nw; i++) writers.emplace_back([&, i] { run_writer(wstates[(size_t)i], wplans[(size_t)i]); });
  for (auto& t : wave1) t.join();
  // second wave: threads (ids, slots) created after others were destroyed, while scans may be running
  for (int j = 0; j < nr; j++)
    if (rplans[(size_t)j].wave == 1) {
      wave2.emplace_back([&, j] { run_reader(j, rplans[(size_t)j]); });
      dsched::label("second_wave_reader");
    }
  for (auto& t : wave2) t.join();
  for (auto& t : writers) t.join();

  // quiescent: every region is closed, every accessor unlocked or released => nothing holds the mark back
  for (Region& r : world->regions)
    if (!r.closed) dsched::fail("harness", "a region is still open at the end of the program");
  uint64_t lwm = world->epoch.low_water_mark();
  if (world->last_tick != 0 && lwm < world->last_tick)
    dsched::fail("mark-held-back", "all regions are closed and all accessors unlocked or released, but low_water_mark() == %lu < last tick %lu",
                 (unsigned long)lwm, (unsigned long)world->last_tick);
  int at_end = 0;
  for (auto& ws : wstates)
    for (Node* o : ws.pending) {
      poison(o);
      at_end++;
    }
  if (world->reclaimed_in_run) dsched::label_n("reclaimed_during_run", (uint32_t)world->reclaimed_in_run);
  if (at_end) dsched::label_n("reclaimed_at_end", (uint32_t)at_end);
  if (world->nt) dsched::nontrivial();
  for (Region& r : world->regions) dsched::mix_hash(r.lock_done_step * 1000003u + r.reads.size());
  for (auto& n : world->nodes) dsched::mix_hash(n->poisoned_step * 31 + n->tick);
  // accessors that are still alive must go before the epoch: kept (unlocked) ones and an undelivered mailbox
  world->kept.clear();
  world->mail.clear();
  W = nullptr;
}

void tune(dsched::Params& p, Chooser&) { p.max_steps = 200000; }

}  // namespace

int main(int argc, char** argv) {
  // The thread-id allocator behind the thread-local style is a function-local static. The engine does not model the
  // happens-before edge of its initialisation guard, so it is constructed here, before any case (and any fork).
  (void)babylon::ThreadId::current_thread_id<Epoch>();
  vf::Target t;
  t.name = "c09_epoch";
  t.property_id = "C09";
  t.run_case = run_case;
  t.tune = tune;
  t.nontrivial_rule = "a reader region overlapped the unlink -> tick -> low_water_mark() scan window of some retired node";
  return vf::main_driver(argc, argv, t);
}
