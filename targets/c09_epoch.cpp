// C09: Epoch under the schedule / weak-memory fuzzer.
//   Nothing becomes reclaimable while a reader that may see it is inside a region: if a region was entered
//   (thread-local lock or Accessor lock) and an object was unlinked and a tick taken afterwards,
//   low_water_mark() does not reach that tick before the region is left. Regions nest, travel with their
//   Accessor to other threads, and an unlocked / released Accessor never holds the mark back.
//
// Program (shapes of test_epoch.cpp concurrent_works_fine* and docs/concurrent/epoch.en.md):
//   one Epoch, one harness-level `std::atomic<Node*> head`; per case EITHER thread-local style OR Accessor style.
//   About one case in three has TWO independent Epoch instances A and B (two lock-free containers read by the same
//   threads), each with its own head / node chain / style; reader regions on A and B nest in either order, are
//   left in LIFO or non-LIFO order, overlap partially or follow one another; writers serve both. Every oracle is
//   applied per Epoch instance (struct Dom).
//   writers: new node; old = head.exchange(new, acq_rel); v = epoch.tick(); later `v <= low_water_mark()` => the
//            old node is "reclaimed" = poisoned (no freed-memory checker exists: flag + Tracked<> payload).
//   readers: lock (nesting <= 3); p = head.load(acquire); dereference p until the OUTERMOST unlock; Accessor
//            regions may be handed (locked, with the pointers read so far) to another thread.
#include <babylon/concurrent/epoch.h>

#include <stdio.h>
#include <string.h>

#include <atomic>
#include <memory>
#include <thread>
#include <vector>

#include "../engine/common/driver.h"

using dsched::Tracked;
using vf::Chooser;
using babylon::Epoch;

namespace {

constexpr uint64_t POISON = 0xDEADDEADDEADDEADull;

#ifdef C09_TRACE  // debugging aid: -DC09_TRACE prints the history of a replayed case to stderr
#define TRACE(...) do { fprintf(stderr, "[%5lu T%d] ", (unsigned long)dsched::step(), dsched::tid()); fprintf(stderr, __VA_ARGS__); fputc('\n', stderr); } while (0)
#else
#define TRACE(...) do { } while (0)
#endif

struct Node {
  int id = 0;
  int dom = 0;                  // the Epoch instance (World::dom[]) whose chain this node belongs to
  int writer = -1;              // owner (the writer that unlinked it), -1 while linked
  bool poisoned = false;        // "memory was handed back"
  uint64_t poisoned_step = 0;
  Tracked<uint64_t> payload;    // set by the creator before publication, poisoned by the reclaimer
  // retirement record
  uint64_t unlink_begin_step = 0;
  uint64_t tick_begin_step = 0, tick_end_step = 0;
  uint64_t tick = 0;
};
uint64_t payload_of(int id) { return 0xC0900000ull + (uint64_t)id * 7; }

struct Read {
  Node* n;
  int tid;
};
struct Region {
  uint64_t lock_begin_step = 0;
  uint64_t lock_done_step = 0;  // outermost lock() returned
  bool unlock_begun = false;    // outermost unlock() entered
  bool closed = false;          // outermost unlock() returned
  uint64_t closed_step = 0;
  bool hb_cleared = false;
  std::vector<Read> reads;      // payload reads done inside (for the re-publication rule, see open_region)
};

// what travels with a critical region: the accessor (Accessor style), nesting depth, pointers read so far
struct Handle {
  Epoch::Accessor acc;
  bool has_acc = false;
  int depth = 0;
  int region = -1;
  uint64_t open_seq = 0;        // order of the outermost lock among all regions of the case (LIFO / non-LIFO labels)
  int closed_here = 0;          // regions this thread closed through this handle (label only)
  std::vector<Node*> held;
};

struct Mailbox {
  Handle h[2];  // per Epoch instance
  std::atomic<int> ready{0};
};

// One Epoch instance and everything it protects.
struct Dom {
  Epoch epoch;
  int idx = 0;
  std::atomic<Node*> head{nullptr};
  std::vector<Region> regions;
  bool tl_style = false;
  int publish_mode = 0;  // 0: exchange(acq_rel) (test_epoch.cpp); 1: store(release); 2: store(seq_cst) - single writer only
  uint64_t lock_begin_count = 0;  // outermost locks started
  int locks_inflight = 0;         // outermost locks started and not yet returned
  uint64_t last_tick = 0;
  char name() const { return (char)('A' + idx); }
};

struct World {
  std::unique_ptr<Dom> dom[2];  // first member: destroyed last (accessors in handles / mailboxes are released before)
  int ndom = 1;
  uint64_t open_seq = 0;
  std::vector<std::unique_ptr<Node>> nodes;
  bool nt = false;
  int reclaimed_in_run = 0;
  std::vector<std::unique_ptr<Mailbox>> mail;  // mail[j]: handed to reader j
  std::vector<std::unique_ptr<Handle>> kept;   // accessors kept (unlocked) past the end of their thread
};
World* W;

Node* new_node(int dom) {
  auto n = std::make_unique<Node>();
  n->id = (int)W->nodes.size();
  n->dom = dom;
  n->payload.set(payload_of(n->id), "node payload");
  Node* p = n.get();
  W->nodes.push_back(std::move(n));
  return p;
}

// ---- reader side ----------------------------------------------------------------
enum ROp : uint8_t { R_LOCK, R_UNLOCK, R_LOAD, R_DEREF, R_POINT };
enum SessEnd : uint8_t { E_RELEASE, E_KEEP, E_DESTROY, E_MOVE_ASSIGN, E_HANDOFF };
enum SessSrc : uint8_t { S_NEW, S_KEPT, S_RECV };
struct Session {
  bool uses[2] = {true, false};  // which Epoch instances this session works on
  SessSrc src[2] = {S_NEW, S_NEW};
  std::vector<ROp> ops;
  std::vector<uint8_t> arg;  // deref index selector
  std::vector<uint8_t> dom;  // Epoch instance the op applies to
  SessEnd end[2] = {E_RELEASE, E_RELEASE};
};
struct ReaderPlan {
  int wave = 0;
  int send_to = -1;    // reader index that receives this reader's last session
  int recv_from = -1;
  int recv_at = -1;    // session that starts with the hand-over
  std::vector<Session> sessions;
};

// Payload reads and the happens-before (Tracked) check of the reclaiming write.
// A reclaimer is ordered after the reads of a closed region through the release store of that region's unlock.
// An outermost lock() re-publishes a slot - the same accessor / thread again, or a new owner of a recycled accessor
// or thread id - with a RELAXED store; a scan that reads that store instead of the unlock's release store computes a
// correct mark but has, by the C++ rules the engine models, no happens-before edge to the earlier owner's reads.
// That is outside the listed property, so the reads of a region leave the HB check as soon as a slot publication
// may follow its unlock: when an outermost lock() starts after the region was closed, or is in flight while it
// closes. Reads of regions still open always stay under the check, and so do closed regions nothing locks after.
// (All per Epoch instance: a lock on B publishes into B's slots only.)
void forget_reads(Region& r) {
  for (Read& rd : r.reads) rd.n->payload.ts.rclk[rd.tid] = 0;
  r.hb_cleared = true;
}
void open_region(Dom& d, Handle& h) {
  for (Region& r : d.regions)
    if (r.closed && !r.hb_cleared) forget_reads(r);
  d.regions.emplace_back();
  h.region = (int)d.regions.size() - 1;
  d.regions[(size_t)h.region].lock_begin_step = dsched::step();
  d.lock_begin_count++;
  d.locks_inflight++;
}
void region_opened(Dom& d, Handle& h) {
  d.regions[(size_t)h.region].lock_done_step = dsched::step();
  d.locks_inflight--;
  h.open_seq = ++W->open_seq;
}

// cur: the handles of the calling thread, one per Epoch instance; e: the instance the op applies to
void do_lock(Handle* cur, int e) {
  Handle& h = cur[e];
  Dom& d = *W->dom[e];
  bool outer = h.depth == 0;
  if (outer) open_region(d, h);
  if (d.tl_style) d.epoch.lock();
  else h.acc.lock();
  if (outer) {
    region_opened(d, h);
    if (W->ndom == 2) {
      const Handle& o = cur[1 - e];
      if (o.depth > 0) {
        dsched::label(e == 1 ? "region_B_inside_region_A" : "region_A_inside_region_B");
        if (d.tl_style && W->dom[1 - e]->tl_style) dsched::label("tl_region_inside_tl_region_other_epoch");
      } else if (o.closed_here > 0) {
        dsched::label("region_after_region_of_other_epoch");
      }
    }
  } else {
    dsched::label("nested_lock");
  }
  TRACE("%c lock done depth=%d region=%d", d.name(), h.depth + 1, h.region);
  h.depth++;
}
void do_unlock(Handle* cur, int e) {
  Handle& h = cur[e];
  Dom& d = *W->dom[e];
  bool outer = h.depth == 1;
  if (outer) {
    d.regions[(size_t)h.region].unlock_begun = true;
    h.held.clear();
    if (W->ndom == 2 && cur[1 - e].depth > 0)
      dsched::label(cur[1 - e].open_seq > h.open_seq ? "non_lifo_unlock_across_epochs" : "lifo_unlock_across_epochs");
  }
  if (d.tl_style) d.epoch.unlock();
  else h.acc.unlock();
  h.depth--;
  TRACE("%c unlock done depth=%d region=%d", d.name(), h.depth, h.region);
  if (outer) {
    d.regions[(size_t)h.region].closed = true;
    d.regions[(size_t)h.region].closed_step = dsched::step();
    if (d.locks_inflight > 0) forget_reads(d.regions[(size_t)h.region]);
    h.region = -1;
    h.closed_here++;
  }
}
void do_load(Handle* cur, int e) {
  Handle& h = cur[e];
  Node* p = W->dom[e]->head.load(std::memory_order_acquire);
  h.held.push_back(p);
  TRACE("load head %c -> node %d", W->dom[e]->name(), p->id);
  dsched::point();
}
void do_deref(Handle* cur, int e, unsigned sel) {
  Handle& h = cur[e];
  Dom& d = *W->dom[e];
  if (h.held.empty()) return;
  Node* n = h.held[sel % h.held.size()];
  Region& r = d.regions[(size_t)h.region];
  if (n->dom != e) dsched::fail("harness", "node %d of epoch %d held by a region of epoch %d", n->id, n->dom, e);
  if (n->poisoned)
    dsched::fail("use-after-reclaim",
                 "T%d dereferences node %d inside a region of epoch %c (locked at step %lu, nesting %d) but the node was reclaimed at "
                 "step %lu (unlinked at step %lu by writer %d, tick %lu taken at steps %lu..%lu)",
                 dsched::tid(), n->id, d.name(), (unsigned long)r.lock_done_step, h.depth, (unsigned long)n->poisoned_step,
                 (unsigned long)n->unlink_begin_step, n->writer, (unsigned long)n->tick, (unsigned long)n->tick_begin_step,
                 (unsigned long)n->tick_end_step);
  uint64_t v = n->payload.get("node payload");
  r.reads.push_back(Read{n, dsched::tid()});
  TRACE("deref node %d in region %d of %c", n->id, h.region, d.name());
  if (v != payload_of(n->id))
    dsched::fail("use-after-reclaim", "T%d reads payload %lx of node %d inside a region of epoch %c", dsched::tid(), (unsigned long)v, n->id,
                 d.name());
  dsched::point();
  if (n->poisoned)
    dsched::fail("use-after-reclaim",
                 "node %d was reclaimed (step %lu) while T%d was dereferencing it inside a region of epoch %c locked at step %lu", n->id,
                 (unsigned long)n->poisoned_step, dsched::tid(), d.name(), (unsigned long)r.lock_done_step);
  dsched::label("deref_in_region");
  if (e == 1) dsched::label("deref_in_region_of_B");
}

void run_reader(int me, const ReaderPlan& plan) {
  Handle cur[2];  // the accessor / region this thread currently works with, per Epoch instance
  for (size_t si = 0; si < plan.sessions.size(); si++) {
    const Session& s = plan.sessions[si];
    bool recv = false;
    for (int e = 0; e < W->ndom; e++)
      if (s.uses[e] && !W->dom[e]->tl_style && s.src[e] == S_RECV) recv = true;
    if (recv) {
      Mailbox& mb = *W->mail[(size_t)me];
      while (mb.ready.load(std::memory_order_acquire) == 0) dsched::yield_point();
    }
    for (int e = 0; e < W->ndom; e++) {
      if (!s.uses[e] || W->dom[e]->tl_style) continue;
      Handle& h = cur[e];
      if (s.src[e] == S_RECV) {
        Handle& in = W->mail[(size_t)me]->h[e];
        // a kept accessor of ours is unlocked: move-assigning over it swaps, the old one dies with the mailbox copy
        h.acc = std::move(in.acc);
        h.has_acc = true;
        h.depth = in.depth;
        h.region = in.region;
        h.open_seq = in.open_seq;
        h.held = std::move(in.held);
        in.has_acc = false;
        dsched::label(h.depth > 0 ? "received_locked_region" : "received_unlocked_accessor");
      } else if (s.src[e] == S_NEW || !h.has_acc) {
        if (h.has_acc) {
          h.acc.release();
          dsched::label("accessor_released");
        }
        h.acc = W->dom[e]->epoch.create_accessor();
        h.has_acc = true;
        dsched::label("accessor_created");
      }
    }
    for (size_t i = 0; i < s.ops.size(); i++) {
      int e = s.dom[i];
      switch (s.ops[i]) {
        case R_LOCK: do_lock(cur, e); break;
        case R_UNLOCK: do_unlock(cur, e); break;
        case R_LOAD: do_load(cur, e); break;
        case R_DEREF: do_deref(cur, e, s.arg[i]); break;
        case R_POINT: dsched::yield_point(); break;  // let the others run while the region is open
      }
    }
    bool posted = false;
    for (int e = 0; e < W->ndom; e++) {
      if (!s.uses[e] || W->dom[e]->tl_style) continue;
      Handle& h = cur[e];
      switch (s.end[e]) {
        case E_RELEASE:
          h.acc.release();
          h.has_acc = false;
          dsched::label("accessor_released");
          break;
        case E_KEEP:
          break;
        case E_DESTROY: {
          Epoch::Accessor dying(std::move(h.acc));
          h.has_acc = false;
          dsched::point();
          dsched::label("accessor_destroyed");
          break;
        }
        case E_MOVE_ASSIGN: {
          // operator= swaps: the old (unlocked) accessor ends up in the temporary and is released with it
          Epoch::Accessor fresh = W->dom[e]->epoch.create_accessor();
          h.acc = std::move(fresh);
          dsched::point();
          dsched::label("accessor_move_assigned");
          break;
        }
        case E_HANDOFF: {
          Handle& out = W->mail[(size_t)plan.send_to]->h[e];
          out.acc = std::move(h.acc);
          out.has_acc = true;
          out.depth = h.depth;
          out.region = h.region;
          out.open_seq = h.open_seq;
          out.held = std::move(h.held);
          h = Handle();
          dsched::label(out.depth > 0 ? "handoff_locked" : "handoff_unlocked");
          posted = true;
          break;
        }
      }
    }
    if (posted) W->mail[(size_t)plan.send_to]->ready.store(1, std::memory_order_release);
  }
  for (int e = 0; e < W->ndom; e++)
    if (!W->dom[e]->tl_style && cur[e].has_acc) {
      // kept beyond the life of this thread, unlocked: must never hold the mark back
      auto k = std::make_unique<Handle>();
      k->acc = std::move(cur[e].acc);
      k->has_acc = true;
      W->kept.push_back(std::move(k));
      dsched::label("accessor_kept_unlocked");
    }
}

// ---- writer side ----------------------------------------------------------------
enum WOp : uint8_t { W_REPLACE, W_POLL, W_REPLACE2, W_WAIT };
struct WriterPlan {
  std::vector<WOp> ops;
  std::vector<uint8_t> dom;  // Epoch instance the op applies to
};
struct WriterDomState {  // what a writer remembers about one Epoch instance
  std::vector<Node*> pending;
  bool have_prev = false;
  uint64_t prev_lwm = 0, prev_count = 0;
  bool prev_clean = false;
};
struct WriterState {
  int id;
  WriterDomState ds[2];
};

void unlink(WriterState& ws, int e, int n) {
  Dom& d = *W->dom[e];
  uint64_t b = dsched::step();
  std::vector<Node*> olds;
  for (int i = 0; i < n; i++) {
    Node* fresh = new_node(e);
    Node* old;
    if (d.publish_mode == 0) {
      old = d.head.exchange(fresh, std::memory_order_acq_rel);
    } else {
      // single writer: plain replace with the store order a user would pick
      old = d.head.load(std::memory_order_relaxed);
      d.head.store(fresh, d.publish_mode == 1 ? std::memory_order_release : std::memory_order_seq_cst);
    }
    old->writer = ws.id;
    TRACE("%c unlinked node %d, new head node %d", d.name(), old->id, fresh->id);
    old->unlink_begin_step = b;
    olds.push_back(old);
    dsched::point();
  }
  uint64_t tb = dsched::step();
  uint64_t v = d.epoch.tick();
  uint64_t te = dsched::step();
  TRACE("%c tick -> %lu", d.name(), (unsigned long)v);
  if (v > d.last_tick) d.last_tick = v;
  for (Node* o : olds) {
    o->tick = v;
    o->tick_begin_step = tb;
    o->tick_end_step = te;
    ws.ds[e].pending.push_back(o);
  }
}

void poison(Node* n) {
  if (n->poisoned) dsched::fail("harness", "node %d reclaimed twice", n->id);
  n->poisoned = true;
  n->poisoned_step = dsched::step();
  TRACE("reclaim node %d (tick %lu)", n->id, (unsigned long)n->tick);
  n->payload.set(POISON, "node payload (reclaim)");
}

// one low_water_mark() scan of Epoch instance e + the reclaim decision for this writer's retired nodes of e
void poll(WriterState& ws, int e) {
  Dom& d = *W->dom[e];
  WriterDomState& s = ws.ds[e];
  uint64_t count0 = d.lock_begin_count;
  bool clean0 = d.locks_inflight == 0;
  uint64_t lwm = d.epoch.low_water_mark();
  TRACE("%c low_water_mark -> %lu", d.name(), (unsigned long)lwm);
  // --- no schedule point from here to the end of the checks ---
  bool blocked = false;
  for (Node* o : s.pending) {
    bool overlapped = false;
    for (Region& r : d.regions) {
      // NT: the region overlapped this node's unlink -> tick -> scan window
      if (r.lock_begin_step != 0 && (!r.closed || r.closed_step >= o->unlink_begin_step)) overlapped = true;
      // the listed property, directly: region entered (lock returned) before the tick was started and not yet being
      // left => the mark must stay below the tick. (Own ticks only: the scanning thread's tick is the fence that
      // orders it after the reader's slot publication.)
      if (r.lock_done_step != 0 && r.lock_done_step < o->tick_begin_step && !r.unlock_begun && lwm >= o->tick)
        dsched::fail("mark-passed-open-region",
                     "low_water_mark() of epoch %c returned %lu >= tick %lu (taken at steps %lu..%lu after node %d was unlinked) "
                     "although a region locked at step %lu is still open",
                     d.name(), (unsigned long)lwm, (unsigned long)o->tick, (unsigned long)o->tick_begin_step,
                     (unsigned long)o->tick_end_step, o->id, (unsigned long)r.lock_done_step);
      if (r.lock_done_step != 0 && r.lock_done_step < o->tick_begin_step && !r.unlock_begun) blocked = true;
    }
    if (overlapped) W->nt = true;
  }
  if (blocked) {
    dsched::label("scan_held_back_by_open_region");
    if (e == 1) dsched::label("scan_of_B_held_back_by_open_region");
  }
  // monotone per observer while no region opens (sequentially consistent reads only: a stale scan may legitimately
  // have missed a lock that a later scan sees)
  if (!dsched::weak_mode() && s.have_prev && s.prev_clean && s.prev_count == d.lock_begin_count && lwm < s.prev_lwm)
    dsched::fail("mark-monotone", "low_water_mark() of epoch %c went from %lu to %lu for writer %d although no region was opened in between",
                 d.name(), (unsigned long)s.prev_lwm, (unsigned long)lwm, ws.id);
  s.have_prev = true;
  s.prev_lwm = lwm;
  s.prev_count = count0;
  s.prev_clean = clean0;
  size_t keep = 0;
  for (Node* o : s.pending) {
    if (o->tick <= lwm) {
      poison(o);
      W->reclaimed_in_run++;
    } else {
      s.pending[keep++] = o;
    }
  }
  s.pending.resize(keep);
}

void run_writer(WriterState& ws, const WriterPlan& plan) {
  for (size_t i = 0; i < plan.ops.size(); i++) {
    int e = plan.dom[i];
    switch (plan.ops[i]) {
      case W_REPLACE: unlink(ws, e, 1); break;
      case W_REPLACE2: unlink(ws, e, 2); dsched::label("batched_unlink"); break;
      case W_POLL: poll(ws, e); break;
      case W_WAIT:
        // test_epoch.cpp: while (reclaim_version > epoch.low_water_mark()) sched_yield();
        while (!ws.ds[e].pending.empty()) {
          poll(ws, e);
          if (!ws.ds[e].pending.empty()) dsched::yield_point();
        }
        dsched::label("writer_waited_for_reclaim");
        break;
    }
  }
}

// ---- generator --------------------------------------------------------------------
// Ops of one session on Epoch instance e starting at nesting `depth` with `held` pointers; leaves *depth / *held at
// the end state.
void gen_ops(Chooser& c, Session& s, int e, int* depth, int* held, bool end_locked) {
  int n = c.range(0, 6);
  auto push = [&](ROp op, uint8_t a = 0) { s.ops.push_back(op); s.arg.push_back(a); s.dom.push_back((uint8_t)e); };
  if (*depth == 0) { push(R_LOCK); (*depth)++; }
  for (int i = 0; i < n; i++) {
    if (*depth == 0) { push(R_LOCK); (*depth)++; continue; }
    // weights: load 3, deref 3, lock 2, unlock 2, yield 3
    unsigned k = c.below(13);
    if (k < 3) { push(R_LOAD); (*held)++; }
    else if (k < 6) { if (*held > 0) push(R_DEREF, (uint8_t)c.below(4)); else { push(R_LOAD); (*held)++; } }
    else if (k < 8) { if (*depth < 3) { push(R_LOCK); (*depth)++; } else push(R_POINT); }
    else if (k < 10) { push(R_UNLOCK); (*depth)--; if (*depth == 0) *held = 0; }
    else push(R_POINT);
  }
  if (end_locked) {
    if (*depth == 0) { push(R_LOCK); (*depth)++; }
    if (*held == 0) { push(R_LOAD); (*held)++; }
  } else {
    if (*depth > 0 && *held > 0 && c.flip()) push(R_DEREF, (uint8_t)c.below(4));
    while (*depth > 0) { push(R_UNLOCK); (*depth)--; }
    *held = 0;
  }
}

// How two op sequences (a ops on A, b ops on B; each valid on its own, the instances are independent) are woven into
// one: result[i] = 0 / 1 = the next op is taken from A / B. All-zero input: A's ops, then B's.
std::vector<uint8_t> weave(Chooser& c, size_t a, size_t b) {
  std::vector<uint8_t> out;
  unsigned mode = c.below(4);
  auto block = [&](size_t outer_n, uint8_t outer, size_t inner_n, uint8_t inner) {
    size_t at = c.below((uint32_t)outer_n + 1);
    out.insert(out.end(), at, outer);
    out.insert(out.end(), inner_n, inner);
    out.insert(out.end(), outer_n - at, outer);
  };
  if (mode == 0) {  // free interleaving: partial overlaps, non-LIFO
    size_t i = 0, j = 0;
    while (i < a && j < b) {
      if (c.flip()) { out.push_back(1); j++; } else { out.push_back(0); i++; }
    }
    out.insert(out.end(), a - i, 0);
    out.insert(out.end(), b - j, 1);
  } else if (mode == 1) {  // all of B somewhere inside A's sequence
    block(a, 0, b, 1);
  } else if (mode == 2) {  // all of A somewhere inside B's sequence
    block(b, 1, a, 0);
  } else {  // one after the other
    if (c.flip()) { out.insert(out.end(), b, 1); out.insert(out.end(), a, 0); }
    else { out.insert(out.end(), a, 0); out.insert(out.end(), b, 1); }
  }
  return out;
}

const char* rop_name(ROp o) {
  switch (o) { case R_LOCK: return "L"; case R_UNLOCK: return "U"; case R_LOAD: return "ld"; case R_DEREF: return "*"; default: return "."; }
}

void run_case(Chooser& c) {
  auto world = std::make_unique<World>();
  W = world.get();
  world->dom[0] = std::make_unique<Dom>();
  Dom& A = *world->dom[0];
  A.tl_style = c.flip();
  int nw = c.range(1, 2);
  int nr = c.range(1, 4);
  {
    unsigned pm = c.below(4);
    A.publish_mode = (nw == 1 && pm == 2) ? 1 : (nw == 1 && pm == 3) ? 2 : 0;
  }
  static const WOp kinds[] = {W_REPLACE, W_POLL, W_REPLACE, W_POLL, W_REPLACE2, W_WAIT};
  std::vector<WriterPlan> wplans((size_t)nw);
  for (auto& p : wplans) {
    int n = c.range(1, 5);
    for (int i = 0; i < n; i++) p.ops.push_back(c.pick(kinds));
    p.dom.assign(p.ops.size(), 0);
  }
  std::vector<ReaderPlan> rplans((size_t)nr);
  // handoff pairs (Accessor style): sender i < receiver j, each reader sends at most once (its last session)
  // and receives at most once; a sender never belongs to a later wave than its receiver
  for (int j = 0; j < nr; j++) rplans[(size_t)j].wave = (j > 0 && c.chance(1, 4)) ? 1 : 0;
  auto gen_pairs = [&] {
    for (int j = 1; j < nr; j++) {
      if (!c.chance(1, 2)) continue;
      int i = (int)c.below((uint32_t)j);
      if (rplans[(size_t)i].send_to >= 0 || rplans[(size_t)i].wave > rplans[(size_t)j].wave) continue;
      rplans[(size_t)i].send_to = j;
      rplans[(size_t)j].recv_from = i;
    }
  };
  if (!A.tl_style) gen_pairs();
  struct Sent { bool has = false; int depth = 0, held = 0; };
  static const SessEnd ends[] = {E_RELEASE, E_KEEP, E_DESTROY, E_MOVE_ASSIGN, E_KEEP};
  std::vector<Sent> sent((size_t)nr);
  for (int j = 0; j < nr; j++) {
    ReaderPlan& p = rplans[(size_t)j];
    int ns = c.range(1, 3);
    p.recv_at = p.recv_from >= 0 ? (int)c.below((uint32_t)ns) : -1;
    bool have_acc = false;
    for (int k = 0; k < ns; k++) {
      Session s;
      int depth = 0, held = 0;
      if (k == p.recv_at) {
        s.src[0] = S_RECV;
        depth = sent[(size_t)p.recv_from].depth;
        held = sent[(size_t)p.recv_from].held;
      } else if (have_acc && c.flip()) {
        s.src[0] = S_KEPT;
      } else {
        s.src[0] = S_NEW;
      }
      bool last = k == ns - 1;
      bool handoff = last && p.send_to >= 0;
      bool end_locked = handoff && !c.chance(1, 4);
      gen_ops(c, s, 0, &depth, &held, end_locked);
      if (handoff) {
        s.end[0] = E_HANDOFF;
        sent[(size_t)j].has = true;
        sent[(size_t)j].depth = depth;
        sent[(size_t)j].held = held;
        have_acc = false;
      } else {
        s.end[0] = c.pick(ends);
        have_acc = s.end[0] == E_KEEP || s.end[0] == E_MOVE_ASSIGN;
      }
      p.sessions.push_back(std::move(s));
    }
  }

  // ---- second Epoch instance: every draw comes after those of the single-epoch program, which keeps its meaning ----
  // (exhausted / all-zero input: one Epoch). B gets its own style, publish mode, writer ops and reader ops; they are
  // woven into the ops on A per writer / per reader session.
  if (c.chance(1, 3)) {
    world->dom[1] = std::make_unique<Dom>();
    world->ndom = 2;
    Dom& B = *world->dom[1];
    B.idx = 1;
    B.tl_style = c.flip();
    {
      unsigned pm = c.below(4);
      B.publish_mode = (nw == 1 && pm == 2) ? 1 : (nw == 1 && pm == 3) ? 2 : 0;
    }
    for (auto& p : wplans) {
      int n = c.range(1, 4);
      std::vector<WOp> b;
      for (int i = 0; i < n; i++) b.push_back(c.pick(kinds));
      std::vector<uint8_t> order = weave(c, p.ops.size(), b.size());
      WriterPlan m;
      size_t ia = 0, ib = 0;
      for (uint8_t e : order) {
        m.ops.push_back(e ? b[ib++] : p.ops[ia++]);
        m.dom.push_back(e);
      }
      p = std::move(m);
    }
    // A is thread-local style and B is not: the hand-over pairs were not drawn yet
    if (A.tl_style && !B.tl_style) gen_pairs();
    std::vector<Sent> sent_b((size_t)nr);
    for (int j = 0; j < nr; j++) {
      ReaderPlan& p = rplans[(size_t)j];
      int ns = (int)p.sessions.size();
      if (p.recv_from >= 0 && p.recv_at < 0) p.recv_at = (int)c.below((uint32_t)ns);
      bool have_acc = false;
      for (int k = 0; k < ns; k++) {
        Session& s = p.sessions[(size_t)k];
        bool recv = !B.tl_style && k == p.recv_at && sent_b[(size_t)p.recv_from].has;
        if (!recv && !c.chance(3, 4)) continue;  // this session works on A only
        Session t;
        int depth = 0, held = 0;
        if (recv) {
          t.src[1] = S_RECV;
          depth = sent_b[(size_t)p.recv_from].depth;
          held = sent_b[(size_t)p.recv_from].held;
        } else if (!B.tl_style && have_acc && c.flip()) {
          t.src[1] = S_KEPT;
        }
        bool last = k == ns - 1;
        bool handoff = !B.tl_style && last && p.send_to >= 0;
        bool end_locked = handoff && !c.chance(1, 4);
        gen_ops(c, t, 1, &depth, &held, end_locked);
        if (handoff) {
          t.end[1] = E_HANDOFF;
          sent_b[(size_t)j].has = true;
          sent_b[(size_t)j].depth = depth;
          sent_b[(size_t)j].held = held;
          have_acc = false;
        } else if (!B.tl_style) {
          t.end[1] = c.pick(ends);
          have_acc = t.end[1] == E_KEEP || t.end[1] == E_MOVE_ASSIGN;
        }
        std::vector<uint8_t> order = weave(c, s.ops.size(), t.ops.size());
        Session m;
        m.uses[1] = true;
        m.src[0] = s.src[0];
        m.end[0] = s.end[0];
        m.src[1] = t.src[1];
        m.end[1] = t.end[1];
        size_t ia = 0, ib = 0;
        for (uint8_t e : order) {
          const Session& from = e ? t : s;
          size_t& i = e ? ib : ia;
          m.ops.push_back(from.ops[i]);
          m.arg.push_back(from.arg[i]);
          m.dom.push_back(e);
          i++;
        }
        s = std::move(m);
      }
    }
  }
  const bool two = world->ndom == 2;

  static const char* pmn[] = {"exchange(acq_rel)", "store(release)", "store(seq_cst)"};
  if (!two) {
    dsched::describe("%s publish=%s;", A.tl_style ? "thread-local" : "accessor", pmn[A.publish_mode]);
  } else {
    Dom& B = *world->dom[1];
    dsched::describe("two epochs (ops on B marked '): A %s publish=%s, B %s publish=%s;", A.tl_style ? "thread-local" : "accessor",
                     pmn[A.publish_mode], B.tl_style ? "thread-local" : "accessor", pmn[B.publish_mode]);
    dsched::label("two_epochs");
    dsched::label(A.tl_style && B.tl_style ? "two_epochs_both_thread_local" : !A.tl_style && !B.tl_style ? "two_epochs_both_accessor"
                                                                                                       : "two_epochs_mixed_styles");
  }
  dsched::label(A.publish_mode == 0 ? "publish_exchange" : A.publish_mode == 1 ? "publish_store_release" : "publish_store_seq_cst");
  for (int i = 0; i < nw; i++) {
    dsched::describe(" W%d[", i);
    static const char* wn[] = {"replace", "poll", "replace2", "wait"};
    const WriterPlan& p = wplans[(size_t)i];
    for (size_t k = 0; k < p.ops.size(); k++) dsched::describe("%s%s%s", k ? "," : "", wn[p.ops[k]], p.dom[k] ? "'" : "");
    dsched::describe("]");
  }
  for (int j = 0; j < nr; j++) {
    ReaderPlan& p = rplans[(size_t)j];
    dsched::describe(" R%d%s[", j, p.wave ? "(wave2)" : "");
    for (size_t k = 0; k < p.sessions.size(); k++) {
      Session& s = p.sessions[k];
      static const char* sn[] = {"new", "kept", "recv"};
      static const char* en[] = {"release", "keep", "destroy", "move-assign", "handoff"};
      dsched::describe("%s%s", k ? " | " : "", A.tl_style ? "tl" : sn[s.src[0]]);
      if (s.uses[1]) dsched::describe("+%s'", world->dom[1]->tl_style ? "tl" : sn[s.src[1]]);
      dsched::describe(":");
      for (size_t i = 0; i < s.ops.size(); i++) dsched::describe("%s%s", rop_name(s.ops[i]), s.dom[i] ? "'" : "");
      for (int e = 0; e < world->ndom; e++) {
        if (!s.uses[e] || world->dom[e]->tl_style) continue;
        if (s.end[e] == E_HANDOFF) dsched::describe(":handoff%s->R%d", e ? "'" : "", p.send_to);
        else dsched::describe(":%s%s", en[s.end[e]], e ? "'" : "");
      }
    }
    dsched::describe("]");
  }
  dsched::label(A.tl_style ? "style_thread_local" : "style_accessor");

  for (int j = 0; j < nr; j++) world->mail.push_back(std::make_unique<Mailbox>());
  for (int e = 0; e < world->ndom; e++) world->dom[e]->head.store(new_node(e), std::memory_order_release);

  std::vector<WriterState> wstates((size_t)nw);
  for (int i = 0; i < nw; i++) wstates[(size_t)i].id = i;
  std::vector<std::thread> wave1, wave2, writers;
  for (int j = 0; j < nr; j++)
    if (rplans[(size_t)j].wave == 0) wave1.emplace_back([&, j] { run_reader(j, rplans[(size_t)j]); });
  for (int i = 0; i < nw; i++) writers.emplace_back([&, i] { run_writer(wstates[(size_t)i], wplans[(size_t)i]); });
  for (auto& t : wave1) t.join();
  // second wave: threads (ids, slots) created after others were destroyed, while scans may be running
  for (int j = 0; j < nr; j++)
    if (rplans[(size_t)j].wave == 1) {
      wave2.emplace_back([&, j] { run_reader(j, rplans[(size_t)j]); });
      dsched::label("second_wave_reader");
    }
  for (auto& t : wave2) t.join();
  for (auto& t : writers) t.join();

  // quiescent: every region is closed, every accessor unlocked or released => nothing holds the mark back
  for (int e = 0; e < world->ndom; e++) {
    Dom& d = *world->dom[e];
    for (Region& r : d.regions)
      if (!r.closed) dsched::fail("harness", "a region of epoch %c is still open at the end of the program", d.name());
    uint64_t lwm = d.epoch.low_water_mark();
    if (d.last_tick != 0 && lwm < d.last_tick)
      dsched::fail("mark-held-back",
                   "all regions are closed and all accessors unlocked or released, but low_water_mark() of epoch %c == %lu < last tick %lu",
                   d.name(), (unsigned long)lwm, (unsigned long)d.last_tick);
  }
  int at_end = 0;
  for (auto& ws : wstates)
    for (int e = 0; e < world->ndom; e++)
      for (Node* o : ws.ds[e].pending) {
        poison(o);
        at_end++;
      }
  if (world->reclaimed_in_run) dsched::label_n("reclaimed_during_run", (uint32_t)world->reclaimed_in_run);
  if (at_end) dsched::label_n("reclaimed_at_end", (uint32_t)at_end);
  if (world->nt) dsched::nontrivial();
  for (int e = 0; e < world->ndom; e++)
    for (Region& r : world->dom[e]->regions) dsched::mix_hash(r.lock_done_step * 1000003u + r.reads.size());
  for (auto& n : world->nodes) dsched::mix_hash(n->poisoned_step * 31 + n->tick);
  // accessors that are still alive must go before their epoch: kept (unlocked) ones and an undelivered mailbox
  world->kept.clear();
  world->mail.clear();
  W = nullptr;
}

void tune(dsched::Params& p, Chooser&) { p.max_steps = 200000; }

}  // namespace

int main(int argc, char** argv) {
  // The thread-id allocator behind the thread-local style is a function-local static. The engine does not model the
  // happens-before edge of its initialisation guard, so it is constructed here, before any case (and any fork).
  (void)babylon::ThreadId::current_thread_id<Epoch>();
  vf::Target t;
  t.name = "c09_epoch";
  t.property_id = "C09";
  t.run_case = run_case;
  t.tune = tune;
  t.nontrivial_rule = "a reader region overlapped the unlink -> tick -> low_water_mark() scan window of some retired node";
  return vf::main_driver(argc, argv, t);
}
