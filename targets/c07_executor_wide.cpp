// C07, wide thread-id layout: ThreadPoolExecutor whose workers' babylon thread ids (the ids that index the
// EnumerableThreadLocal<TaskQueue> holding the per-worker local queues) lie in block 0 only, straddle the
// 128-slot block boundary of the underlying ConcurrentVector, or lie in block 1 only. EnumerableThreadLocal::
// for_each calls its callback once per block, so everything that scans the local queues (work stealing, the
// balance sweep) has a second code path that a pool with a handful of fresh threads never reaches.
//
// The property quantifies over all worker counts; instead of > 128 workers (expensive) the harness occupies the
// ids 0..135 of the same id space (the IdAllocator behind ThreadId::current_thread_id<TaskQueue>; TaskQueue is a
// private type: this file is compiled with -fno-access-control) exactly as 136 other live threads owning local
// queues would, frees exactly the generated id set F, and then starts a 2-4 worker pool whose workers recycle
// the ids of F. (-DDSCHED_MAXT=200 is kept in the .reg.json so that real ballast threads remain an option.)
//
// Oracles are those of c07_executor.cpp: an accepted task runs exactly once before stop() returns, on a thread
// with is_running_in(), futures ready with the callable's value, nothing runs after stop().
#include <babylon/executor.h>

#include <stdio.h>
#include <string.h>

#include <chrono>
#include <memory>
#include <thread>
#include <vector>

#include "../engine/common/driver.h"

using dsched::Tracked;
using vf::Chooser;

namespace {

using TQ = babylon::ThreadPoolExecutor::TaskQueue;  // private member type (-fno-access-control)
constexpr int D = 136;       // ballast threads == ids 0..D-1 of the TaskQueue id space
constexpr int BLOCK = 128;   // ConcurrentVector block size used by EnumerableThreadLocal

int my_queue_id() { return (int)babylon::ThreadId::current_thread_id<TQ>().value; }

struct TaskSpec {
  int id = 0;
  int parent = -1;
  bool use_execute = false;
  bool wakeup_after = false;
  bool wake_inside = false;  // the task calls wakeup_one_worker() after spawning (as test_executor.cpp local_task_steal_after_wakeup)
  int submitter = 0;
  std::vector<int> children;
};
struct TaskState {
  bool attempted = false, returned = false, accepted = false;
  dsched::Stamp accept_stamp{};
  bool must_run = false;
  int runs = 0;
  int run_tid = -1;
  int run_qid = -1;  // babylon TaskQueue thread id of the worker that ran it
  bool finished = false;
  bool has_future = false;
  babylon::Future<int> future;
  Tracked<uint64_t> arg, result;
};
struct World {
  std::vector<TaskSpec> spec;
  std::vector<TaskState> state;
  babylon::ThreadPoolExecutor* exec = nullptr;
  bool stopped = false;
  bool migrated = false;
  bool stolen_from_block0 = false;  // child ran on another worker than its parent, parent's queue id < 128
  bool seen_lo = false, seen_hi = false;
  std::vector<int> planned;         // F
  bool outside_plan = false;
};
World* W;

int value_of(int id) { return id * 7 + 1; }
void spawn(int id);

int body(int id) {
  TaskState& s = W->state[(size_t)id];
  const TaskSpec& t = W->spec[(size_t)id];
  s.runs++;
  if (s.runs > 1) dsched::fail("exactly-once", "task %d ran %d times", id, s.runs);
  if (!s.attempted) dsched::fail("exactly-once", "task %d ran but was never submitted", id);
  if (W->stopped) dsched::fail("run-after-stop", "task %d started after stop() had returned", id);
  s.run_tid = dsched::tid();
  s.run_qid = my_queue_id();
  (s.run_qid < BLOCK ? W->seen_lo : W->seen_hi) = true;
  bool in_plan = false;
  for (int q : W->planned) in_plan |= q == s.run_qid;
  if (!in_plan) W->outside_plan = true;
  if (!W->exec->is_running_in()) dsched::fail("is-running-in", "is_running_in() is false inside task %d (T%d)", id, dsched::tid());
  uint64_t a = s.arg.get("task argument");
  if (a != (uint64_t)id * 31 + 5) dsched::fail("payload", "task %d saw argument %lu", id, (unsigned long)a);
  if (t.parent >= 0) {
    const TaskState& ps = W->state[(size_t)t.parent];
    if (ps.run_tid >= 0 && ps.run_tid != s.run_tid) {
      W->migrated = true;
      if (ps.run_qid < BLOCK) W->stolen_from_block0 = true;
    }
  }
  dsched::point();
  for (int ch : t.children) {
    spawn(ch);
    dsched::point();
    if (!W->exec->is_running_in()) dsched::fail("is-running-in", "is_running_in() became false inside task %d", id);
  }
  if (t.wake_inside) {
    W->exec->wakeup_one_worker();
    for (int k = 0; k < 3; k++) dsched::yield_point();  // linger: give a woken worker the chance to steal
  }
  dsched::point();
  if (W->stopped) dsched::fail("run-after-stop", "task %d was still running after stop() had returned", id);
  s.result.set((uint64_t)value_of(id), "task result");
  s.finished = true;
  return value_of(id);
}

void spawn(int id) {
  TaskState& s = W->state[(size_t)id];
  const TaskSpec& t = W->spec[(size_t)id];
  if (s.attempted) dsched::fail("harness", "task %d submitted twice", id);
  s.attempted = true;
  s.arg.set((uint64_t)id * 31 + 5, "task argument");
  if (t.use_execute) {
    babylon::Future<int> f = W->exec->execute([id] { return body(id); });
    s.accepted = f.valid();
    s.future = f;
    s.has_future = true;
  } else {
    s.accepted = W->exec->submit([id] { body(id); }) == 0;
  }
  s.accept_stamp = dsched::stamp();
  s.returned = true;
  if (!s.accepted) dsched::fail("accept", "%s of task %d failed", t.use_execute ? "execute" : "submit", id);
}

enum Layout { L_STRADDLE = 0, L_BLOCK0, L_BLOCK1 };
const char* layout_name[] = {"straddle", "block0", "block1"};

void run_case(Chooser& c) {
  World world;
  W = &world;
  // ---- generate --------------------------------------------------------------------------------
  uint32_t lk = c.below(4);
  Layout layout = lk <= 1 ? L_STRADDLE : lk == 2 ? L_BLOCK0 : L_BLOCK1;
  int workers = c.range(2, 4);
  bool steal = !c.chance(1, 6);
  bool balance = c.chance(1, 8);
  int nsub = c.range(0, 1);
  bool dtor_only = c.chance(1, 6);
  int extra_wakeups = c.range(0, 1);  // every wake-up costs a scan of up to 256 local queues
  // F: the ids the ballast gives up before the pool starts (the workers recycle them)
  std::vector<int> F;
  if (layout == L_STRADDLE) {
    int below = c.range(1, workers - 1);
    for (int i = 0; i < workers; i++) F.push_back(BLOCK - below + i);
  } else if (layout == L_BLOCK0) {
    int f = workers + c.range(0, 2), base = c.range(0, BLOCK - 8);
    for (int i = 0; i < f; i++) F.push_back(base + i);
  } else {
    int f = workers + c.range(0, 2), base = BLOCK + c.range(0, D - BLOCK - 6);
    for (int i = 0; i < f; i++) F.push_back(base + i);
  }
  for (size_t i = F.size(); i > 1; i--) std::swap(F[i - 1], F[c.below((uint32_t)i)]);  // release order (ids are recycled LIFO)
  W->planned = F;
  // forest: 1-3 roots, <= 4 spawned tasks in total (every spawn fits the local queue => every task must run)
  int nroots = c.range(1, 3), spawned = 0;
  auto add = [&](int parent) {
    TaskSpec t;
    t.id = (int)W->spec.size();
    t.parent = parent;
    t.use_execute = c.flip();
    W->spec.push_back(t);
    if (parent >= 0) W->spec[(size_t)parent].children.push_back(t.id);
    return t.id;
  };
  for (int r = 0; r < nroots; r++) {
    int root = add(-1);
    W->spec[(size_t)root].submitter = (int)c.below((uint32_t)nsub + 1);
    W->spec[(size_t)root].wakeup_after = c.chance(1, 6);
    W->spec[(size_t)root].wake_inside = c.chance(1, 2);
    int nch = c.range(r == 0 ? 1 : 0, 3);
    for (int k = 0; k < nch && spawned < 4; k++) {
      int ch = add(root);
      spawned++;
      if (spawned < 4 && c.chance(1, 4)) {
        add(ch);
        spawned++;
      }
    }
  }
  W->state.resize(W->spec.size());
  int local_cap = spawned;  // >= 1; every spawn fits
  int R = extra_wakeups;
  for (const TaskSpec& t : W->spec)
    if (t.parent < 0) R += 1 + (t.wakeup_after ? 1 : 0) + (t.wake_inside ? 1 : 0);
  int global_cap = 1;  // never full: tasks + wakeups + STOP markers fit (no deadlock by design)
  auto real_cap = [](int gc) { size_t n = 1; while (n < (size_t)gc * 2) n <<= 1; return n; };
  while (real_cap(global_cap) < (size_t)(R + spawned + workers)) global_cap++;

  dsched::describe("wide layout=%s F=[", layout_name[layout]);
  for (size_t i = 0; i < F.size(); i++) dsched::describe("%s%d", i ? "," : "", F[i]);
  dsched::describe("] w=%d local=%d global=%d steal=%d balance=%d subs=%d wk=%d%s;", workers, local_cap, global_cap, (int)steal, (int)balance, nsub,
                   extra_wakeups, dtor_only ? " dtor-only" : "");
  for (const TaskSpec& t : W->spec) {
    if (t.parent >= 0) continue;
    dsched::describe(" S%d:%s%d(", t.submitter, t.use_execute ? "x" : "s", t.id);
    for (int ch : t.children) {
      dsched::describe("%s%d", W->spec[(size_t)ch].use_execute ? "x" : "s", ch);
      for (int g : W->spec[(size_t)ch].children) dsched::describe("[%s%d]", W->spec[(size_t)g].use_execute ? "x" : "s", g);
      dsched::describe(" ");
    }
    dsched::describe(")%s%s", t.wake_inside ? "W" : "", t.wakeup_after ? "+w" : "");
  }

  // ---- ballast: the ids 0..D-1 are taken, as if D other threads owning local queues were alive --------------
  // (taken directly from the id allocator of the TaskQueue id space: the allocator state is the one that D parked
  // threads would produce, without paying for D threads in every case; single-threaded, so run unscheduled)
  auto& ids = babylon::internal::concurrent_id_allocator::IdAllocatorFotType<TQ, false>::instance();
  std::vector<babylon::VersionedValue<uint16_t>> held((size_t)D);
  std::vector<bool> have((size_t)D, false), gone((size_t)D, false);
  std::vector<babylon::VersionedValue<uint16_t>> strays;
  bool layout_ok = true;
  dsched::quiet_begin();
  for (int i = 0; i < D; i++) {
    auto v = ids.allocate();
    if (v.value < D && !have[v.value]) {
      held[v.value] = v;
      have[v.value] = true;
    } else {
      strays.push_back(v);
      layout_ok = false;
    }
  }
  for (int i = 0; i < D; i++)
    if (!have[(size_t)i]) layout_ok = false;
  if (layout_ok)
    for (int id : F) {  // free exactly F, in the generated order (ids are recycled LIFO)
      ids.deallocate(held[(size_t)id]);
      gone[(size_t)id] = true;
    }
  dsched::quiet_end();
  if (layout_ok) {
    dsched::label(layout == L_STRADDLE ? "worker_ids_straddle_block" : layout == L_BLOCK0 ? "worker_ids_block0_only" : "worker_ids_block1_only");
  } else {
    // another id history in this process: still a valid program (the workers take fresh ids), the layout is unknown
    W->planned.clear();
    for (int i = 0; i < 4 * D; i++) W->planned.push_back(i);
    dsched::label("id_layout_unexpected");
  }

  // ---- the pool ----------------------------------------------------------------------------------
  auto decide_must_run = [&] {
    for (size_t i = 0; i < W->state.size(); i++) {
      TaskState& s = W->state[i];
      const TaskSpec& t = W->spec[i];
      bool pre_stop = s.returned && s.accepted && dsched::ordered_after(s.accept_stamp);
      s.must_run = pre_stop || (t.parent >= 0 && W->state[(size_t)t.parent].must_run);  // all spawns fit the local queue
    }
  };
  auto after_stop_checks = [&](const char* when) {
    for (size_t i = 0; i < W->state.size(); i++) {
      TaskState& s = W->state[i];
      if (s.runs > 1) dsched::fail("exactly-once", "task %zu ran %d times", i, s.runs);
      if (s.must_run && s.runs != 1)
        dsched::fail("drain", "%s returned but task %zu (%s, accepted before stop() was called) never ran", when, i,
                     W->spec[i].parent < 0 ? "root" : "spawned into a local queue by a task that had to run");
      if (s.runs && !s.finished) dsched::fail("drain", "%s returned while task %zu is still running", when, i);
      if (s.finished) {
        if (s.result.get("task result") != (uint64_t)value_of((int)i)) dsched::fail("payload", "task %zu result corrupted", i);
        if (s.has_future) {
          if (!s.future.valid() || !s.future.ready()) dsched::fail("future", "%s: task %zu finished but its future is not ready", when, i);
          if (s.future.get() != value_of((int)i)) dsched::fail("future", "%s: future of task %zu holds %d", when, i, s.future.get());
        }
      }
    }
  };
  {
    babylon::ThreadPoolExecutor ex;
    W->exec = &ex;
    ex.set_worker_number((size_t)workers);
    ex.set_local_capacity((size_t)local_cap);
    ex.set_global_capacity((size_t)global_cap);
    ex.set_enable_work_stealing(steal);
    if (balance) ex.set_balance_interval(std::chrono::milliseconds(1));
    if (ex.start() != 0) dsched::fail("start", "start() failed");
    auto run_submitter = [&](int who) {
      for (const TaskSpec& t : W->spec) {
        if (t.parent >= 0 || t.submitter != who) continue;
        spawn(t.id);
        if (t.wakeup_after) ex.wakeup_one_worker();
        dsched::point();
      }
    };
    std::vector<std::thread> subs;
    for (int k = 1; k <= nsub; k++) subs.emplace_back([&, k] { run_submitter(k); });
    run_submitter(0);
    for (int i = 0; i < extra_wakeups; i++) {
      dsched::yield_point();
      ex.wakeup_one_worker();
    }
    for (auto& th : subs) th.join();
    decide_must_run();
    if (!dtor_only) {
      ex.stop();
      W->stopped = true;
      after_stop_checks("stop()");
      for (TaskState& s : W->state) s.future = babylon::Future<int>();
    }
  }
  W->exec = nullptr;
  if (dtor_only) {
    W->stopped = true;
    after_stop_checks("~ThreadPoolExecutor()");
    dsched::label("stop_by_destructor");
  }
  // ---- release the rest of the ballast (every thread of the case has been joined) ------------------------------
  dsched::quiet_begin();
  for (int i = 0; i < D; i++)
    if (have[(size_t)i] && !gone[(size_t)i]) ids.deallocate(held[(size_t)i]);
  for (auto& v : strays) ids.deallocate(v);
  dsched::quiet_end();

  for (size_t i = 0; i < W->state.size(); i++) {
    const TaskState& s = W->state[i];
    if (s.runs > 1) dsched::fail("exactly-once", "task %zu ran %d times", i, s.runs);
    dsched::mix_hash((uint64_t)i * 1000003u + (uint64_t)(s.run_qid + 2) * 17 + (uint64_t)s.runs);
  }
  dsched::mix_hash(dsched::stat_switches());
  if (W->outside_plan) dsched::label("worker_id_outside_plan");
  if (W->seen_lo && W->seen_hi) dsched::label("tasks_ran_on_both_sides_of_128");
  if (W->migrated) dsched::label("child_ran_on_another_worker");
  if (W->stolen_from_block0 && layout == L_STRADDLE && layout_ok) dsched::label("taken_from_block0_queue_with_block1_present");
  if (steal) dsched::label("work_stealing");
  if (balance) dsched::label("balance_thread");
  if (W->migrated) dsched::nontrivial();
  W = nullptr;
}

void tune(dsched::Params& p, Chooser&) { p.max_steps = 300000; }

}  // namespace

int main(int argc, char** argv) {
  vf::Target t;
  t.name = "c07_executor_wide";
  t.property_id = "C07";
  t.run_case = run_case;
  t.tune = tune;
  t.nontrivial_rule =
      "worker thread ids planned in block 0 / straddling 128 / block 1 (label), and a task spawned into a worker's local queue ran on "
      "another worker (stolen, or moved by the balance thread)";
  return vf::main_driver(argc, argv, t);
}
