// C20 (appender half): AsyncFileAppender under the schedule fuzzer.
//   1..3 logging threads stream framed entries of boundary lengths through their own LogStreamBuffer and
//   write() them to 1..2 FileObjects backed by memfd descriptors (one may rotate its descriptor between
//   batches); queue capacity 1..8; close() / destructor after the writers were joined. A share of the entries goes
//   through the front end instead (AsyncLogStream from AsyncLogStream::creator: header formatter, begin(args...),
//   nested begin/end, noflush suspension, write / << / format pieces, the newline do_end appends).
//   Oracle: the bytes of every file (rotated descriptors in order) parse into frames; every written entry is
//   there exactly once, intact, in its own file, per-thread order preserved; every page is back with the
//   recording allocator after close(); a rotated-out descriptor was closed by the appender.
#include <babylon/logging/async_file_appender.h>
#include <babylon/logging/async_log_stream.h>
#include <babylon/logging/log_entry.h>

#include <errno.h>
#include <fcntl.h>
#include <stdio.h>
#include <string.h>
#include <sys/mman.h>
#include <sys/stat.h>
#include <sys/uio.h>
#include <unistd.h>

#include <atomic>
#include <bit>
#include <map>
#include <memory>
#include <string>
#include <thread>
#include <vector>

#include "../engine/common/driver.h"

using vf::Chooser;

namespace {

using babylon::AsyncFileAppender;
using babylon::FileObject;
using babylon::LogEntry;
using babylon::LogStreamBuffer;

constexpr size_t INLINE = LogEntry::INLINE_PAGE_CAPACITY;
constexpr uint64_t CANARY = 0xC20C20C20C20C20CULL;

// F7 (see the report of this target): AsyncFileAppender::close() enqueues its stop marker with the default
// push<CONCURRENT, USE_FUTEX_WAIT, USE_FUTEX_WAKE>, but the writer thread pops with try_pop_n<false, false>
// (no futex wake). When the marker's slot is still occupied, close() sleeps in futex_wait and is never woken.
// While this is true the generator lets the writer thread free that slot before it calls close().
// Remove (set to false) once close() is fixed.
#ifndef C20_KNOWN_CLOSE_FULL_QUEUE_HANG
#define C20_KNOWN_CLOSE_FULL_QUEUE_HANG 1
#endif
constexpr bool known_close_full_queue_hang = C20_KNOWN_CLOSE_FULL_QUEUE_HANG;

// ---- recording, recycling allocator ----------------------------------------------------------------
// Pages are recycled LIFO and poisoned on release, so a page returned before its bytes reached the file shows
// up as corrupted file content; a canary behind every page detects writes past it.
struct RecAlloc : public babylon::PageAllocator {
  struct Info {
    bool out = false;
    int entry = -1;  // harness entry id the page currently belongs to (-1: not attributed yet)
    dsched::TrackState ts;
  };
  size_t ps;
  std::map<void*, Info> pages;  // every block ever created in this case (lookups only)
  std::vector<void*> free_list;
  std::vector<void*>* collecting[dsched::MAXT] = {};  // per scheduled thread: pages handed out to it
  int cur_entry[dsched::MAXT];  // per scheduled thread: entry being streamed through the front end (-1: none); its
                                // pages are attributed when handed out, because do_end() may take one more page for
                                // the newline and passes the entry on before the harness sees it again
  size_t outstanding = 0;
  size_t total_allocs = 0;
  std::vector<char> entry_released;  // by entry id: first page came back
  size_t released_written = 0;       // written (not discarded) entries released so far
  std::vector<char> entry_is_written;
  // bookkeeping for labels
  uint64_t* check_counter = nullptr;
  struct Dealloc { uint64_t checks; int tid; int last_reg; };
  int* last_checked_reg = nullptr;  // registration order of the file object checked most recently
  std::vector<Dealloc> dealloc_calls;

  explicit RecAlloc(size_t page_size) : ps(page_size) {
    for (int& e : cur_entry) e = -1;
  }
  ~RecAlloc() noexcept override {
    for (auto& kv : pages) free(kv.first);
  }
  size_t page_size() const noexcept override { return ps; }
  using PageAllocator::allocate;
  using PageAllocator::deallocate;

  uint64_t& canary_of(void* p) { return *reinterpret_cast<uint64_t*>(static_cast<char*>(p) + ps); }

  void allocate(void** out, size_t num) noexcept override {
    dsched::point();
    for (size_t i = 0; i < num; i++) {
      void* p;
      if (!free_list.empty()) {
        p = free_list.back();
        free_list.pop_back();
      } else {
        p = malloc(ps + sizeof(uint64_t));
        canary_of(p) = CANARY;
        pages[p];
      }
      Info& info = pages[p];
      if (info.out) dsched::fail("harness", "allocator handed out a page twice");
      info.out = true;
      info.entry = -1;
      dsched::track_reset(&info.ts);
      memset(p, 0x5A, ps);
      outstanding++;
      total_allocs++;
      int t = dsched::tid();
      if (t >= 0 && t < dsched::MAXT && collecting[t]) collecting[t]->push_back(p);
      if (t >= 0 && t < dsched::MAXT && cur_entry[t] >= 0) {
        info.entry = cur_entry[t];
        dsched::track_write(&info.ts, "log page taken by the logging thread");
      }
      out[i] = p;
    }
  }
  void deallocate(void** in, size_t num) noexcept override {
    dsched::point();
    dealloc_calls.push_back(Dealloc{check_counter ? *check_counter : 0, dsched::tid(), last_checked_reg ? *last_checked_reg : -1});
    for (size_t i = 0; i < num; i++) {
      void* p = in[i];
      auto it = pages.find(p);
      if (it == pages.end()) dsched::fail("page-conservation", "deallocate(%p): not a page of this allocator (%zu of %zu in this call)", p, i, num);
      Info& info = it->second;
      if (!info.out)
        dsched::fail("page-conservation", "deallocate(%p): page is not outstanding: released twice (%zu of %zu in this call, entry %d)", p, i, num,
                     info.entry);
      if (canary_of(p) != CANARY) dsched::fail("page-overflow", "bytes behind page %p (entry %d) were overwritten", p, info.entry);
      // the releasing thread must be ordered after the logging thread's last write into the page
      dsched::track_read(&info.ts, "log page released by the appender");
      info.out = false;
      if (info.entry >= 0 && !entry_released[(size_t)info.entry]) {
        entry_released[(size_t)info.entry] = 1;
        if (entry_is_written[(size_t)info.entry]) released_written++;
      }
      memset(p, 0xDD, ps);
      outstanding--;
      free_list.push_back(p);
    }
  }
  // the logging thread finished an entry: attribute its pages and publish them for the happens-before check
  void declare(int entry, bool written) {
    if (entry_released.size() <= (size_t)entry) {
      entry_released.resize((size_t)entry + 1, 0);
      entry_is_written.resize((size_t)entry + 1, 0);
    }
    entry_is_written[(size_t)entry] = written ? 1 : 0;
  }
  void publish(const std::vector<void*>& handed, int entry, bool written) {
    declare(entry, written);
    for (void* p : handed) {
      Info& info = pages[p];
      info.entry = entry;
      dsched::track_write(&info.ts, "log page filled by the logging thread");
    }
  }
};

// ---- memfd-backed file objects -------------------------------------------------------------------
struct FdSpace {
  int next = 300;  // descriptors given to the appender get numbers that are never reused inside a case
  int place(int fd) {
    int r = fcntl(fd, F_DUPFD_CLOEXEC, next);
    if (r < 0) dsched::discard("fcntl(F_DUPFD) failed");
    next = r + 1;
    return r;
  }
};

struct MemFile : public FileObject {
  int index;
  FdSpace* space;
  uint64_t* check_counter;
  bool rotating = false;
  uint32_t pattern = 0;  // rotation decisions, one bit per batch that carried data
  int decisions = 0;
  int rotations = 0;
  int cur = -1;
  int reg_order = -1;
  int* reg_counter = nullptr;
  int* last_checked_reg = nullptr;
  std::vector<int> keep;     // harness-owned duplicates, in rotation order (read back at the end)
  std::vector<int> retired;  // descriptors handed back as old_fd: the appender has to close them

  MemFile(int idx, FdSpace* sp, uint64_t* cc, int* rc) : index(idx), space(sp), check_counter(cc), reg_counter(rc) { open_new(); }
  ~MemFile() noexcept override {
    for (int fd : keep) ::close(fd);
    if (cur >= 0) ::close(cur);
  }
  void open_new() {
    int m = (int)memfd_create("c20", MFD_CLOEXEC);
    if (m < 0) dsched::discard("memfd_create failed");
    cur = space->place(m);
    int k = space->place(m);
    ::close(m);
    keep.push_back(k);
  }
  ::std::tuple<int, int> check_and_get_file_descriptor() noexcept override {
    dsched::point();
    (*check_counter)++;
    if (reg_order < 0) reg_order = (*reg_counter)++;
    if (last_checked_reg) *last_checked_reg = reg_order;
    int old = -1;
    if (rotating && rotations < 5) {
      off_t pos = lseek(cur, 0, SEEK_CUR);  // shared with the appender's descriptor: > 0 once a batch went there
      if (pos > 0) {
        bool rotate = (pattern >> (decisions % 16)) & 1;
        decisions++;
        if (rotate) {
          old = cur;
          retired.push_back(old);
          open_new();
          rotations++;
        }
      }
    }
    return ::std::tuple<int, int>{cur, old};
  }
  std::string read_all() const {
    std::string s;
    for (int fd : keep) {
      struct stat st;
      if (fstat(fd, &st) != 0) dsched::discard("fstat failed");
      size_t n = (size_t)st.st_size, at = s.size();
      s.resize(at + n);
      size_t got = 0;
      while (got < n) {
        ssize_t r = pread(fd, &s[at + got], n - got, (off_t)got);
        if (r <= 0) dsched::discard("pread failed");
        got += (size_t)r;
      }
    }
    return s;
  }
};

// ---- frames -----------------------------------------------------------------------------------------
// long frame : [0] = 0xA0 | thread, [1] = seq, [2..4] = total length (LE, >= 5), payload byte i = pat(thread, seq, i)
// short frame: one byte 0x40 | thread << 4 | seq   (the one-byte entry; seq < 16)
inline uint8_t pat(int thread, int seq, size_t i) {
  uint64_t x = (uint64_t)(thread + 1) * 0x9E3779B97F4A7C15ULL + (uint64_t)(seq + 1) * 0xC2B2AE3D27D4EB4FULL + i * 0x165667B19E3779F9ULL;
  x ^= x >> 29; x *= 0xBF58476D1CE4E5B9ULL; x ^= x >> 32;
  return (uint8_t)x;
}
// an entry that went through the front end ends with the newline AsyncLogStream::do_end appends (counted in len)
inline uint8_t frame_byte(int thread, int seq, size_t i, size_t len, bool stream) {
  return stream && i + 1 == len ? (uint8_t)'\n' : pat(thread, seq, i);
}
std::string make_frame(int thread, int seq, size_t len, bool stream = false) {
  std::string s(len, '\0');
  if (len == 1) {
    s[0] = (char)(0x40 | (thread << 4) | seq);
    return s;
  }
  s[0] = (char)(0xA0 | thread);
  s[1] = (char)seq;
  s[2] = (char)(len & 0xFF);
  s[3] = (char)((len >> 8) & 0xFF);
  s[4] = (char)((len >> 16) & 0xFF);
  for (size_t i = 5; i < len; i++) s[i] = (char)frame_byte(thread, seq, i, len, stream);
  return s;
}

struct EntryPlan {
  int thread, seq, file;
  size_t len;
  int chunking;  // 0 one sputn, 1 two sputn split at a page edge +-1, 2 sputc head then sputn, 3 ostream <<,
                 // 4 front end (AsyncLogStream)
  uint32_t shape = 0;  // front end: how the pieces are streamed (see stream_entry)
  bool discard;
  int id;        // harness entry id
  bool seen = false;
};

size_t table_capacity(size_t ps) { return (ps - sizeof(LogEntry::PageTable)) / sizeof(char*); }

size_t pick_length(Chooser& c, size_t ps, int seq, bool& huge_used) {
  size_t cap = table_capacity(ps);
  size_t budget = 40000;  // bytes per ordinary entry
  size_t len;
  int cls = (int)c.below(8);
  int d = c.range(-2, 2);
  auto at = [&](size_t pages) { return (size_t)((long)(pages * ps) + d); };
  switch (cls) {
    case 0: len = 1; break;
    case 1: len = 5 + c.below(16); break;
    case 2: len = at(1 + c.below(3)); break;
    case 3: len = at(INLINE - 1 + c.below(3)); break;
    case 4: case 5: {
      size_t k = 1 + c.below(3);
      len = at(INLINE - 1 + k * cap - 1 + c.below(3));
      break;
    }
    case 6: len = 5 + c.below((uint32_t)std::min<size_t>((INLINE + 3 * cap) * ps, budget)); break;
    default:
      if (ps == 32 && !huge_used && c.chance(1, 4)) {
        huge_used = true;
        return 32 * (800 + c.below(40)) + (size_t)c.range(0, 2);  // > IOV_MAX segments in one batch
      }
      len = at(INLINE);
      break;
  }
  if (len > budget) len = at(INLINE);
  if (len > budget) len = ps + 5;
  if (len == 1 && seq >= 16) len = 5;
  if (len >= 2 && len < 5) len = 5;
  if (len == 0) len = 1;
  return len;
}

struct World {
  RecAlloc* alloc;
  AsyncFileAppender* appender;
  std::vector<MemFile*> files;
  std::vector<EntryPlan> entries;
};

// ---- front end ---------------------------------------------------------------------------------------
// One AsyncLogStream per (logging thread, file), made by the public factory. The header formatter the stream calls
// from do_begin() writes the first two bytes of the frame; begin(args...) writes the next three; the body is cut
// into pieces that go through write(data, n), write(char), operator<< (StringView, char) and format("%s"); the
// outermost end() appends '\n' and hands the entry to the appender. Shapes (bits of e.shape):
//   bit 0    a nested begin(args)/end() pair in the middle: must neither repeat the header nor send the entry
//   bit 1    noflush(); end(); begin(args): suspends the entry, the resuming begin writes no header and no args
//   bits 2-3 piece size class, bits 4-8 piece operation rotation
//   bit 9    the last piece of the body is printed by a user type whose operator<<(std::ostream&) writes its bytes and
//            then reports failure (setstate(failbit), ordinary iostream behaviour): the next entry on the same stream
//            must be unaffected (LogStream::end() resets the stream state)
struct Blob {
  const char* p;
  size_t n;
  bool fail_after;
};
std::ostream& operator<<(std::ostream& os, const Blob& b) {
  os.write(b.p, (std::streamsize)b.n);
  if (b.fail_after) os.setstate(std::ios_base::failbit);
  return os;
}
struct FrontEnd {
  const std::string* frame = nullptr;  // what the current entry's formatter has to write
  std::vector<std::unique_ptr<babylon::LogStream>> streams;
};

void stream_entry(babylon::LogStream& ls, const std::string& frame, uint32_t shape) {
  using babylon::StringView;
  size_t body_end = frame.size() - 1;  // the newline is the stream's
  ls.begin(frame[2], StringView(frame.data() + 3, 2));
  size_t pos = 5;
  static const size_t piece_sizes[] = {1, 7, 61, 1000};
  size_t piece = piece_sizes[(shape >> 2) & 3];
  uint32_t rot = (shape >> 4) & 31;
  bool nested = shape & 1, suspend = shape & 2, fail_last = shape & 512;
  size_t mid = 5 + (body_end - 5) / 2;
  int k = 0;
  while (pos < body_end) {
    if (nested && pos >= mid) {
      nested = false;
      ls.begin('X', StringView("never written"));
      ls.end();
    }
    if (suspend && pos >= mid) {
      suspend = false;
      ls.noflush();
      ls.end();
      ls.begin('Y', StringView("never written"));
    }
    size_t n = std::min(piece, body_end - pos);
    if (fail_last && pos + n == body_end) {
      ls << Blob{frame.data() + pos, n, true};
      pos += n;
      break;
    }
    switch ((rot + (uint32_t)k++) % 6) {
      case 0: ls.write(frame.data() + pos, n); break;
      case 1: ls << StringView(frame.data() + pos, n); break;
      case 2: n = 1; ls.write(frame[pos]); break;
      case 3: n = 1; ls << frame[pos]; break;
      case 4: ls << Blob{frame.data() + pos, n, false}; break;  // a user type: goes through the std::ostream layer
      default: {
        // format("%s") stops at a NUL: take the run up to the next zero byte
        size_t m = 0;
        while (m < n && frame[pos + m] != '\0') m++;
        if (m == 0) { n = 1; ls.write(frame[pos]); break; }
        n = m;
        std::string piece_str(frame.data() + pos, n);
        ls.format("%s", piece_str.c_str());
        break;
      }
    }
    pos += n;
  }
  ls.end();
}

void logging_thread(World& w, int thread, const std::vector<int>& mine) {
  LogStreamBuffer buf;
  buf.set_page_allocator(w.appender->page_allocator());
  std::vector<void*> handed;
  int t = dsched::tid();
  FrontEnd fe;
  fe.streams.resize(w.files.size());
  for (int idx : mine) {
    EntryPlan& e = w.entries[(size_t)idx];
    if (e.chunking == 4) {
      std::string frame = make_frame(e.thread, e.seq, e.len, true);
      auto& slot = fe.streams[(size_t)e.file];
      if (!slot) {
        FrontEnd* fep = &fe;
        slot = babylon::AsyncLogStream::creator(*w.appender, *w.files[(size_t)e.file], [fep](babylon::AsyncLogStream& ls) {
          ls.write(fep->frame->data(), 2);
        })();
      }
      fe.frame = &frame;
      w.alloc->declare(e.id, true);
      w.alloc->cur_entry[t] = e.id;
      stream_entry(*slot, frame, e.shape);
      w.alloc->cur_entry[t] = -1;
      fe.frame = nullptr;
      continue;
    }
    std::string frame = make_frame(e.thread, e.seq, e.len);
    handed.clear();
    w.alloc->collecting[t] = &handed;
    buf.begin();
    size_t ps = w.alloc->ps;
    switch (e.chunking) {
      case 0: buf.sputn(frame.data(), (std::streamsize)frame.size()); break;
      case 1: {
        size_t cut = frame.size() > ps ? (frame.size() / ps) * ps - 1 : frame.size() / 2;
        buf.sputn(frame.data(), (std::streamsize)cut);
        buf.sputn(frame.data() + cut, (std::streamsize)(frame.size() - cut));
        break;
      }
      case 2: {
        size_t head = std::min<size_t>(frame.size(), 7);
        for (size_t i = 0; i < head; i++) buf.sputc(frame[i]);
        buf.pubsync();
        buf.sputn(frame.data() + head, (std::streamsize)(frame.size() - head));
        break;
      }
      default: {
        std::ostream os(&buf);
        os << frame;
        break;
      }
    }
    LogEntry& entry = buf.end();
    w.alloc->collecting[t] = nullptr;
    if (entry.size != e.len) dsched::fail("entry-size", "entry.size == %zu after streaming %zu bytes", entry.size, e.len);
    w.alloc->publish(handed, e.id, !e.discard);
    if (e.discard) w.appender->discard(entry);
    else w.appender->write(entry, w.files[(size_t)e.file]);
  }
}

void run_case(Chooser& c) {
  static const size_t page_sizes[] = {32, 64, 128, 32, 256, 4096};
  size_t ps = c.pick(page_sizes);
  size_t min_cap = (size_t)c.range(1, 8);
  int nthreads = c.range(1, 3);
  int nfiles = c.range(1, 2);
  int close_mode = (int)c.below(3);  // 0 close() then destructor, 1 destructor only, 2 close() twice
  bool rotate = c.flip();
  uint32_t pattern = c.below(1u << 16);

  uint64_t check_counter = 0;
  int reg_counter = 0, last_checked_reg = -1;
  FdSpace space;
  RecAlloc alloc(ps);
  alloc.check_counter = &check_counter;
  alloc.last_checked_reg = &last_checked_reg;
  std::vector<std::unique_ptr<MemFile>> files;
  for (int i = 0; i < nfiles; i++) {
    files.emplace_back(new MemFile(i, &space, &check_counter, &reg_counter));
    files.back()->last_checked_reg = &last_checked_reg;
  }
  if (rotate) {
    files[0]->rotating = true;
    files[0]->pattern = pattern;
  }

  World w;
  w.alloc = &alloc;
  for (auto& f : files) w.files.push_back(f.get());

  dsched::describe("page=%zu queue>=%zu files=%d%s close_mode=%d;", ps, min_cap, nfiles, rotate ? "(file0 rotates)" : "", close_mode);

  // plan
  std::vector<std::vector<int>> mine((size_t)nthreads);
  bool huge_used = false;
  size_t nwritten = 0, ndiscarded = 0;
  for (int t = 0; t < nthreads; t++) {
    int n = c.range(1, 4);
    dsched::describe(" T%d[", t + 1);
    for (int s = 0; s < n; s++) {
      EntryPlan e{};
      e.thread = t;
      e.seq = s;
      e.file = nfiles > 1 ? (int)c.below((uint32_t)nfiles) : 0;
      e.len = pick_length(c, ps, s, huge_used);
      e.chunking = (int)c.below(4);
      e.discard = c.chance(1, 8);
      e.id = (int)w.entries.size();
      mine[(size_t)t].push_back(e.id);
      if (e.discard) ndiscarded++; else nwritten++;
      dsched::describe("%s%zu%s>f%d", s ? "," : "", e.len, e.discard ? "(discard)" : "", e.file);
      w.entries.push_back(e);
    }
    dsched::describe("]");
  }
  // discard-heavy cases (drawn last, so every earlier choice keeps its meaning): most entries are given up by their
  // threads, so several threads are inside AsyncFileAppender::discard() around the same time
  if (c.below(4) == 1) {
    nwritten = ndiscarded = 0;
    for (auto& e : w.entries) {
      if (e.id % 4 != 3) e.discard = true;
      if (e.discard) ndiscarded++; else nwritten++;
    }
    dsched::describe(" discard-heavy(all entries but every 4th are discarded)");
    dsched::label("discard_heavy");
  }
  // front end (drawn after everything else, so earlier choices keep their meaning): in a third of the cases every
  // other written entry of at least 6 bytes goes through an AsyncLogStream
  if (c.below(3) == 1) {
    bool any = false;
    for (auto& e : w.entries) {
      uint32_t shape = c.below(1u << 11);
      if (!e.discard && e.len >= 6 && (shape >> 10) == 0) {
        e.chunking = 4;
        e.shape = shape;
        any = true;
        if (shape & 1) dsched::label("front_end_nested_begin_end");
        if (shape & 2) dsched::label("front_end_noflush_resume");
        if (shape & 512) dsched::label("front_end_printer_reports_failure");
      }
    }
    if (any) {
      dsched::describe(" front-end(AsyncLogStream for every entry drawn so)");
      dsched::label("front_end");
    }
  }
  dsched::label(("page_" + std::to_string(ps)).c_str());

  size_t cap = 0;
  uint64_t pending_at_close = 0;
  std::atomic<int> closed{0};
  {
    std::unique_ptr<AsyncFileAppender> holder(new AsyncFileAppender());
    AsyncFileAppender& appender = *holder;
    w.appender = &appender;
    appender.set_page_allocator(alloc);
    appender.set_queue_capacity(min_cap);
    if (appender.initialize() != 0) dsched::fail("initialize", "initialize() failed");
    cap = std::bit_ceil(min_cap);  // ConcurrentBoundedQueue::reserve_and_clear rounds up the same way

    std::vector<std::thread> threads;
    for (int t = 0; t < nthreads; t++) threads.emplace_back([&, t] { logging_thread(w, t, mine[(size_t)t]); });
    for (auto& th : threads) th.join();

    if (known_close_full_queue_hang && nwritten >= cap) {
      // F7 guard: let the writer thread release the slot the stop marker will use (entries leave the queue in queue
      // order and are released batch by batch, so `nwritten - cap + 1` released entries cover that slot)
      size_t need = nwritten - cap + 1;
      dsched::label("excluded_known_close_on_occupied_slot");
      int spins = 0;
      while (alloc.released_written < need) {
        ::usleep(50);
        if (++spins > 200000) dsched::fail("drain", "the writer thread released only %zu of %zu written entries", alloc.released_written, nwritten);
      }
    }
    pending_at_close = appender.pending_size();

    // close() must come back: the writer thread's longest back-off is 100 ms
    std::thread watchdog([&] {
      for (int i = 0; i < 60; i++) {
        if (closed.load()) return;
        ::usleep(50000);
      }
      if (!closed.load())
        dsched::fail("close-returns", "close() did not return within 3 s of virtual time (queue capacity %zu, %zu entries written, %lu pending when close() was called)",
                     cap, nwritten, (unsigned long)pending_at_close);
    });
    if (close_mode != 1) {
      if (appender.close() != 0) dsched::fail("close", "close() returned non-zero");
      closed.store(1);
      if (alloc.outstanding != 0) dsched::fail("page-conservation", "%zu pages outstanding after close() (%zu handed out in total)", alloc.outstanding, alloc.total_allocs);
      if (close_mode == 2 && appender.close() != 0) dsched::fail("close", "second close() returned non-zero");
    }
    holder.reset();  // the destructor closes
    closed.store(1);
    watchdog.join();
  }
  if (alloc.outstanding != 0) dsched::fail("page-conservation", "%zu pages outstanding after the appender was closed (%zu handed out in total)", alloc.outstanding, alloc.total_allocs);
  for (auto& kv : alloc.pages)
    if (alloc.canary_of(kv.first) != CANARY) dsched::fail("page-overflow", "bytes behind page %p were overwritten", kv.first);

  // ---- files --------------------------------------------------------------------------------------
  std::map<std::pair<int, int>, int> by_key;
  for (auto& e : w.entries) by_key[{e.thread, e.seq}] = e.id;
  size_t seen = 0;
  for (auto& f : files) {
    std::string s = f->read_all();
    dsched::mix_hash(s.size());
    int last_seq[4] = {-1, -1, -1, -1};
    size_t pos = 0;
    while (pos < s.size()) {
      uint8_t b = (uint8_t)s[pos];
      int thread, seq;
      size_t len;
      if ((b & 0xC0) == 0x40) {
        thread = (b >> 4) & 3; seq = b & 15; len = 1;
      } else if ((b & 0xFC) == 0xA0) {
        if (pos + 5 > s.size()) dsched::fail("frames", "file %d: truncated frame header at offset %zu of %zu", f->index, pos, s.size());
        thread = b & 3; seq = (uint8_t)s[pos + 1];
        len = (size_t)(uint8_t)s[pos + 2] | ((size_t)(uint8_t)s[pos + 3] << 8) | ((size_t)(uint8_t)s[pos + 4] << 16);
      } else {
        dsched::fail("frames", "file %d: byte 0x%02x at offset %zu of %zu does not start a frame (entries mixed, torn or pages released early)", f->index, b, pos,
                     s.size());
      }
      auto it = by_key.find({thread, seq});
      if (it == by_key.end()) dsched::fail("frames", "file %d offset %zu: frame (thread %d, seq %d) was never written", f->index, pos, thread, seq);
      EntryPlan& e = w.entries[(size_t)it->second];
      if (len != e.len) dsched::fail("frames", "file %d offset %zu: frame (thread %d, seq %d) announces %zu bytes, written with %zu", f->index, pos, thread, seq, len, e.len);
      if (pos + len > s.size()) dsched::fail("frames", "file %d offset %zu: frame (thread %d, seq %d) of %zu bytes is cut off at %zu", f->index, pos, thread, seq, len, s.size());
      for (size_t i = 5; i < len; i++)
        if ((uint8_t)s[pos + i] != frame_byte(thread, seq, i, len, e.chunking == 4))
          dsched::fail("intact", "file %d: entry (thread %d, seq %d, %zu bytes) differs from what was streamed at byte %zu (file offset %zu): 0x%02x", f->index, thread, seq, len,
                       i, pos + i, (uint8_t)s[pos + i]);
      if (e.discard) dsched::fail("exactly-once", "file %d: discarded entry (thread %d, seq %d) reached a file", f->index, thread, seq);
      if (e.file != f->index) dsched::fail("exactly-once", "entry (thread %d, seq %d) written to file %d appears in file %d", thread, seq, e.file, f->index);
      if (e.seen) dsched::fail("exactly-once", "file %d: entry (thread %d, seq %d) appears twice", f->index, thread, seq);
      e.seen = true;
      seen++;
      if (seq <= last_seq[thread])
        dsched::fail("thread-order", "file %d: entry (thread %d, seq %d) follows seq %d of the same thread", f->index, thread, seq, last_seq[thread]);
      last_seq[thread] = seq;
      dsched::mix_hash(((uint64_t)thread << 40) | ((uint64_t)seq << 32) | pos);
      pos += len;
    }
    // rotated-out descriptors are the appender's to close (file_object.h)
    for (int fd : f->retired)
      if (fcntl(fd, F_GETFD) != -1 || errno != EBADF) {
        ::close(fd);
        dsched::fail("rotated-fd-closed", "file %d: descriptor %d was handed back as old_fd but the appender did not close it", f->index, fd);
      }
    if (f->rotations) dsched::label_n("rotations", (uint32_t)f->rotations);
  }
  for (auto& e : w.entries)
    if (!e.discard && !e.seen)
      dsched::fail("exactly-once", "entry (thread %d, seq %d, %zu bytes, file %d) was written before close() but is in no file (%zu of %zu found)", e.thread, e.seq, e.len,
                   e.file, seen, nwritten);

  // ---- labels / non-triviality -----------------------------------------------------------------------
  if (pending_at_close > 0) dsched::label("close_with_entries_pending");
  if (ndiscarded) dsched::label("has_discard");
  if (huge_used) dsched::label("batch_over_IOV_MAX");
  if (nwritten > cap) dsched::label("more_entries_than_queue_slots");
  // one round of the writer thread released pages for both destinations: check(dest0), release, check(dest1), release
  bool two_dest_round = false;
  for (size_t i = 1; i < alloc.dealloc_calls.size(); i++) {
    auto& a = alloc.dealloc_calls[i - 1];
    auto& b = alloc.dealloc_calls[i];
    if (a.tid == b.tid && b.checks == a.checks + 1 && a.last_reg == 0 && b.last_reg == 1) two_dest_round = true;
  }
  if (two_dest_round && nfiles == 2) dsched::label("two_destinations_in_one_round");
  for (auto& e : w.entries) {
    size_t n = (e.len + ps - 1) / ps;
    if (n > INLINE) dsched::label("entry_with_page_table");
    else if (n == INLINE) dsched::label("entry_inline_full");
  }
  if (nwritten >= 2 && dsched::stat_switches() >= 2) dsched::nontrivial();
}

void tune(dsched::Params& p, Chooser&) { p.max_steps = 400000; }

}  // namespace

int main(int argc, char** argv) {
  vf::Target t;
  t.name = "c20_appender";
  t.property_id = "C20";
  t.run_case = run_case;
  t.tune = tune;
  t.nontrivial_rule = "at least 2 entries written through the queue and at least 2 context switches between logging threads, writer thread and close()";
  return vf::main_driver(argc, argv, t);
}
