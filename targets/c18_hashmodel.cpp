// C18: ConcurrentTransientHashSet/Map and ConcurrentFixedSwissTable against
// std::unordered_set/map, driven by an operation sequence decoded from the
// fuzzer's bytes. Sequential (quiescent) histories only; libFuzzer + ASan.
#include <babylon/concurrent/transient_hash_table.h>

#include <algorithm>
#include <memory>
#include <string>
#include <unordered_map>
#include <unordered_set>

#include "fuzz_common.h"

namespace {

// generated hash: the per-case mode decides how keys spread over groups and 7-bit tags.
//   0: few start groups at the front of the table, few tags (collisions, full groups)
//   1: start buckets spread over the whole table (any slot can be the first occupied one)
//   2: start buckets only in the upper half of a 32/64-bucket table, few tags
//   3: libstdc++-like identity hash
//   4: every key starts probing at the LAST bucket of the table (windows wrap into the mirrored control bytes)
//   5: start buckets only in the last group of the table, many distinct tags
int g_hash_mode = 0;
struct WeakHash {
  static size_t mix(uint64_t k) {
    switch (g_hash_mode) {
      default:
      case 0: return (size_t)((((k * 7) & 3) << 7) | ((k >> 2) & 3) | ((k & 0x10) ? 0x100000 : 0));
      case 1: return (size_t)(((k * 0x9E3779B97F4A7C15ull) >> 40) << 3 | (k & 7));
      case 2: return (size_t)(((16 + (k * 5) % 16) << 7) | ((k >> 4) & 3));
      case 3: return (size_t)k * 128 + (size_t)(k % 5);
      case 4: return (size_t)((~(uint64_t)0 << 7) | (k % 101));
      case 5: return (size_t)(((~(uint64_t)0 << 11) | (((k * 3) & 15) << 7)) | (k % 113));
    }
  }
  size_t operator()(uint64_t k) const noexcept { return mix(k); }
  size_t operator()(const std::string& s) const noexcept {
    uint64_t h = 0;
    for (unsigned char c : s) h = h * 3 + c;
    return mix(h);
  }
};

struct MoveOnly {
  std::unique_ptr<uint64_t> p;
  MoveOnly() = default;
  explicit MoveOnly(uint64_t v) : p(new uint64_t(v)) {}
  MoveOnly(MoveOnly&&) = default;
  MoveOnly& operator=(MoveOnly&&) = default;
  uint64_t value() const { return p ? *p : ~0ull; }
  bool operator==(const MoveOnly& o) const { return value() == o.value(); }
};
struct MoveOnlyHash {
  size_t operator()(const MoveOnly& m) const noexcept { return WeakHash()(m.value()); }
};

const char* RULE =
    "decoded op sequence over <=3 live containers; non-trivial = a container grew past its first table (>=2 chained tables or a "
    "non-default bucket count filled) and was then iterated, copied, reserved, rehashed, cleared or swapped";

template <class C, class M, class KeyOf>
void compare(const std::string& desc, const char* what, C& c, const M& model, KeyOf key_of) {
  if (c.size() != model.size())
    vfz::fail(desc, "%s: size() == %zu, reference has %zu", what, c.size(), model.size());
  if (c.empty() != model.empty())
    vfz::fail(desc, "%s: empty() == %d, reference has %zu elements", what, (int)c.empty(), model.size());
  size_t n = 0;
  std::unordered_set<uint64_t> seen;
  for (auto it = c.begin(); it != c.end(); ++it) {
    uint64_t k = key_of(*it);
    if (!seen.insert(k).second) vfz::fail(desc, "%s: iteration visits key %llu twice", what, (unsigned long long)k);
    n++;
    if (n > model.size() + 4) break;
  }
  if (n != model.size()) vfz::fail(desc, "%s: iteration visits %zu elements, reference has %zu", what, n, model.size());
}

// ---- set<uint64_t> -------------------------------------------------------------
using Set = babylon::ConcurrentTransientHashSet<uint64_t, WeakHash>;
using Map = babylon::ConcurrentTransientHashMap<uint64_t, uint64_t, WeakHash>;
using StrSet = babylon::ConcurrentTransientHashSet<std::string, WeakHash>;
using MoSet = babylon::ConcurrentTransientHashSet<MoveOnly, MoveOnlyHash>;
using Fixed = babylon::ConcurrentFixedSwissTable<uint64_t, WeakHash>;

struct SetBox {
  std::unique_ptr<Set> c;
  std::unordered_set<uint64_t> m;
  bool grown = false;
};
struct MapBox {
  std::unique_ptr<Map> c;
  std::unordered_map<uint64_t, uint64_t> m;
  bool grown = false;
};

size_t pick_buckets(vfz::Dec& d, std::string& desc) {
  static const size_t opts[] = {0, 0, 1, 16, 17, 32, 100};
  size_t b = opts[d.below(7)];
  desc += b ? "(" + std::to_string(b) + ")" : "()";
  return b;
}

void run_sets(vfz::Dec& d, std::string& desc, bool& nontrivial) {
  SetBox box[3];
  auto fresh = [&](SetBox& b) {
    size_t n = pick_buckets(d, desc);
    b.c.reset(n ? new Set(n) : new Set());
    b.m.clear();
    b.grown = false;
  };
  desc += "set new";
  fresh(box[0]);
  int steps = 0;
  while (!d.done() && steps++ < 200) {
    SetBox& b = box[d.below(3)];
    if (!b.c) { desc += " new"; fresh(b); continue; }
    int idx = (int)(&b - box);
    uint8_t op = d.u8() % 16;
    uint64_t key = d.below(d.flip() ? 24 : 400);
    char buf[96];
    size_t first_buckets = b.c->bucket_count();
    switch (op) {
      case 0: case 1: case 2: case 3: case 4: {
        auto r = op & 1 ? b.c->emplace(key) : b.c->insert(key);
        bool exp = b.m.insert(key).second;
        snprintf(buf, sizeof buf, " %d.ins(%llu)", idx, (unsigned long long)key);
        desc += buf;
        if (r.second != exp) vfz::fail(desc, "insert(%llu) reported %d, reference %d", (unsigned long long)key, (int)r.second, (int)exp);
        if (r.first == b.c->end() || *r.first != key) vfz::fail(desc, "insert(%llu) returned a wrong iterator", (unsigned long long)key);
        break;
      }
      case 5: case 6: {
        snprintf(buf, sizeof buf, " %d.find(%llu)", idx, (unsigned long long)key);
        desc += buf;
        auto it = b.c->find(key);
        bool exp = b.m.count(key) != 0;
        if ((it != b.c->end()) != exp) vfz::fail(desc, "find(%llu) found=%d, reference %d", (unsigned long long)key, (int)(it != b.c->end()), (int)exp);
        if (exp && *it != key) vfz::fail(desc, "find(%llu) designates %llu", (unsigned long long)key, (unsigned long long)*it);
        if (b.c->contains(key) != exp || b.c->count(key) != (exp ? 1u : 0u)) vfz::fail(desc, "contains/count(%llu) disagree with the reference", (unsigned long long)key);
        break;
      }
      case 7:
        desc += " " + std::to_string(idx) + ".check";
        compare(desc, "check", *b.c, b.m, [](uint64_t v) { return v; });
        if (b.grown) nontrivial = true;
        break;
      case 8:
        desc += " " + std::to_string(idx) + ".clear";
        b.c->clear();
        b.m.clear();
        if (b.grown) nontrivial = true;
        compare(desc, "after clear", *b.c, b.m, [](uint64_t v) { return v; });
        break;
      case 9: {
        size_t n = d.below(200);
        desc += " " + std::to_string(idx) + ".reserve(" + std::to_string(n) + ")";
        b.c->reserve(n);
        if (b.grown) nontrivial = true;
        compare(desc, "after reserve", *b.c, b.m, [](uint64_t v) { return v; });
        break;
      }
      case 10: {
        size_t n = d.below(200);
        desc += " " + std::to_string(idx) + ".rehash(" + std::to_string(n) + ")";
        b.c->rehash(n);
        if (b.grown) nontrivial = true;
        compare(desc, "after rehash", *b.c, b.m, [](uint64_t v) { return v; });
        break;
      }
      case 11: {
        SetBox& o = box[d.below(3)];
        int oi = (int)(&o - box);
        desc += " " + std::to_string(oi) + "=copy(" + std::to_string(idx) + ")";
        if (&o == &b) { Set tmp(*b.c); compare(desc, "copy-construct", tmp, b.m, [](uint64_t v) { return v; }); break; }
        if (o.c && d.flip()) { *o.c = *b.c; } else { o.c.reset(new Set(*b.c)); }
        o.m = b.m;
        o.grown = b.grown;
        if (b.grown) nontrivial = true;
        compare(desc, "copy", *o.c, o.m, [](uint64_t v) { return v; });
        compare(desc, "copy source", *b.c, b.m, [](uint64_t v) { return v; });
        break;
      }
      case 12: {
        SetBox& o = box[d.below(3)];
        int oi = (int)(&o - box);
        if (&o == &b) break;
        desc += " " + std::to_string(oi) + "=move(" + std::to_string(idx) + ")";
        if (o.c && d.flip()) { *o.c = std::move(*b.c); } else { o.c.reset(new Set(std::move(*b.c))); }
        o.m = std::move(b.m);
        o.grown = b.grown;
        b.c.reset();
        b.m.clear();
        if (o.grown) nontrivial = true;
        compare(desc, "move target", *o.c, o.m, [](uint64_t v) { return v; });
        break;
      }
      case 13: {
        SetBox& o = box[d.below(3)];
        int oi = (int)(&o - box);
        if (&o == &b || !o.c) break;
        desc += " swap(" + std::to_string(idx) + "," + std::to_string(oi) + ")";
        b.c->swap(*o.c);
        std::swap(b.m, o.m);
        std::swap(b.grown, o.grown);
        if (b.grown || o.grown) nontrivial = true;
        compare(desc, "swap lhs", *b.c, b.m, [](uint64_t v) { return v; });
        compare(desc, "swap rhs", *o.c, o.m, [](uint64_t v) { return v; });
        break;
      }
      default: {
        // burst of inserts: the quickest way past the first table
        int n = 1 + (int)d.below(40);
        uint64_t base = d.below(1000);
        snprintf(buf, sizeof buf, " %d.burst(%llu,%d)", idx, (unsigned long long)base, n);
        desc += buf;
        for (int i = 0; i < n; i++) {
          auto r = b.c->emplace(base + (uint64_t)i);
          bool exp = b.m.insert(base + (uint64_t)i).second;
          if (r.second != exp) vfz::fail(desc, "burst insert(%llu) reported %d, reference %d", (unsigned long long)(base + (uint64_t)i), (int)r.second, (int)exp);
        }
        break;
      }
    }
    if (b.c && (b.c->bucket_count() > first_buckets || b.m.size() > 16)) b.grown = true;
  }
  for (auto& b : box)
    if (b.c) {
      compare(desc, "final", *b.c, b.m, [](uint64_t v) { return v; });
      for (uint64_t k = 0; k < 1040; k++)
        if (b.c->contains(k) != (b.m.count(k) != 0)) vfz::fail(desc, "final membership of %llu differs from the reference", (unsigned long long)k);
      if (b.grown) nontrivial = true;
    }
}

void run_map(vfz::Dec& d, std::string& desc, bool& nontrivial) {
  MapBox b;
  desc += "map new";
  size_t nb = pick_buckets(d, desc);
  b.c.reset(nb ? new Map(nb) : new Map());
  int steps = 0;
  auto key_of = [](const std::pair<const uint64_t, uint64_t>& p) { return p.first; };
  while (!d.done() && steps++ < 200) {
    uint8_t op = d.u8() % 10;
    uint64_t key = d.below(d.flip() ? 24 : 400), val = d.u16();
    char buf[96];
    switch (op) {
      case 0: case 1: case 2: {
        snprintf(buf, sizeof buf, " try_emplace(%llu,%llu)", (unsigned long long)key, (unsigned long long)val);
        desc += buf;
        auto r = b.c->try_emplace(key, val);
        auto e = b.m.emplace(key, val);
        if (r.second != e.second) vfz::fail(desc, "try_emplace(%llu) reported %d, reference %d", (unsigned long long)key, (int)r.second, (int)e.second);
        if (r.first->second != e.first->second) vfz::fail(desc, "try_emplace(%llu) maps to %llu, reference (first inserted) %llu", (unsigned long long)key, (unsigned long long)r.first->second, (unsigned long long)e.first->second);
        break;
      }
      case 3: {
        snprintf(buf, sizeof buf, " [%llu]", (unsigned long long)key);
        desc += buf;
        uint64_t& v = (*b.c)[key];
        uint64_t& mv = b.m[key];
        if (v != mv) vfz::fail(desc, "operator[](%llu) == %llu, reference %llu", (unsigned long long)key, (unsigned long long)v, (unsigned long long)mv);
        if (d.flip()) { v = val; mv = val; }
        break;
      }
      case 4: case 5: {
        snprintf(buf, sizeof buf, " find(%llu)", (unsigned long long)key);
        desc += buf;
        auto it = b.c->find(key);
        auto mit = b.m.find(key);
        if ((it != b.c->end()) != (mit != b.m.end())) vfz::fail(desc, "find(%llu) presence differs from the reference", (unsigned long long)key);
        if (mit != b.m.end() && it->second != mit->second) vfz::fail(desc, "find(%llu) maps to %llu, reference %llu", (unsigned long long)key, (unsigned long long)it->second, (unsigned long long)mit->second);
        break;
      }
      case 6:
        desc += " check";
        compare(desc, "map check", *b.c, b.m, key_of);
        if (b.grown) nontrivial = true;
        break;
      case 7: {
        desc += " copy";
        Map cp(*b.c);
        compare(desc, "map copy", cp, b.m, key_of);
        for (auto& kv : b.m) {
          auto it = cp.find(kv.first);
          if (it == cp.end() || it->second != kv.second) vfz::fail(desc, "copy lost or changed key %llu", (unsigned long long)kv.first);
        }
        if (b.grown) nontrivial = true;
        break;
      }
      case 8:
        if (d.below(4) == 0) { desc += " clear"; b.c->clear(); b.m.clear(); compare(desc, "map after clear", *b.c, b.m, key_of); }
        else { size_t n = d.below(150); desc += " reserve(" + std::to_string(n) + ")"; b.c->reserve(n); compare(desc, "map after reserve", *b.c, b.m, key_of); }
        if (b.grown) nontrivial = true;
        break;
      default: {
        int n = 1 + (int)d.below(40);
        uint64_t base = d.below(1000);
        snprintf(buf, sizeof buf, " burst(%llu,%d)", (unsigned long long)base, n);
        desc += buf;
        for (int i = 0; i < n; i++) {
          uint64_t k = base + (uint64_t)i;
          auto r = b.c->try_emplace(k, k * 2);
          auto e = b.m.emplace(k, k * 2);
          if (r.second != e.second) vfz::fail(desc, "burst try_emplace(%llu) reported %d, reference %d", (unsigned long long)k, (int)r.second, (int)e.second);
        }
        break;
      }
    }
    if (b.m.size() > 16) b.grown = true;
  }
  compare(desc, "map final", *b.c, b.m, key_of);
  for (auto& kv : b.m) {
    auto it = b.c->find(kv.first);
    if (it == b.c->end() || it->second != kv.second) vfz::fail(desc, "final: key %llu lost or mapped value changed", (unsigned long long)kv.first);
  }
  if (b.grown) nontrivial = true;
}

template <class C, class Make, class KeyOf>
void run_other(vfz::Dec& d, std::string& desc, bool& nontrivial, const char* name, Make make, KeyOf key_of) {
  desc += name;
  desc += " new";
  size_t nb = pick_buckets(d, desc);
  std::unique_ptr<C> c(nb ? new C(nb) : new C());
  std::unordered_set<uint64_t> m;
  int steps = 0;
  while (!d.done() && steps++ < 200) {
    uint8_t op = d.u8() % 6;
    uint64_t key = d.below(d.flip() ? 24 : 300);
    char buf[64];
    if (op <= 2) {
      snprintf(buf, sizeof buf, " ins(%llu)", (unsigned long long)key);
      desc += buf;
      auto r = c->emplace(make(key));
      bool exp = m.insert(key).second;
      if (r.second != exp) vfz::fail(desc, "insert(%llu) reported %d, reference %d", (unsigned long long)key, (int)r.second, (int)exp);
    } else if (op == 3) {
      snprintf(buf, sizeof buf, " find(%llu)", (unsigned long long)key);
      desc += buf;
      bool got = c->find(make(key)) != c->end();
      if (got != (m.count(key) != 0)) vfz::fail(desc, "find(%llu) == %d differs from the reference", (unsigned long long)key, (int)got);
    } else if (op == 4) {
      desc += " check";
      compare(desc, name, *c, m, key_of);
      if (m.size() > 16) nontrivial = true;
    } else {
      if (d.below(3) == 0) { desc += " clear"; c->clear(); m.clear(); }
      else { size_t n = d.below(100); desc += " reserve(" + std::to_string(n) + ")"; c->reserve(n); }
      compare(desc, name, *c, m, key_of);
      if (m.size() > 16) nontrivial = true;
    }
  }
  compare(desc, name, *c, m, key_of);
}

void run_fixed(vfz::Dec& d, std::string& desc, bool& nontrivial) {
  desc += "fixed new";
  size_t nb = pick_buckets(d, desc);
  std::unique_ptr<Fixed> c(nb ? new Fixed(nb) : new Fixed());
  std::unordered_set<uint64_t> m;
  // documented: a default-constructed fixed table is "both empty and full" (capacity 0)
  // until reserve()/rehash() gives it storage
  bool placeholder = nb == 0;
  int steps = 0;
  while (!d.done() && steps++ < 200) {
    uint8_t op = d.u8() % 6;
    uint64_t key = d.below(d.flip() ? 24 : 300);
    char buf[64];
    if (op <= 2) {
      snprintf(buf, sizeof buf, " ins(%llu)", (unsigned long long)key);
      desc += buf;
      auto r = c->emplace(key);
      bool present = m.count(key) != 0;
      if (r.first == c->end()) {
        // insertion into a fixed table may fail only when it is full
        if (present) vfz::fail(desc, "emplace(%llu) returned end() although the key is present", (unsigned long long)key);
        if (!placeholder && m.size() < c->bucket_count()) vfz::fail(desc, "emplace(%llu) failed with %zu of %zu buckets used", (unsigned long long)key, m.size(), c->bucket_count());
        if (r.second) vfz::fail(desc, "emplace returned end() and inserted==true");
        vfz::label("fixed_full");
        nontrivial = true;
      } else {
        if (r.second == present) vfz::fail(desc, "emplace(%llu) reported inserted=%d, reference had it=%d", (unsigned long long)key, (int)r.second, (int)present);
        if (*r.first != key) vfz::fail(desc, "emplace(%llu) iterator designates %llu", (unsigned long long)key, (unsigned long long)*r.first);
        m.insert(key);
      }
    } else if (op == 3) {
      snprintf(buf, sizeof buf, " find(%llu)", (unsigned long long)key);
      desc += buf;
      bool got = c->find(key) != c->end();
      if (got != (m.count(key) != 0)) vfz::fail(desc, "find(%llu) == %d differs from the reference", (unsigned long long)key, (int)got);
    } else if (op == 4) {
      desc += " check";
      compare(desc, "fixed", *c, m, [](uint64_t v) { return v; });
    } else {
      uint8_t w = d.below(4);
      if (w == 0) { desc += " clear"; c->clear(); m.clear(); }
      else if (w == 1) { size_t n = d.below(100); desc += " reserve(" + std::to_string(n) + ")"; c->reserve(n); placeholder = false; }
      else if (w == 2) { size_t n = d.below(100); desc += " rehash(" + std::to_string(n) + ")"; if (n >= m.size()) { c->rehash(n); placeholder = false; } }
      else { desc += " copy"; Fixed cp(*c); compare(desc, "fixed copy", cp, m, [](uint64_t v) { return v; }); }
      compare(desc, "fixed", *c, m, [](uint64_t v) { return v; });
      if (m.size() > 8) nontrivial = true;
    }
  }
  compare(desc, "fixed final", *c, m, [](uint64_t v) { return v; });
}

}  // namespace

extern "C" int LLVMFuzzerTestOneInput(const uint8_t* data, size_t size) {
  vfz::begin_case(RULE);
  if (size < 2) return 0;
  vfz::Dec d(data, size);
  std::string desc;
  bool nontrivial = false;
  uint8_t head = d.u8();
  g_hash_mode = (head >> 4) % 6;
  static const char* hm[] = {"hash=clustered ", "hash=spread ", "hash=upper-half ", "hash=identity ", "hash=last-bucket ", "hash=last-group "};
  desc += hm[g_hash_mode];
  vfz::label(hm[g_hash_mode]);
  switch ((head & 15) % 6) {
    case 0: case 1: vfz::label("kind_set"); run_sets(d, desc, nontrivial); break;
    case 2: vfz::label("kind_map"); run_map(d, desc, nontrivial); break;
    case 3:
      vfz::label("kind_string_set");
      run_other<StrSet>(d, desc, nontrivial, "strset", [](uint64_t k) { return "key-" + std::to_string(k); },
                        [](const std::string& s) { return (uint64_t)strtoull(s.c_str() + 4, nullptr, 10); });
      break;
    case 4:
      vfz::label("kind_moveonly_set");
      run_other<MoSet>(d, desc, nontrivial, "moset", [](uint64_t k) { return MoveOnly(k); }, [](const MoveOnly& m) { return m.value(); });
      break;
    default: vfz::label("kind_fixed"); run_fixed(d, desc, nontrivial); break;
  }
  if (nontrivial) vfz::nontrivial(vfz::hash_bytes(data, size), desc.substr(0, 600));
  return 0;
}
