// C17: page allocators (Cached / Batch / Counting / PageHeap) and ObjectPool under the schedule fuzzer.
//
// Pages: a recording root allocator hands out pages of a private arena that are never reused inside a
// case, so a double free, a foreign free, a page that is handed out although it went back upstream, or
// a page that lives in two places at once is visible in the harness registry instead of being silent
// heap corruption. A pass-through "tap" above the CachedPageAllocator separates cached pages from pages
// that are prefetched by the BatchPageAllocator. Callers tag the page memory while they hold it.
//
// ObjectPool: objects live in a per-case arena (class operator new/delete), every construction,
// destruction, recycle call and hand-out is recorded in a registry.
#include "known.h"
#include <babylon/concurrent/object_pool.h>
#include <babylon/reusable/page_allocator.h>

#include <stdio.h>
#include <stdlib.h>
#include <string.h>

#include <list>
#include <map>
#include <memory>
#include <mutex>
#include <optional>
#include <thread>
#include <vector>

#include "../engine/common/driver.h"

using dsched::Tracked;
using vf::Chooser;

namespace {

// KNOWN DEFECT GUARD (remove once fixed): ObjectPool<T>::Deleter::operator=(Deleter&&) in
// concurrent/object_pool.hpp has no `return *this;` (flows off the end of a non-void function: undefined
// behaviour; clang -O1 falls through into unrelated code, objects get destroyed twice). While this is true
// the generator never move-ASSIGNS a pool handle (it move-constructs them and keeps them in std::list).
// lifted when VF_ALLOW_KNOWN names "c17deleter" (the header is fixed in /repo: see known_findings.json)
const bool known_deleter_move_assign_ub_v = true;
#define known_deleter_move_assign_ub (!vf_allow_known("c17deleter"))

constexpr size_t PAGE = 64;
constexpr int MAXPAGES = 1024;

// ---------------------------------------------------------------------------------------------
// shared per-case bookkeeping (plain data: only the thread holding the baton touches it)
struct PageInfo {
  bool root_live = false;  // handed out by the root allocator and not yet returned to it
  bool tap_out = false;    // currently above the cache (prefetched by the batch layer or held by a caller)
  int holder = 0;          // caller (1-based harness thread) holding the page, 0 = nobody
  uint64_t tag = 0;        // what the holder wrote into the page
  bool written = false;
  Tracked<uint64_t> payload;  // happens-before check between successive holders
};

struct ObjInfo {
  bool destroyed = false;
  int holder = 0;
  int pushes = 0;    // times the harness gave the object (back) to the pool
  int recycles = 0;  // times the recycler ran on it
  bool written = false;
  uint64_t tag = 0;
  Tracked<uint64_t> payload;
};

struct World {
  // pages
  char* arena = nullptr;
  int next_page = 0;
  std::vector<PageInfo> info;
  long root_outstanding = 0, tap_outstanding = 0;
  long root_alloc_calls = 0, root_free_calls = 0;
  long tap_alloc_calls = 0;
  size_t batch = 0;  // 0 = no batch layer
  bool tap_bad_batch = false;
  size_t tap_bad_batch_num = 0;
  // PageHeap mode (real heap below): registry keyed by address, entries only while held
  std::map<void*, std::pair<int, uint64_t>> heap_held;
  // operation overlap
  int inflight = 0;
  bool overlapped = false;
  bool upstream_while_overlapped = false;
  bool heap_mode = false;  // PageHeap: the upstream is the real heap and cannot be observed
  uint64_t tagseq = 1;
  // cross-thread hand-over of held pages
  std::mutex bag_mu;
  std::vector<void*> bag;
  // objects
  std::vector<void*> obj_mem;
  std::vector<ObjInfo> objs;
  long created = 0, destroyed = 0;
  bool pool_event = false;  // a pop slept / an overflow destroyed an object / creator ran under overlap
  ~World() {
    free(arena);
    for (void* p : obj_mem) free(p);
  }
};
World* W;

struct OpScope {
  OpScope() {
    if (W->inflight > 0) W->overlapped = true;
    W->inflight++;
  }
  ~OpScope() { W->inflight--; }
};

int page_index(void* p) {
  if (!W->arena) return -1;
  char* c = (char*)p;
  if (c < W->arena || c >= W->arena + (size_t)MAXPAGES * PAGE) return -1;
  if ((size_t)(c - W->arena) % PAGE) return -1;
  int i = (int)((size_t)(c - W->arena) / PAGE);
  return i < W->next_page ? i : -1;
}

// ---------------------------------------------------------------------------------------------
// recording root allocator: pages are never reused inside a case
struct RootAllocator : public babylon::PageAllocator {
  size_t page_size() const noexcept override { return PAGE; }
  using PageAllocator::allocate;
  using PageAllocator::deallocate;
  void allocate(void** pages, size_t num) noexcept override {
    W->root_alloc_calls++;
    if (W->inflight > 1) W->upstream_while_overlapped = true;
    for (size_t i = 0; i < num; i++) {
      if (W->next_page >= MAXPAGES) dsched::discard("page arena exhausted");
      int idx = W->next_page++;
      pages[i] = W->arena + (size_t)idx * PAGE;
      memset(pages[i], 0xA5, PAGE);
      W->info[(size_t)idx].root_live = true;
      W->root_outstanding++;
      if (i + 1 < num) dsched::point();
    }
  }
  void deallocate(void** pages, size_t num) noexcept override {
    W->root_free_calls++;
    if (W->inflight > 1) W->upstream_while_overlapped = true;
    for (size_t i = 0; i < num; i++) {
      int idx = page_index(pages[i]);
      if (idx < 0) dsched::fail("foreign-free", "upstream deallocate(%p): not a page this upstream ever handed out", pages[i]);
      PageInfo& pi = W->info[(size_t)idx];
      if (!pi.root_live) dsched::fail("double-free", "page #%d returned upstream twice", idx);
      if (pi.holder) dsched::fail("freed-while-held", "page #%d returned upstream while caller T%d holds it", idx, pi.holder);
      if (pi.tap_out) dsched::fail("freed-while-held", "page #%d returned upstream while it is handed out above the cache", idx);
      pi.root_live = false;
      W->root_outstanding--;
      memset(pages[i], 0xDD, PAGE);
      if (i + 1 < num) dsched::point();
    }
  }
};

// pass-through layer directly above the cache
struct TapAllocator : public babylon::PageAllocator {
  babylon::PageAllocator* up = nullptr;
  size_t page_size() const noexcept override { return up->page_size(); }
  using PageAllocator::allocate;
  using PageAllocator::deallocate;
  void allocate(void** pages, size_t num) noexcept override {
    W->tap_alloc_calls++;
    if (W->batch && num != W->batch) { W->tap_bad_batch = true; W->tap_bad_batch_num = num; }
    for (size_t i = 0; i < num; i++) pages[i] = nullptr;
    up->allocate(pages, num);
    for (size_t i = 0; i < num; i++) {
      if (pages[i] == nullptr) dsched::fail("null-page", "cache allocate(%zu) left slot %zu empty", num, i);
      int idx = page_index(pages[i]);
      if (idx < 0) dsched::fail("foreign-page", "cache handed out %p which the upstream never produced", pages[i]);
      PageInfo& pi = W->info[(size_t)idx];
      if (!pi.root_live) dsched::fail("stale-page", "cache handed out page #%d which was already returned upstream", idx);
      if (pi.tap_out) dsched::fail("page-duplicated", "cache handed out page #%d which is already handed out (holder T%d)", idx, pi.holder);
      pi.tap_out = true;
      W->tap_outstanding++;
    }
  }
  void deallocate(void** pages, size_t num) noexcept override {
    for (size_t i = 0; i < num; i++) {
      int idx = page_index(pages[i]);
      if (idx < 0) dsched::fail("foreign-free", "deallocate(%p) reached the cache: not a page of this allocator", pages[i]);
      PageInfo& pi = W->info[(size_t)idx];
      if (!pi.tap_out) dsched::fail("double-free", "page #%d given back to the cache twice", idx);
      if (pi.holder) dsched::fail("freed-while-held", "page #%d given back to the cache while caller T%d holds it", idx, pi.holder);
      pi.tap_out = false;
      W->tap_outstanding--;
    }
    up->deallocate(pages, num);
  }
};

// ---------------------------------------------------------------------------------------------
enum StackKind { K_CACHED = 0, K_BATCH, K_COUNTING, K_BATCH_COUNTING, K_HEAP, K_NKINDS };
const char* kind_name[] = {"cached", "cached<-batch", "cached<-counting", "cached<-batch<-counting", "pageheap"};

struct Stack {
  StackKind kind;
  RootAllocator root;
  std::optional<babylon::CachedPageAllocator> cached;
  TapAllocator tap;
  std::optional<babylon::BatchPageAllocator> batch;
  std::optional<babylon::CountingPageAllocator> counting;
  std::optional<babylon::PageHeap> heap;
  babylon::PageAllocator* top = nullptr;
};

void caller_acquire(Stack& st, void* p, int me) {
  if (p == nullptr) dsched::fail("null-page", "allocate returned a null page to T%d", me);
  uint64_t tag = ((uint64_t)me << 40) | W->tagseq++;
  if (st.kind == K_HEAP) {
    if ((uintptr_t)p % PAGE) dsched::fail("foreign-page", "PageHeap returned misaligned page %p", p);
    auto it = W->heap_held.find(p);
    if (it != W->heap_held.end())
      dsched::fail("page-duplicated", "page %p handed to T%d while T%d still holds it", p, me, it->second.first);
    W->heap_held[p] = {me, tag};
  } else {
    int idx = page_index(p);
    if (idx < 0) dsched::fail("foreign-page", "allocate returned %p to T%d which the upstream never produced", p, me);
    PageInfo& pi = W->info[(size_t)idx];
    if (!pi.root_live) dsched::fail("stale-page", "page #%d handed to T%d after it was returned upstream", idx, me);
    if (pi.holder) dsched::fail("page-duplicated", "page #%d handed to T%d while T%d still holds it", idx, me, pi.holder);
    if (!pi.tap_out) dsched::fail("page-duplicated", "page #%d handed to T%d while the cache still owns it", idx, me);
    pi.holder = me;
    pi.tag = tag;
    if (pi.written) (void)pi.payload.get("page content of the previous holder");
  }
  ((uint64_t*)p)[0] = tag;
  ((uint64_t*)p)[7] = ~tag;
}

// the holder lets go of the page (before deallocate, or when handing it to another thread)
void caller_release(Stack& st, void* p, int me, bool handover) {
  uint64_t tag;
  if (st.kind == K_HEAP) {
    auto it = W->heap_held.find(p);
    if (it == W->heap_held.end() || it->second.first != me) dsched::fail("harness", "T%d releases %p it does not hold", me, p);
    tag = it->second.second;
    if (!handover) W->heap_held.erase(it);
  } else {
    PageInfo& pi = W->info[(size_t)page_index(p)];
    if (pi.holder != me) dsched::fail("harness", "T%d releases a page held by T%d", me, pi.holder);
    tag = pi.tag;
    if (!handover) {
      pi.payload.set(tag, "page content");
      pi.written = true;
      pi.holder = 0;
    }
  }
  if (((uint64_t*)p)[0] != tag || ((uint64_t*)p)[7] != ~tag)
    dsched::fail("page-shared", "page %p held by T%d was overwritten while held (%lx/%lx, expected %lx)", p, me,
                 (unsigned long)((uint64_t*)p)[0], (unsigned long)~((uint64_t*)p)[7], (unsigned long)tag);
  if (!handover) memset(p, 0xEE, PAGE);
}
void caller_adopt(Stack& st, void* p, int me) {  // take over a page another thread stashed
  if (st.kind == K_HEAP) W->heap_held[p].first = me;
  else W->info[(size_t)page_index(p)].holder = me;
}

enum PageOpKind { P_ALLOC_N, P_FREE_N, P_ALLOC_1, P_FREE_1, P_STASH, P_UNSTASH };
const char* page_op_name[] = {"alloc", "free", "alloc1", "free1", "stash", "unstash"};
struct PageOp { PageOpKind kind; int n; };
struct PagePlan { std::vector<PageOp> ops; bool free_all; };

void run_page_thread(Stack& st, int me, const PagePlan& plan, std::vector<void*>& held) {
  for (const PageOp& op : plan.ops) {
    switch (op.kind) {
      case P_ALLOC_N: {
        if (held.size() + (size_t)op.n > 14) break;
        void* pages[8] = {};
        {
          OpScope s;
          st.top->allocate(pages, (size_t)op.n);
        }
        for (int i = 0; i < op.n; i++) { caller_acquire(st, pages[i], me); held.push_back(pages[i]); }
        dsched::label("alloc_n");
        break;
      }
      case P_ALLOC_1: {
        if (held.size() + 1 > 14) break;
        void* p;
        {
          OpScope s;
          p = st.top->allocate();
        }
        caller_acquire(st, p, me);
        held.push_back(p);
        dsched::label("alloc_1");
        break;
      }
      case P_FREE_N: {
        size_t n = std::min<size_t>((size_t)op.n, held.size());
        if (!n) break;
        void* pages[8];
        for (size_t i = 0; i < n; i++) { pages[i] = held[held.size() - n + i]; caller_release(st, pages[i], me, false); }
        held.resize(held.size() - n);
        {
          OpScope s;
          st.top->deallocate(pages, n);
        }
        dsched::label("free_n");
        break;
      }
      case P_FREE_1: {
        if (held.empty()) break;
        void* p = held.front();
        held.erase(held.begin());
        caller_release(st, p, me, false);
        {
          OpScope s;
          st.top->deallocate(p);
        }
        dsched::label("free_1");
        break;
      }
      case P_STASH: {
        size_t n = std::min<size_t>((size_t)op.n, held.size());
        if (!n) break;
        std::lock_guard<std::mutex> g(W->bag_mu);
        for (size_t i = 0; i < n; i++) {
          void* p = held.back();
          held.pop_back();
          caller_release(st, p, me, true);
          W->bag.push_back(p);
        }
        break;
      }
      case P_UNSTASH: {
        std::lock_guard<std::mutex> g(W->bag_mu);
        for (int i = 0; i < op.n && !W->bag.empty() && held.size() < 14; i++) {
          void* p = W->bag.back();
          W->bag.pop_back();
          caller_adopt(st, p, me);
          held.push_back(p);
          dsched::label("page_changed_thread");
        }
        break;
      }
    }
  }
  if (plan.free_all) {
    while (!held.empty()) {
      size_t n = std::min<size_t>(held.size(), 6);
      void* pages[8];
      for (size_t i = 0; i < n; i++) { pages[i] = held[held.size() - n + i]; caller_release(st, pages[i], me, false); }
      held.resize(held.size() - n);
      OpScope s;
      st.top->deallocate(pages, n);
    }
  }
}

void pages_quiescent_check(Stack& st, size_t held, int batch_threads, const char* when) {
  if (st.kind == K_HEAP) {
    if (W->heap_held.size() != held) dsched::fail("harness", "held bookkeeping out of sync");
    if (st.heap->allocate_page_num() != held)
      dsched::fail("conservation", "%s: PageHeap::allocate_page_num()=%zu but callers hold %zu pages", when, st.heap->allocate_page_num(), held);
    if (st.heap->free_page_num() > st.heap->free_page_capacity())
      dsched::fail("conservation", "%s: PageHeap caches %zu pages, capacity %zu", when, st.heap->free_page_num(), st.heap->free_page_capacity());
    return;
  }
  long cached_n = 0, out_n = 0, held_n = 0;
  for (int i = 0; i < W->next_page; i++) {
    const PageInfo& pi = W->info[(size_t)i];
    if (pi.root_live && !pi.tap_out) cached_n++;
    if (pi.tap_out) out_n++;
    if (pi.holder) held_n++;
  }
  if ((size_t)held_n != held) dsched::fail("harness", "held bookkeeping out of sync (%ld vs %zu)", held_n, held);
  size_t fpn = st.cached->free_page_num();
  if (W->root_outstanding != W->tap_outstanding + (long)fpn)
    dsched::fail("conservation", "%s: upstream outstanding %ld != pages above the cache %ld + free_page_num() %zu", when,
                 W->root_outstanding, W->tap_outstanding, fpn);
  if (cached_n != (long)fpn) dsched::fail("conservation", "%s: %ld pages are inside the cache, free_page_num()=%zu", when, cached_n, fpn);
  if (fpn > st.cached->free_page_capacity())
    dsched::fail("conservation", "%s: cache holds %zu pages, capacity %zu", when, fpn, st.cached->free_page_capacity());
  long prefetched = W->tap_outstanding - (long)held;
  if (!st.batch) {
    if (prefetched != 0) dsched::fail("conservation", "%s: %ld pages left the cache but callers hold %zu", when, W->tap_outstanding, held);
  } else {
    long bound = (long)batch_threads * ((long)W->batch - 1);
    if (prefetched < 0 || prefetched > bound)
      dsched::fail("conservation", "%s: prefetched=%ld outside [0, %d threads x (batch %zu - 1)]", when, prefetched, batch_threads, W->batch);
    if (W->tap_bad_batch)
      dsched::fail("batch-size", "BatchPageAllocator asked its upstream for %zu pages, batch size is %zu", W->tap_bad_batch_num, W->batch);
  }
  if (st.counting && st.counting->allocated_page_num() != held)
    dsched::fail("conservation", "%s: CountingPageAllocator::allocated_page_num()=%zu but callers hold %zu", when,
                 st.counting->allocated_page_num(), held);
}

void run_pages(Chooser& c) {
  Stack st;
  st.kind = (StackKind)c.below(K_NKINDS);
  int cap_req = c.range(1, 4);
  size_t batch = (st.kind == K_BATCH || st.kind == K_BATCH_COUNTING) ? (size_t)c.range(1, 4) : 0;
  int nthreads = c.range(2, 4);
  int nthreads2 = c.range(0, 2);
  bool hold_over_destruction = c.flip();

  W->batch = batch;
  if (st.kind == K_HEAP) {
    W->heap_mode = true;
    st.heap.emplace();
    st.heap->set_page_size(PAGE);
    st.heap->set_free_page_capacity((size_t)cap_req);
    st.top = &*st.heap;
  } else {
    W->arena = (char*)aligned_alloc(PAGE, (size_t)MAXPAGES * PAGE);
    W->info.resize(MAXPAGES);
    st.cached.emplace();
    st.cached->set_upstream(st.root);
    st.cached->set_free_page_capacity((size_t)cap_req);
    st.tap.up = &*st.cached;
    st.top = &st.tap;
    if (batch) {
      st.batch.emplace();
      st.batch->set_upstream(*st.top);
      st.batch->set_batch_size(batch);
      st.top = &*st.batch;
    }
    if (st.kind == K_COUNTING || st.kind == K_BATCH_COUNTING) {
      st.counting.emplace();
      st.counting->set_upstream(*st.top);
      st.top = &*st.counting;
    }
    size_t want = 1;
    while (want < (size_t)cap_req) want <<= 1;
    if (st.cached->free_page_capacity() != want)
      dsched::fail("capacity", "free_page_capacity()=%zu after set_free_page_capacity(%d)", st.cached->free_page_capacity(), cap_req);
    if (st.top->page_size() != PAGE) dsched::fail("page-size", "page_size()=%zu through the stack, upstream says %zu", st.top->page_size(), PAGE);
  }
  dsched::describe("pages stack=%s cap=%d batch=%zu hold_over_dtor=%d;", kind_name[st.kind], cap_req, batch, (int)hold_over_destruction);
  dsched::label(kind_name[st.kind]);

  std::vector<PagePlan> plans;
  for (int t = 0; t < nthreads + nthreads2; t++) {
    PagePlan p;
    int nops = c.range(1, 6);
    p.free_all = c.flip();
    dsched::describe(" %sT%d[", t < nthreads ? "" : "late", t + 1);
    for (int i = 0; i < nops; i++) {
      static const PageOpKind kinds[] = {P_ALLOC_N, P_FREE_N, P_ALLOC_N, P_FREE_N, P_ALLOC_1, P_FREE_1, P_ALLOC_N, P_FREE_N, P_STASH, P_UNSTASH};
      PageOp op{c.pick(kinds), c.range(1, 6)};
      p.ops.push_back(op);
      dsched::describe("%s%s(%d)", i ? "," : "", page_op_name[op.kind], op.n);
    }
    dsched::describe("]%s", p.free_all ? "F" : "");
    plans.push_back(p);
  }

  std::vector<std::vector<void*>> held((size_t)(nthreads + nthreads2));
  auto count_held = [&] {
    size_t n = W->bag.size();
    for (auto& h : held) n += h.size();
    return n;
  };
  auto run_phase = [&](int from, int to) {
    std::vector<std::thread> ths;
    for (int t = from; t < to; t++)
      ths.emplace_back([&, t] { run_page_thread(st, t + 1, plans[(size_t)t], held[(size_t)t]); });
    for (auto& th : ths) th.join();
  };
  run_phase(0, nthreads);
  pages_quiescent_check(st, count_held(), nthreads, "after phase 1");
  if (nthreads2) {
    run_phase(nthreads, nthreads + nthreads2);
    pages_quiescent_check(st, count_held(), nthreads + nthreads2, "after phase 2");
    dsched::label("second_phase");
  }

  // everything still held (thread leftovers + bag) now belongs to the main thread (id 99)
  std::vector<void*> mine;
  for (auto& h : held) for (void* p : h) mine.push_back(p);
  for (void* p : W->bag) mine.push_back(p);
  W->bag.clear();
  for (void* p : mine) caller_adopt(st, p, 99);
  if (!hold_over_destruction || st.kind == K_HEAP) {
    // give everything back through the stack, sequentially
    while (!mine.empty()) {
      size_t n = std::min<size_t>(mine.size(), 5);
      void* pages[8];
      for (size_t i = 0; i < n; i++) { pages[i] = mine[mine.size() - n + i]; caller_release(st, pages[i], 99, false); }
      mine.resize(mine.size() - n);
      st.top->deallocate(pages, n);
    }
    pages_quiescent_check(st, 0, nthreads + nthreads2, "after final release");
  } else if (!mine.empty()) {
    dsched::label("pages_held_over_destruction");
  }

  if (st.kind == K_HEAP) {
    st.heap.reset();
  } else {
    // destroy top-down; the caches must go back upstream
    st.counting.reset();
    if (st.batch) {
      st.batch.reset();
      if (W->tap_outstanding != (long)mine.size())
        dsched::fail("destructor", "after ~BatchPageAllocator %ld pages are still above the cache, callers hold %zu", W->tap_outstanding, mine.size());
    }
    st.cached.reset();
    if (W->root_outstanding != (long)mine.size())
      dsched::fail("destructor", "after destroying the allocators the upstream has %ld pages outstanding, callers hold %zu",
                   W->root_outstanding, mine.size());
    for (void* p : mine) {
      caller_release(st, p, 99, false);
      PageInfo& pi = W->info[(size_t)page_index(p)];
      if (!pi.root_live) dsched::fail("stale-page", "held page #%d was returned upstream by a destructor", page_index(p));
      pi.tap_out = false;
      st.root.deallocate(p);
    }
    if (W->root_outstanding != 0) dsched::fail("destructor", "%ld pages leaked", W->root_outstanding);
  }
  dsched::mix_hash((uint64_t)W->root_alloc_calls * 1315423911u + (uint64_t)W->root_free_calls);
  dsched::mix_hash((uint64_t)W->next_page);
  if (W->upstream_while_overlapped) dsched::label("upstream_traffic_under_overlap");
}

// ---------------------------------------------------------------------------------------------
// ObjectPool
struct Obj {
  int id;
  uint64_t word[4];
  explicit Obj(int i) : id(i) { word[0] = word[3] = 0; }
  ~Obj() {
    ObjInfo& o = W->objs[(size_t)id];
    if (o.destroyed) dsched::fail("double-destroy", "object #%d destroyed twice", id);
    if (o.holder) dsched::fail("destroyed-while-held", "object #%d destroyed while T%d holds it", id, o.holder);
    o.destroyed = true;
    W->destroyed++;
  }
  static void* operator new(size_t n) {
    void* p = malloc(n);
    W->obj_mem.push_back(p);
    return p;
  }
  static void operator delete(void*) {}  // memory stays readable until the case ends
};
using Pool = babylon::ObjectPool<Obj>;
using Handle = std::unique_ptr<Obj, Pool::Deleter>;

Obj* make_obj() {
  int id = (int)W->objs.size();
  W->objs.emplace_back();
  W->created++;
  return new Obj(id);
}

struct PoolCfg {
  bool automatic;
  int capacity;
  bool recycler;
};

void obj_acquire(const PoolCfg& cfg, Obj* obj, int me, const char* how) {
  if ((size_t)obj->id >= W->objs.size()) dsched::fail("foreign-object", "%s returned garbage", how);
  ObjInfo& o = W->objs[(size_t)obj->id];
  if (o.destroyed) dsched::fail("destroyed-object", "%s handed out object #%d which is already destroyed", how, obj->id);
  if (o.holder) dsched::fail("object-duplicated", "%s handed object #%d to T%d while T%d holds it", how, obj->id, me, o.holder);
  if (cfg.recycler && o.recycles != o.pushes)
    dsched::fail("recycler", "object #%d came out of the pool after %d returns but %d recycler calls", obj->id, o.pushes, o.recycles);
  o.holder = me;
  if (o.written) (void)o.payload.get("object state left by the previous holder");
  o.tag = ((uint64_t)me << 40) | W->tagseq++;
  obj->word[0] = o.tag;
  obj->word[3] = ~o.tag;
}
void obj_release(Obj* obj, int me) {
  ObjInfo& o = W->objs[(size_t)obj->id];
  if (o.holder != me) dsched::fail("harness", "T%d releases object #%d held by T%d", me, obj->id, o.holder);
  if (obj->word[0] != o.tag || obj->word[3] != ~o.tag) dsched::fail("object-shared", "object #%d was overwritten while T%d held it", obj->id, me);
  o.payload.set(o.tag, "object state");
  o.written = true;
  o.holder = 0;
  o.pushes++;
}

enum PoolOpKind { Q_POP, Q_TRY_POP, Q_RELEASE, Q_PUSH_BACK, Q_PUSH_NEW, Q_PAUSE };
const char* pool_op_name[] = {"pop", "try_pop", "release", "push_back", "push_new", "pause"};
struct PoolPlan { std::vector<PoolOpKind> ops; };

void run_pool_thread(Pool& pool, const PoolCfg& cfg, int me, const PoolPlan& plan, bool assign_handles) {
  std::list<Handle> held;  // list: no move-assignment of handles (see known_deleter_move_assign_ub)
  auto give_back = [&](bool explicit_push) {
    Handle h = std::move(held.front());
    held.pop_front();
    obj_release(h.get(), me);
    long d0 = W->destroyed;
    OpScope s;
    if (explicit_push) pool.push(std::move(h));
    h.reset();
    if (W->destroyed != d0) { dsched::label("overflow_destroyed"); W->pool_event = true; }
  };
  for (PoolOpKind k : plan.ops) {
    switch (k) {
      case Q_POP: {
        // strict mode: block only while holding nothing (otherwise a deadlock would be by design)
        if (!cfg.automatic && !held.empty()) break;
        if (held.size() >= 3) break;
        uint32_t sl0 = dsched::stat_futex_sleeps();
        long c0 = W->created;
        W->inflight++;
        if (W->inflight > 1) W->overlapped = true;
        Handle h = pool.pop();
        if (assign_handles) {  // unique_ptr move assignment (moves the deleter)
          Handle h2;
          h2 = std::move(h);
          h = std::move(h2);
          dsched::label("handle_move_assigned");
        }
        W->inflight--;
        if (!h) dsched::fail("pop-null", "pop() returned an empty pointer (%s mode)", cfg.automatic ? "auto-create" : "strict");
        obj_acquire(cfg, h.get(), me, "pop()");
        held.push_back(std::move(h));
        if (dsched::stat_futex_sleeps() != sl0) { dsched::label("pop_slept"); W->pool_event = true; }
        if (W->created != c0) dsched::label("pop_created");
        else dsched::label("pop_reused");
        break;
      }
      case Q_TRY_POP: {
        if (held.size() >= 3) break;
        W->inflight++;
        if (W->inflight > 1) W->overlapped = true;
        Handle h = pool.try_pop();
        W->inflight--;
        if (h) {
          obj_acquire(cfg, h.get(), me, "try_pop()");
          held.push_back(std::move(h));
          dsched::label("try_pop_ok");
        } else {
          dsched::label("try_pop_empty");
        }
        break;
      }
      case Q_RELEASE:
        if (!held.empty()) give_back(false);
        break;
      case Q_PUSH_BACK:
        if (!held.empty()) give_back(true);
        break;
      case Q_PUSH_NEW: {
        if (!cfg.automatic) break;  // strict mode: injections beyond the capacity may block by contract
        std::unique_ptr<Obj> u(make_obj());
        W->objs[(size_t)u->id].pushes++;
        OpScope s;
        pool.push(std::move(u));
        dsched::label("push_external");
        break;  // if the pool declined it (overflow) `u` destroys it here
      }
      case Q_PAUSE:
        dsched::yield_point();
        break;
    }
  }
  while (!held.empty()) give_back(false);
}

void pool_quiescent_check(Pool& pool, const char* when) {
  long alive = 0;
  for (auto& o : W->objs) {
    if (o.holder) dsched::fail("harness", "object still held at a quiescent point");
    if (!o.destroyed) alive++;
  }
  if (W->created != W->destroyed + alive) dsched::fail("harness", "registry out of sync");
  if ((long)pool.free_object_number() != alive)
    dsched::fail("conservation", "%s: created=%ld destroyed=%ld held=0 but free_object_number()=%zu", when, W->created, W->destroyed,
                 pool.free_object_number());
}

void run_pool(Chooser& c, bool automatic) {
  PoolCfg cfg;
  cfg.automatic = automatic;
  cfg.capacity = c.range(1, 3);
  cfg.recycler = !c.chance(1, 4);
  int nthreads = c.range(2, 4);
  int injected = automatic ? 0 : c.range(0, cfg.capacity);
  int late = automatic ? 0 : c.range(injected == 0 ? 1 : 0, cfg.capacity - injected);
  W->objs.reserve(256);

  {
    Pool pool;
    pool.reserve_and_clear((size_t)cfg.capacity);
    if (cfg.recycler)
      pool.set_recycler([&](Obj& obj) {
        ObjInfo& o = W->objs[(size_t)obj.id];
        if (o.destroyed) dsched::fail("recycler", "recycler ran on destroyed object #%d", obj.id);
        if (o.holder) dsched::fail("recycler", "recycler ran on object #%d while T%d holds it", obj.id, o.holder);
        o.recycles++;
        if (o.recycles != o.pushes) dsched::fail("recycler", "recycler ran %d times on object #%d after %d returns", o.recycles, obj.id, o.pushes);
        dsched::point();
      });
    if (automatic)
      pool.set_creator([&] {
        dsched::point();
        return std::unique_ptr<Obj>(make_obj());
      });
    dsched::describe("pool mode=%s cap=%d recycler=%d injected=%d late=%d;", automatic ? "auto" : "strict", cfg.capacity, (int)cfg.recycler, injected, late);
    dsched::label(automatic ? "pool_auto" : "pool_strict");

    auto inject = [&] {
      std::unique_ptr<Obj> u(make_obj());
      W->objs[(size_t)u->id].pushes++;
      pool.push(std::move(u));
      if (u) dsched::fail("inject", "strict pool did not take an injected object");
    };
    for (int i = 0; i < injected; i++) inject();

    std::vector<PoolPlan> plans;
    for (int t = 0; t < nthreads; t++) {
      PoolPlan p;
      int nops = c.range(1, 7);
      dsched::describe(" T%d[", t + 1);
      for (int i = 0; i < nops; i++) {
        static const PoolOpKind strict_kinds[] = {Q_POP, Q_RELEASE, Q_POP, Q_TRY_POP, Q_PUSH_BACK, Q_RELEASE, Q_PAUSE, Q_POP};
        static const PoolOpKind auto_kinds[] = {Q_POP, Q_RELEASE, Q_POP, Q_TRY_POP, Q_PUSH_BACK, Q_RELEASE, Q_PUSH_NEW, Q_POP};
        PoolOpKind k = automatic ? c.pick(auto_kinds) : c.pick(strict_kinds);
        p.ops.push_back(k);
        dsched::describe("%s%s", i ? "," : "", pool_op_name[k]);
      }
      dsched::describe("]");
      plans.push_back(p);
    }
    std::vector<std::thread> ths;
    bool assign_handles = !known_deleter_move_assign_ub && c.flip();
    for (int t = 0; t < nthreads; t++) ths.emplace_back([&, t] { run_pool_thread(pool, cfg, t + 1, plans[(size_t)t], assign_handles); });
    for (int i = 0; i < late; i++) {
      dsched::yield_point();
      OpScope s;
      inject();
      dsched::label("late_injection");
    }
    for (auto& th : ths) th.join();

    pool_quiescent_check(pool, "after the threads");
    if (!automatic) {
      if (W->destroyed != 0) dsched::fail("strict-pool", "strict pool destroyed %ld objects", W->destroyed);
      if ((int)pool.free_object_number() != injected + late)
        dsched::fail("strict-pool", "free_object_number()=%zu, injected %d", pool.free_object_number(), injected + late);
    } else {
      // sequential epilogue with exact expectations: empty the pool, then return capacity+1 objects one by one
      std::list<Handle> hs;
      for (;;) {
        Handle h = pool.try_pop();
        if (!h) break;
        obj_acquire(cfg, h.get(), 99, "try_pop()");
        hs.push_back(std::move(h));
      }
      if (pool.free_object_number() != 0) dsched::fail("conservation", "try_pop() failed with %zu objects pooled", pool.free_object_number());
      while ((int)hs.size() < cfg.capacity + 1) {
        Handle h = pool.pop();
        if (!h) dsched::fail("pop-null", "pop() returned an empty pointer (auto-create mode)");
        obj_acquire(cfg, h.get(), 99, "pop()");
        hs.push_back(std::move(h));
      }
      size_t pooled = 0;
      for (auto& h : hs) {
        int id = h->id;
        obj_release(h.get(), 99);
        long d0 = W->destroyed;
        h.reset();
        bool kept = W->destroyed == d0;
        if (pooled < (size_t)cfg.capacity) {
          if (!kept) dsched::fail("capacity", "object #%d destroyed on return although only %zu of %d are pooled", id, pooled, cfg.capacity);
          pooled++;
        } else if (kept) {
          dsched::fail("capacity", "object #%d kept on return although %zu objects are pooled, capacity %d", id, pooled, cfg.capacity);
        }
        if (pool.free_object_number() != pooled)
          dsched::fail("capacity", "free_object_number()=%zu, expected %zu", pool.free_object_number(), pooled);
      }
      pool_quiescent_check(pool, "after the sequential epilogue");
    }
  }
  // pool destroyed: nothing may survive it
  if (W->created != W->destroyed) dsched::fail("destructor", "pool destroyed but %ld of %ld objects are still alive", W->created - W->destroyed, W->created);
  if (cfg.recycler)
    for (size_t i = 0; i < W->objs.size(); i++)
      if (W->objs[i].recycles != W->objs[i].pushes)
        dsched::fail("recycler", "object #%zu was returned %d times but recycled %d times", i, W->objs[i].pushes, W->objs[i].recycles);
  dsched::mix_hash((uint64_t)W->created * 1000003u + (uint64_t)W->destroyed);
}

// ---------------------------------------------------------------------------------------------
void run_case(Chooser& c) {
  World world;
  W = &world;
  uint32_t scen = c.below(10);
  if (scen < 6) run_pages(c);
  else run_pool(c, scen >= 8);
  dsched::mix_hash(dsched::stat_switches());
  if (world.overlapped) dsched::label("ops_overlapped");
  if (world.overlapped && dsched::stat_switches() >= 2 && (world.upstream_while_overlapped || world.pool_event || world.heap_mode)) dsched::nontrivial();
  W = nullptr;
}

void tune(dsched::Params& p, Chooser&) { p.max_steps = 200000; }

}  // namespace

int main(int argc, char** argv) {
  vf::Target t;
  t.name = "c17_pages";
  t.property_id = "C17";
  t.run_case = run_case;
  t.tune = tune;
  t.nontrivial_rule =
      "two allocator/pool operations overlapped, at least two context switches, and either the upstream allocator was called "
      "while another operation was in flight (cache empty/full compensation or batch refill under contention) or a pool pop "
      "slept / a returned object was destroyed as overflow (PageHeap stack, whose upstream is the real heap: overlap and two switches)";
  return vf::main_driver(argc, argv, t);
}
