// C04: ConcurrentVector under the schedule / clock fuzzer, with a quarantining allocator.
//   * the address obtained for index i is the same for every thread, every API and every time
//   * every element is constructed exactly once before anybody sees it (happens-before checked),
//     destroyed exactly once, and not before the vector dies if anybody saw it
//   * blocks and block tables are freed exactly once, nothing is touched after free
//   * a block table is not freed before the cooling period (64 s) after the growth that superseded
//     it has passed, gc() or not; a held snapshot stays usable for that long
// Memory: the global allocation functions are replaced. While a case runs, every block is
// registered, never reused (quarantine) and poisoned when freed; the harness checks the registry
// wherever it dereferences something it got from the vector. Time: the dsched virtual clock.
#include <babylon/concurrent/vector.h>

#include <stdio.h>
#include <stdlib.h>
#include <string.h>

#include <new>
#include <thread>
#include <vector>

#include "../engine/common/driver.h"
#include "known.h"

using dsched::Tracked;
using vf::Chooser;

namespace {

constexpr int64_t SEC = 1000000000LL;
constexpr int64_t COOLING_NS = 64 * SEC;
constexpr int64_t JITTER_BUDGET_NS = 20 * SEC;  // clock movement allowed while vector calls are in flight (whole case)

////////////////////////////////////////////////////////////////////////////////////////////////
// allocation registry (no operator new in here)
struct Block {
  uintptr_t lo;
  size_t size;
  size_t align;
  int alloc_op;     // op index of the vector call that allocated it, -1 = not inside a vector call
  int alloc_tid;
  bool in_vec;
  bool is_table;    // first over-aligned allocation of a growing call = the new block table
  bool freed;
  int free_op;
  // block table bookkeeping
  // Learned from the retire-list node that designates the table (node->data), never from the order of events:
  bool retired;              // some growing call handed this table to the retire list
  uint64_t superseded_step;  // a step at which the table was certainly still current and after which the superseding call's CAS came
  int superseded_by;         // op index of the growth that replaced it
  // retire-list node bookkeeping
  bool is_node;
  bool node_resolved;
  uint64_t node_pre_cas_step;
  // element slots (element blocks only)
  uint8_t* slot;  // per element: bit0 constructed, bit1 destroyed, bit2 seen by the harness
  size_t nslots;
};
constexpr int MAX_BLOCKS = 16384;
Block* g_blocks = nullptr;  // malloc'ed once per process
int g_nblocks = 0;
bool g_tracking = false;
bool g_registry_overflow = false;

struct OpRec;
struct World;
World* W = nullptr;

int cur_tid() {
  int t = dsched::tid();
  return t < 0 ? 0 : t;
}

Block* find_block_at(uintptr_t p) {
  for (int i = g_nblocks - 1; i >= 0; i--)
    if (g_blocks[i].lo == p) return &g_blocks[i];
  return nullptr;
}
Block* find_block_containing(uintptr_t a) {
  static int last = 0;
  if (last < g_nblocks && a >= g_blocks[last].lo && a < g_blocks[last].lo + g_blocks[last].size) return &g_blocks[last];
  for (int i = g_nblocks - 1; i >= 0; i--)
    if (a >= g_blocks[i].lo && a < g_blocks[i].lo + g_blocks[i].size) {
      last = i;
      return &g_blocks[i];
    }
  return nullptr;
}

void on_tracked_alloc(Block& b);
void on_tracked_free(Block& b, size_t sized);

void* raw_alloc(size_t n, size_t align) {
  if (align < 16) align = 16;
  void* p = nullptr;
  if (posix_memalign(&p, align, n ? n : 1) != 0) abort();
  return p;
}
void* vf_alloc(size_t n, size_t align) {
  void* p = raw_alloc(n, align);
  if (g_tracking) {
    if (g_nblocks >= MAX_BLOCKS) {
      g_registry_overflow = true;
      return p;
    }
    Block& b = g_blocks[g_nblocks++];
    memset(&b, 0, sizeof b);
    b.lo = (uintptr_t)p;
    b.size = n ? n : 1;
    b.align = align;
    b.alloc_op = -1;
    b.free_op = -1;
    on_tracked_alloc(b);
  }
  return p;
}
void vf_free(void* p, size_t sized) {
  if (!p) return;
  if (g_tracking) {
    Block* b = find_block_at((uintptr_t)p);
    if (b) {
      if (b->freed)
        dsched::fail("double-free", "%s %p (%zu bytes, allocated by op%d) is freed a second time (first by op%d)",
                     b->is_table ? "block table" : b->in_vec ? "block" : "allocation", p, b->size, b->alloc_op, b->free_op);
      on_tracked_free(*b, sized);
      b->freed = true;
      memset(p, 0xDD, b->size);  // poison; the block stays in quarantine until the case ends
      return;
    }
  }
  free(p);
}

////////////////////////////////////////////////////////////////////////////////////////////////
// element type
struct Src {
  uint64_t v;
};
struct Elem {
  Tracked<uint64_t> a;
  Tracked<uint64_t> b;
  uint64_t val = 0;
  Elem();
  Elem(const Elem& o) = delete;
  Elem& operator=(const Elem& o);
  Elem& operator=(const Src& s);
  ~Elem();
};

////////////////////////////////////////////////////////////////////////////////////////////////
// history
enum OpKind {
  O_ENSURE, O_RESERVE, O_INDEX, O_SNAPSHOT, O_RSNAPSHOT, O_SNAP_READ, O_SNAP_FOREACH, O_FILL, O_COPY, O_FOREACH,
  O_CONST_FOREACH, O_GC, O_ADVANCE, O_CONSTRUCT, O_DESTROY, O_UNSAFE_GC, O_NKINDS
};
const char* op_name[] = {"ensure", "reserve", "index", "snapshot", "reserved_snapshot", "snap_read", "snap_for_each", "fill_n", "copy_n",
                         "for_each", "const_for_each", "gc", "advance", "construct", "destroy", "unsafe_gc"};

struct OpRec {
  int thread;
  int kind;
  uint64_t begin_step = 0, end_step = 0;
  int64_t begin_time = 0;
  bool finished = false;
  bool allocated = false;  // entered the growth path (allocated a block table)
  int table_block = -1;    // registry index of that table
  bool lost_cas = false;
  uint64_t pre_cas_step = 0;  // step of the last harness hook (table allocation / element constructor) of this call
  bool in_retire = false;  // past its growth CAS, inside RetireList::retire
  bool stalled = false;    // (VF_ALLOW_KNOWN only) the clock leapt while this call sat inside retire
};

struct SnapRec {
  uintptr_t table;
  uint64_t taken_step;  // step at the begin of the call that produced it
  size_t size;
  bool valid = false;
};

constexpr int MAX_INDEX = 64;
struct World {
  std::vector<OpRec> ops;
  int cur_op[dsched::MAXT];
  bool in_vec[dsched::MAXT];   // inside a vector call and not inside a harness callback (allocation attribution)
  bool in_call[dsched::MAXT];  // inside a vector call
  int inflight = 0;  // vector calls in flight
  bool concurrent_phase = false;
  int64_t jitter_used = 0;
  bool dying = false;
  size_t block_size = 1;
  const Elem* addr_of[MAX_INDEX];
  const uintptr_t* block_table_word = nullptr;  // where the vector keeps its current block table pointer (validated; may stay null)
  std::vector<SnapRec> all_snaps;  // every snapshot ever taken
  // per fill/copy/for_each call: addresses visited, in order
  std::vector<const Elem*>* collect[dsched::MAXT] = {};
  int expired_tables = 0, lost_cas = 0;
};

struct HarnessScope {  // harness code running inside a vector call (callbacks): not the vector's allocations
  int t;
  bool saved;
  HarnessScope() : t(cur_tid()), saved(W ? W->in_vec[t] : false) { if (W) W->in_vec[t] = false; }
  ~HarnessScope() { if (W) W->in_vec[t] = saved; }
};

// Known genuine defect (see the report): RetireList::retire() reads the clock once, before its CAS loop. A thread
// descheduled for >= one 64 s unit between that read and the CAS that finally succeeds pushes a stale timestamp on top
// of entries other threads retired meanwhile: the next retire()/gc() then frees tables that were superseded seconds ago
// (witness: corpus/c04_vector/known_stale_retire_timestamp.replay.json, replay with VF_ALLOW_KNOWN=c04stall).
// Guard (default on): the clock never leaps while any vector call is in flight, which is also what DESIGN.md's
// conservative Pre excludes. VF_ALLOW_KNOWN=1 or VF_ALLOW_KNOWN=c04stall removes the guard: leaps are then generated
// while a thread sits inside retire(), and the literal "64 s after the growth that superseded it" oracle is active.
bool known_stale_retire_timestamp() {
  static int v = -1;
  if (v < 0) {
    v = vf_allow_known("c04stall") ? 0 : 1;
  }
  return v == 1;
}

// Earliest moment at which a table designated by a snapshot taken at `taken_step` may be freed: 64 s after
// the begin of the earliest growth call that ended after the snapshot was taken (DESIGN.md C04 "Pre").
int64_t usable_until(uint64_t taken_step) {
  int64_t limit = INT64_MAX;
  for (auto& o : W->ops) {
    if (!o.allocated) continue;
    if (o.finished && o.end_step < taken_step) continue;
    if (o.begin_time + COOLING_NS < limit) limit = o.begin_time + COOLING_NS;
  }
  return limit;
}

void resolve_nodes();
// With stale reads an acquire load may legally return a table that was superseded a moment ago: such a snapshot is as
// good as one taken while the superseding call was preparing its CAS, not better.
uint64_t effective_taken_step(const SnapRec& s) {
  Block* x = find_block_at(s.table);
  if (x && x->retired && x->superseded_step < s.taken_step) return x->superseded_step;
  return s.taken_step;
}
void on_tracked_alloc(Block& b) {
  if (!W) return;
  {
    // (the block being registered is the last one: hide it while older nodes are resolved)
    int saved = g_nblocks;
    g_nblocks = (int)(&b - g_blocks);
    resolve_nodes();
    g_nblocks = saved;
  }
  int t = cur_tid();
  b.alloc_tid = t;
  if (!W->in_vec[t]) return;
  b.in_vec = true;
  b.alloc_op = W->cur_op[t];
  OpRec& op = W->ops[(size_t)b.alloc_op];
  int idx = (int)(&b - g_blocks);
  if (b.align >= 64) {
    if (!op.allocated) {
      op.allocated = true;
      op.table_block = idx;
      b.is_table = true;
      op.pre_cas_step = dsched::step();
    } else {
      b.nslots = b.size / sizeof(Elem);
      b.slot = (uint8_t*)calloc(b.nslots ? b.nslots : 1, 1);
    }
  } else if (op.allocated && op.kind != O_DESTROY && b.size == 2 * sizeof(void*)) {
    // The retire-list node {data, next}: allocated by retire() after this call's growth CAS succeeded. Other threads
    // may have run between that CAS and this allocation, so nothing is concluded from the order of such events;
    // which table the call superseded is read from node->data once retire() has written it (resolve_nodes).
    b.is_node = true;
    b.node_pre_cas_step = op.pre_cas_step;
    op.in_retire = true;
  }
}

// node->data is written right after the allocation returns, before the next schedule point of that thread: every
// node except one being allocated right now can be read. The superseding call's expected table was current from
// before the call's last element constructor (it was loaded before the speculative blocks were built) until its CAS.
void resolve_nodes() {
  for (int i = 0; i < g_nblocks; i++) {
    Block& n = g_blocks[i];
    if (!n.is_node || n.node_resolved || n.freed) continue;
    n.node_resolved = true;
    uintptr_t data;
    memcpy(&data, (const void*)n.lo, sizeof data);
    Block* x = find_block_at(data);
    if (!x || !x->is_table) continue;  // the static empty table
    if (x->retired) dsched::fail("double-free", "block table %p handed to the retire list twice (by op%d and op%d)", (void*)x->lo, x->superseded_by, n.alloc_op);
    x->retired = true;
    x->superseded_by = n.alloc_op;
    x->superseded_step = n.node_pre_cas_step;
  }
}

void on_tracked_free(Block& b, size_t sized) {
  if (!W || !b.in_vec) return;
  int t = cur_tid();
  int opi = W->in_vec[t] ? W->cur_op[t] : -1;
  b.free_op = opi;
  if (opi < 0) dsched::fail("allocator", "a vector allocation (%zu bytes from op%d) is freed outside any vector call", b.size, b.alloc_op);
  OpRec& op = W->ops[(size_t)opi];
  if (sized && b.align >= 64 && sized != b.size)
    dsched::fail("allocator", "sized delete of %zu bytes for a block allocated with %zu bytes", sized, b.size);
  resolve_nodes();
  if (b.is_table) {
    if (op.kind == O_DESTROY || op.kind == O_UNSAFE_GC) return;  // end of life / documented as not thread safe
    if (opi == b.alloc_op && !b.retired) {
      // the loser of the growth race gives its own, never published table back
      op.lost_cas = true;
      return;
    }
    W->expired_tables++;
    int64_t now = dsched::now_ns();
    if (W->block_table_word && *W->block_table_word == b.lo)
      dsched::fail("cooling-period", "block table %p freed by op%d (%s) while it is the current table", (void*)b.lo, opi, op_name[op.kind]);
    if (!b.retired)
      dsched::fail("cooling-period", "block table %p freed by op%d (%s) although no growing call retired it", (void*)b.lo, opi, op_name[op.kind]);
    // (a) any snapshot ever taken of this table
    for (auto& s : W->all_snaps)
      if (s.table == b.lo) {
        uint64_t eff = effective_taken_step(s);
        int64_t lim = usable_until(eff);
        if (now < lim)
          dsched::fail("cooling-period",
                       "block table %p freed by op%d (%s, T%d) at t=%.3fs, but a snapshot of it taken at step %lu is usable until t=%.3fs "
                       "(64 s after the begin of the earliest growth that ended after the snapshot)",
                       (void*)b.lo, opi, op_name[op.kind], op.thread, now / 1e9, (unsigned long)eff, lim / 1e9);
      }
    // (b) the snapshot somebody could have taken while the superseding call was preparing its CAS
    {
      int64_t lim = usable_until(b.superseded_step);
      if (now < lim)
        dsched::fail("cooling-period",
                     "block table %p freed by op%d (%s, T%d) at t=%.3fs; it was still current at step %lu (superseded by op%d) and a snapshot "
                     "taken then stays usable until t=%.3fs",
                     (void*)b.lo, opi, op_name[op.kind], op.thread, now / 1e9, (unsigned long)b.superseded_step, b.superseded_by, lim / 1e9);
      // (c) 64 s measured from the begin of the growth that superseded it. Differs from (b) only when another growing
      // call was stalled inside retire() meanwhile (generated only with the known_stale_retire_timestamp guard lifted).
      int64_t lit = W->ops[(size_t)b.superseded_by].begin_time + COOLING_NS;
      if (!known_stale_retire_timestamp() && now < lit) {
        char dump[1500];
        size_t off = 0;
        for (size_t i = 0; i < W->ops.size() && off + 80 < sizeof dump; i++) {
          const OpRec& o = W->ops[i];
          off += (size_t)snprintf(dump + off, sizeof dump - off, " op%zu:T%d:%s[t=%.0f,steps %lu..%lu%s]", i, o.thread, op_name[o.kind], o.begin_time / 1e9,
                                  (unsigned long)o.begin_step, (unsigned long)o.end_step, o.allocated ? ",grew" : "");
        }
        dsched::fail("cooling-period-literal",
                     "block table %p freed by op%d (%s, T%d) at t=%.3fs (step %lu) although the growth that superseded it (op%d) began at t=%.3fs;%s",
                     (void*)b.lo, opi, op_name[op.kind], op.thread, now / 1e9, (unsigned long)dsched::step(), b.superseded_by,
                     W->ops[(size_t)b.superseded_by].begin_time / 1e9, dump);
      }
    }
    return;
  }
  if (b.align >= 64) {
    // element block: every element must have been destroyed exactly once before the memory goes
    for (size_t i = 0; i < b.nslots; i++)
      if ((b.slot[i] & 3) == 1)
        dsched::fail("element-lifecycle", "block %p freed by op%d with element %zu constructed but not destroyed", (void*)b.lo, opi, i);
    if (op.kind != O_DESTROY) {
      if (opi == b.alloc_op) op.lost_cas = true;  // speculative block of a lost growth CAS
      else dsched::fail("block-lifetime", "element block %p (from op%d) freed by op%d (%s) while the vector is alive", (void*)b.lo, b.alloc_op, opi, op_name[op.kind]);
    }
  }
}

// ---- element lifecycle ------------------------------------------------------------------------
Block* owning_block(const Elem* e) {
  if (!g_tracking || !W) return nullptr;
  Block* b = find_block_containing((uintptr_t)e);
  if (!b || !b->in_vec || b->is_table || !b->slot) return nullptr;
  return b;
}
Elem::Elem() {
  if (Block* blk = owning_block(this)) {
    size_t i = ((uintptr_t)this - blk->lo) / sizeof(Elem);
    if (blk->freed) dsched::fail("use-after-free", "element constructed in freed block %p", (void*)blk->lo);
    if (blk->slot[i] & 1) dsched::fail("element-lifecycle", "element %p constructed twice", (void*)this);
    blk->slot[i] |= 1;
  }
  a.set(0x1111, "elem.a");
  dsched::point();
  b.set(0x2222, "elem.b");
  if (Block* blk = owning_block(this))
    if (blk->alloc_op >= 0) W->ops[(size_t)blk->alloc_op].pre_cas_step = dsched::step();
}
Elem::~Elem() {
  if (Block* blk = owning_block(this)) {
    size_t i = ((uintptr_t)this - blk->lo) / sizeof(Elem);
    if (blk->freed) dsched::fail("use-after-free", "element %p destroyed after its block was freed", (void*)this);
    if (!(blk->slot[i] & 1)) dsched::fail("element-lifecycle", "element %p destroyed but never constructed", (void*)this);
    if (blk->slot[i] & 2) dsched::fail("element-lifecycle", "element %p destroyed twice", (void*)this);
    if ((blk->slot[i] & 4) && !W->dying)
      dsched::fail("element-lifecycle", "element %p was handed out and is destroyed while the vector is alive", (void*)this);
    blk->slot[i] |= 2;
  }
}

// the harness got `e` as the element of index `index`
void check_element(const Elem* e, size_t index, const char* via) {
  World& w = *W;
  Block* blk = find_block_containing((uintptr_t)e);
  if (!blk || !blk->in_vec || blk->is_table || !blk->slot)
    dsched::fail("wild-address", "%s(%zu) designates %p which is not inside any element block of the vector", via, index, (void*)e);
  if (blk->freed) dsched::fail("use-after-free", "%s(%zu) designates %p inside block %p which was freed by op%d", via, index, (void*)e, (void*)blk->lo, blk->free_op);
  size_t off = (uintptr_t)e - blk->lo;
  size_t i = off / sizeof(Elem);
  if (off % sizeof(Elem) != 0 || i >= blk->nslots) dsched::fail("wild-address", "%s(%zu) designates %p, not an element slot", via, index, (void*)e);
  if ((blk->slot[i] & 3) != 1)
    dsched::fail("element-lifecycle", "%s(%zu) designates element %p which is %s", via, index, (void*)e, (blk->slot[i] & 2) ? "already destroyed" : "not constructed");
  blk->slot[i] |= 4;
  if (index < MAX_INDEX) {
    if (!w.addr_of[index]) w.addr_of[index] = e;
    else if (w.addr_of[index] != e)
      dsched::fail("stable-address", "%s(%zu) designates %p, an earlier call designated %p", via, index, (void*)e, (void*)w.addr_of[index]);
  }
  uint64_t a = e->a.get("elem.a"), b = e->b.get("elem.b");
  if (a != 0x1111 || b != 0x2222) dsched::fail("fully-constructed", "%s(%zu): element %p not fully constructed (a=%lx b=%lx)", via, index, (void*)e, (unsigned long)a, (unsigned long)b);
}

// fill_n / copy_n assign through the vector: the harness only records which slots were designated
// (it never writes through an address it has not validated)
Elem& Elem::operator=(const Elem&) {
  if (W && W->collect[cur_tid()]) {
    HarnessScope hs;
    W->collect[cur_tid()]->push_back(this);
  }
  return *this;
}
Elem& Elem::operator=(const Src&) {
  if (W && W->collect[cur_tid()]) {
    HarnessScope hs;
    W->collect[cur_tid()]->push_back(this);
  }
  return *this;
}

// ---- vector call bracket -------------------------------------------------------------------------
struct Call {
  int idx;
  int t;
  Call(int thread, int kind) {
    World& w = *W;
    t = cur_tid();
    idx = (int)w.ops.size();
    OpRec r;
    r.thread = thread;
    r.kind = kind;
    r.begin_step = dsched::step();
    r.begin_time = dsched::now_ns();
    w.ops.push_back(r);
    w.cur_op[t] = idx;
    resolve_nodes();
    w.in_vec[t] = true;
    w.in_call[t] = true;
    w.inflight++;
  }
  ~Call() {
    World& w = *W;
    w.in_vec[t] = false;
    w.in_call[t] = false;
    resolve_nodes();
    w.inflight--;
    OpRec& r = w.ops[(size_t)idx];
    r.end_step = dsched::step();
    r.finished = true;
    r.in_retire = false;
    if (r.lost_cas) w.lost_cas++;
  }
};

template <class S>
uintptr_t table_of(const S& s) {
  static_assert(sizeof(S) >= sizeof(void*), "snapshot layout");
  uintptr_t p;
  memcpy(&p, (const char*)&s + sizeof(S) - sizeof(void*), sizeof p);
  return p;
}

struct Op {
  int kind;
  size_t a, b;
  int slot;
  int64_t dt;
};

template <class Vec>
struct Runner {
  using Snap = typename Vec::Snapshot;
  Vec* v;
  size_t bs;
  struct Held {
    Snap s;
    int rec = -1;
  };
  struct ThreadState {
    Held held[2];
    size_t acc = 0;  // [0, acc) is known accessible to this thread through its own completed calls
  };
  ThreadState ts[8];

  void visit_range_check(const std::vector<const Elem*>& got, size_t begin, size_t end, const char* via) {
    if (got.size() != end - begin) dsched::fail("traversal", "%s[%zu,%zu) visited %zu elements", via, begin, end, got.size());
    for (size_t i = 0; i < got.size(); i++) check_element(got[i], begin + i, via);
  }

  void record_snapshot(int thread, int slot, const Snap& s, uint64_t taken_step, size_t min_size, const char* via) {
    World& w = *W;
    SnapRec r;
    r.table = table_of(s);
    r.taken_step = taken_step;
    r.valid = true;
    // the table must be alive right now: we are about to read its size
    if (Block* b = find_block_at(r.table)) {
      if (b->freed) dsched::fail("use-after-free", "%s returned a snapshot of block table %p which is already freed", via, (void*)r.table);
      resolve_nodes();
      if (b->retired && b->superseded_step < r.taken_step) dsched::label("snapshot_of_superseded_table");  // (see effective_taken_step)
    }
    r.size = s.size();
    if (r.size < min_size) dsched::fail("reserve", "%s: snapshot size %zu < requested %zu", via, r.size, min_size);
    if (r.size % bs != 0) dsched::fail("reserve", "%s: snapshot size %zu is not a multiple of the block size %zu", via, r.size, bs);
    w.all_snaps.push_back(r);
    ts[thread].held[slot].s = s;
    ts[thread].held[slot].rec = (int)w.all_snaps.size() - 1;
  }

  // (VF_ALLOW_KNOWN only) a call that sat inside retire() while the clock leapt was stalled for longer than
  // the design allows for a call in flight: what it returns is not checked
  bool stalled(int op_index) {
    if (!W->ops[(size_t)op_index].stalled) return false;
    dsched::label("stalled_call_not_checked");
    return true;
  }

  // Pre for using a held snapshot now
  bool snapshot_usable(const SnapRec& r) {
    resolve_nodes();
    return dsched::now_ns() < usable_until(effective_taken_step(r));
  }

  void run_op(int thread, const Op& op) {
    World& w = *W;
    ThreadState& me = ts[thread];
    switch (op.kind) {
      case O_ENSURE: {
        Elem* e;
        int ci;
        {
          Call c(thread, O_ENSURE);
          ci = c.idx;
          e = &v->ensure(op.a);
        }
        if (stalled(ci)) break;
        check_element(e, op.a, "ensure");
        if (op.a + 1 > me.acc) me.acc = op.a + 1;
        break;
      }
      case O_RESERVE: {
        {
          Call c(thread, O_RESERVE);
          v->reserve(op.a);
        }
        if (op.a > me.acc) me.acc = op.a;
        break;
      }
      case O_INDEX: {
        if (me.acc == 0) break;
        size_t i = op.a % me.acc;
        Elem* e;
        size_t sz;
        {
          Call c(thread, O_INDEX);
          sz = v->size();
          e = &(*v)[i];
        }
        if (sz < me.acc) dsched::fail("reserve", "size() == %zu although this thread already ensured [0,%zu)", sz, me.acc);
        check_element(e, i, "operator[]");
        break;
      }
      case O_SNAPSHOT: {
        uint64_t st = dsched::step();
        Snap s;
        {
          Call c(thread, O_SNAPSHOT);
          s = v->snapshot();
        }
        record_snapshot(thread, op.slot, s, st, me.acc, "snapshot");
        break;
      }
      case O_RSNAPSHOT: {
        uint64_t st = dsched::step();
        Snap s;
        int ci;
        {
          Call c(thread, O_RSNAPSHOT);
          ci = c.idx;
          s = v->reserved_snapshot(op.a);
        }
        if (stalled(ci)) { me.held[op.slot].rec = -1; break; }
        record_snapshot(thread, op.slot, s, st, op.a, "reserved_snapshot");
        if (op.a > me.acc) me.acc = op.a;
        break;
      }
      case O_SNAP_READ:
      case O_SNAP_FOREACH: {
        Held& h = me.held[op.slot];
        if (h.rec < 0) break;
        SnapRec& r = w.all_snaps[(size_t)h.rec];
        if (r.size == 0) break;
        if (!snapshot_usable(r)) {
          dsched::label("snapshot_expired_not_used");
          h.rec = -1;
          break;
        }
        dsched::label("snapshot_used_after_growth_check");
        if (Block* b = find_block_at(r.table))
          if (b->freed)
            dsched::fail("use-after-free", "held snapshot (taken at step %lu) designates block table %p which was freed by op%d at a time the snapshot is still usable",
                         (unsigned long)r.taken_step, (void*)r.table, b->free_op);
        if (op.kind == O_SNAP_READ) {
          size_t i = op.a % r.size;
          Elem* e = &h.s[i];
          check_element(e, i, "snapshot[]");
        } else {
          size_t b0 = op.a % r.size, e0 = b0 + op.b % (r.size - b0 + 1);
          std::vector<const Elem*> got;
          h.s.for_each(b0, e0, [&](Elem* it, Elem* end) {
            for (; it != end; ++it) got.push_back(it);
          });
          visit_range_check(got, b0, e0, "snapshot.for_each");
        }
        break;
      }
      case O_FILL:
      case O_COPY: {
        std::vector<const Elem*> got;
        Elem value;  // harness-owned (not inside a vector block)
        std::vector<Src> src(op.b);
        int ci;
        {
          Call c(thread, op.kind);
          ci = c.idx;
          w.collect[c.t] = &got;
          if (op.kind == O_FILL) v->fill_n(op.a, op.b, value);
          else v->copy_n(src.data(), op.b, op.a);
          w.collect[c.t] = nullptr;
        }
        if (stalled(ci)) break;
        visit_range_check(got, op.a, op.a + op.b, op.kind == O_FILL ? "fill_n" : "copy_n");
        if (op.a + op.b > me.acc) me.acc = op.a + op.b;
        break;
      }
      case O_FOREACH: {
        std::vector<const Elem*> got;
        int ci;
        {
          Call c(thread, O_FOREACH);
          ci = c.idx;
          v->for_each(op.a, op.a + op.b, [&](Elem* it, Elem* end) {
            HarnessScope hs;
            for (; it != end; ++it) got.push_back(it);
            dsched::point();  // a preemption may fall between two segments
          });
        }
        if (stalled(ci)) break;
        visit_range_check(got, op.a, op.a + op.b, "for_each");
        if (op.a + op.b > me.acc) me.acc = op.a + op.b;
        break;
      }
      case O_CONST_FOREACH: {
        if (me.acc == 0) break;
        size_t b0 = op.a % me.acc, e0 = b0 + op.b % (me.acc - b0 + 1);
        std::vector<const Elem*> got;
        {
          Call c(thread, O_CONST_FOREACH);
          const Vec* cv = v;
          cv->for_each(b0, e0, [&](const Elem* it, const Elem* end) {
            HarnessScope hs;
            for (; it != end; ++it) got.push_back(it);
          });
        }
        visit_range_check(got, b0, e0, "const for_each");
        break;
      }
      case O_GC: {
        Call c(thread, O_GC);
        v->gc();
        break;
      }
      case O_ADVANCE: {
        int64_t dt = op.dt;
        bool calls_in_flight = w.inflight > 0;
        // known_stale_retire_timestamp guard removed (VF_ALLOW_KNOWN): the clock may also leap while a thread sits
        // inside RetireList::retire (after its growth CAS), and the literal reading of the property is checked.
        if (!known_stale_retire_timestamp() && !dsched::weak_mode()) {
          calls_in_flight = false;
          for (int t = 0; t < dsched::MAXT; t++)
            if (w.in_call[t] && !w.ops[(size_t)w.cur_op[t]].in_retire) calls_in_flight = true;
          if (!calls_in_flight && dt > 2 * SEC)
            for (int t = 0; t < dsched::MAXT; t++)
              if (w.in_call[t]) w.ops[(size_t)w.cur_op[t]].stalled = true;
        }
        if (calls_in_flight || (w.concurrent_phase && dsched::weak_mode())) {
          // Somebody is inside a vector call: a stall of a cooling period inside a call is outside the
          // component's design envelope (time-based reclamation); only a bounded jitter is applied.
          // Same with stale reads enabled: the memory model puts no time bound on staleness, the component
          // assumes visibility within far less than 64 s, so virtual time must not leap while threads may
          // still hold stale views (the prologue / epilogue are ordered with every thread by create / join).
          if (dt > 2 * SEC) dt = 2 * SEC;
          if (w.jitter_used + dt > JITTER_BUDGET_NS) break;
          w.jitter_used += dt;
          dsched::label("clock_jitter_during_call");
        } else {
          dsched::label(dt >= COOLING_NS ? "clock_jump_ge_64s" : "clock_jump_lt_64s");
        }
        dsched::advance_clock(dt);
        break;
      }
      default:
        break;
    }
  }
};

void describe_op(const Op& op, bool first) {
  const char* sep = first ? "" : ",";
  switch (op.kind) {
    case O_ENSURE: case O_RESERVE: case O_INDEX: dsched::describe("%s%s(%zu)", sep, op_name[op.kind], op.a); break;
    case O_SNAPSHOT: dsched::describe("%ss%d=snapshot", sep, op.slot); break;
    case O_RSNAPSHOT: dsched::describe("%ss%d=reserved_snapshot(%zu)", sep, op.slot, op.a); break;
    case O_SNAP_READ: dsched::describe("%ss%d[%zu]", sep, op.slot, op.a); break;
    case O_SNAP_FOREACH: dsched::describe("%ss%d.for_each(%zu,+%zu)", sep, op.slot, op.a, op.b); break;
    case O_FILL: case O_COPY: case O_FOREACH: case O_CONST_FOREACH: dsched::describe("%s%s(%zu,+%zu)", sep, op_name[op.kind], op.a, op.b); break;
    case O_GC: dsched::describe("%sgc", sep); break;
    case O_ADVANCE: dsched::describe("%sclock+%.1fs", sep, op.dt / 1e9); break;
    default: break;
  }
}

Op gen_op(Chooser& c, size_t bs) {
  static const int kinds[] = {O_ENSURE, O_ENSURE, O_ENSURE, O_RESERVE, O_INDEX, O_SNAPSHOT, O_RSNAPSHOT, O_SNAP_READ, O_SNAP_READ,
                              O_SNAP_FOREACH, O_FILL, O_COPY, O_FOREACH, O_CONST_FOREACH, O_GC, O_GC, O_ADVANCE, O_ADVANCE, O_ADVANCE};
  static const int64_t jumps[] = {SEC / 10, 1 * SEC, 2 * SEC, 30 * SEC, 62 * SEC, 63 * SEC, 64 * SEC, 65 * SEC, 100 * SEC, 127 * SEC, 128 * SEC, 129 * SEC,
                                  129 * SEC, 200 * SEC, 200 * SEC, 300 * SEC};
  Op op{};
  op.kind = c.pick(kinds);
  size_t maxidx = bs * 6;
  if (maxidx > MAX_INDEX - 8) maxidx = MAX_INDEX - 8;
  op.a = c.below((uint32_t)maxidx);
  op.b = c.below((uint32_t)(bs * 2 + 2));
  if (op.a + op.b > MAX_INDEX) op.b = MAX_INDEX - op.a;
  op.slot = (int)c.below(2);
  op.dt = c.pick(jumps);
  if (op.kind == O_RESERVE || op.kind == O_RSNAPSHOT) op.a += 1;
  return op;
}

struct VecSpec {
  const char* name;
  size_t hint;
};

template <class Vec>
void run_with(Chooser& c, size_t hint, bool custom_ctor) {
  World& w = *W;
  w.ops.reserve(256);
  w.all_snaps.reserve(64);
  Runner<Vec>* rp = new Runner<Vec>();
  Runner<Vec>& r = *rp;
  {
    Call call(0, O_CONSTRUCT);
    if (custom_ctor) r.v = new Vec(hint, [](Elem* p) { new (p) Elem(); });
    else r.v = new Vec(hint);
  }
  r.bs = r.v->block_size();
  w.block_size = r.bs;
  {
    // {Meta, std::function, atomic<BlockTable*> _block_table, RetireList{atomic<uint64_t>}}: the current table pointer
    // is the second last word. Only used for the "freed while current" check, and only if it looks right.
    static_assert(sizeof(Vec) == 6 * sizeof(void*) || sizeof(Vec) == 7 * sizeof(void*), "ConcurrentVector layout changed");
    const uintptr_t* word = (const uintptr_t*)((const char*)r.v + sizeof(Vec) - 2 * sizeof(void*));
    uintptr_t p = *word;
    if (p && p % alignof(size_t) == 0 && !find_block_containing(p)) {
      size_t n;
      memcpy(&n, (const void*)p, sizeof n);
      if (n == 0) w.block_table_word = word;  // the static empty table
    }
    if (w.block_table_word) dsched::label("current_table_word_located");
  }

  // optional single-threaded prologue
  int pre = (int)c.below(6);
  dsched::describe(" pre[");
  for (int i = 0; i < pre; i++) {
    Op op = gen_op(c, r.bs);
    describe_op(op, i == 0);
    r.run_op(0, op);
  }
  dsched::describe("]");
  int nthreads = c.range(2, vf::thorough() ? 6 : 4);
  std::vector<std::vector<Op>> plan((size_t)nthreads);
  for (int t = 0; t < nthreads; t++) {
    int nops = c.range(1, vf::thorough() ? 8 : 5);
    dsched::describe(" T%d[", t + 1);
    for (int i = 0; i < nops; i++) {
      Op op = gen_op(c, r.bs);
      plan[(size_t)t].push_back(op);
      describe_op(op, i == 0);
      dsched::label(op_name[op.kind]);
    }
    dsched::describe("]");
  }
  int post = (int)c.below(6);
  std::vector<Op> epilogue;
  dsched::describe(" post[");
  for (int i = 0; i < post; i++) {
    Op op = gen_op(c, r.bs);
    epilogue.push_back(op);
    describe_op(op, i == 0);
  }
  bool unsafe_gc = c.chance(1, 4);
  dsched::describe("%s]", unsafe_gc ? " unsafe_gc" : "");

  std::vector<std::thread> threads;
  w.concurrent_phase = true;
  for (int t = 0; t < nthreads; t++)
    threads.emplace_back([&, t] {
      for (auto& op : plan[(size_t)t]) r.run_op(t + 1, op);
    });
  for (auto& th : threads) th.join();
  w.concurrent_phase = false;

  // epilogue on thread 0, which now also holds the snapshots of every thread
  for (auto& op : epilogue) r.run_op(0, op);
  for (int t = 0; t <= nthreads; t++)
    for (int s = 0; s < 2; s++) {
      auto& h = r.ts[t].held[s];
      if (h.rec < 0) continue;
      SnapRec& sr = w.all_snaps[(size_t)h.rec];
      if (sr.size == 0 || !r.snapshot_usable(sr)) continue;
      if (Block* b = find_block_at(sr.table))
        if (b->freed) dsched::fail("use-after-free", "held snapshot designates block table %p freed by op%d while still usable", (void*)sr.table, b->free_op);
      for (size_t i = 0; i < sr.size; i++) check_element(&h.s[i], i, "snapshot[] (final)");
    }
  // every index ever designated is still the same element
  {
    size_t sz;
    {
      Call call(0, O_INDEX);
      sz = r.v->size();
    }
    for (size_t i = 0; i < MAX_INDEX; i++)
      if (w.addr_of[i]) {
        if (i >= sz) dsched::fail("reserve", "index %zu was handed out but size() == %zu at the end", i, sz);
        Elem* e;
        {
          Call call(0, O_INDEX);
          e = &(*r.v)[i];
        }
        check_element(e, i, "operator[] (final)");
      }
  }
  if (unsafe_gc) {
    Call call(0, O_UNSAFE_GC);
    r.v->unsafe_gc();
  }
  {
    w.dying = true;
    Call call(0, O_DESTROY);
    delete r.v;
  }
  // ---- after the vector died ----
  for (int i = 0; i < g_nblocks; i++) {
    Block& b = g_blocks[i];
    if (!b.in_vec) continue;
    if (!b.freed)
      dsched::fail("leak", "%s %p (%zu bytes, allocated by op%d %s) still allocated after the vector was destroyed",
                   b.is_table ? "block table" : b.align >= 64 ? "element block" : "retire node", (void*)b.lo, b.size, b.alloc_op,
                   op_name[w.ops[(size_t)b.alloc_op].kind]);
    if (b.slot)
      for (size_t k = 0; k < b.nslots; k++)
        if ((b.slot[k] & 3) != 3 && (b.slot[k] & 3) != 0)
          dsched::fail("element-lifecycle", "element %zu of block %p constructed but never destroyed", k, (void*)b.lo);
  }
  if (g_registry_overflow) dsched::discard("allocation registry overflow");

  if (w.lost_cas) dsched::label("growth_cas_lost");
  if (w.expired_tables) dsched::label("retire_list_expired");
  if ((w.lost_cas || w.expired_tables) ) dsched::nontrivial();
  for (auto& o : w.ops) dsched::mix_hash(((uint64_t)o.kind << 40) ^ (o.begin_step << 8) ^ (o.allocated ? 2u : 0u) ^ (o.lost_cas ? 1u : 0u));
  delete rp;
}

struct ClockChoice {
  bool wrap;
  int64_t off;
};
ClockChoice decode_clock(Chooser& c) {
  static const int64_t offs[] = {0, 1, 32, 62, 63};
  ClockChoice cc;
  cc.wrap = c.chance(1, 4);
  cc.off = c.pick(offs);
  return cc;
}
int64_t clock_base(const ClockChoice& cc) {
  // the retire timestamp is (CLOCK_MONOTONIC_RAW seconds >> 6) truncated to 16 bits
  int64_t unit = cc.wrap ? 65534 : 15;
  return (unit * 64 + cc.off) * SEC;
}

void end_case() {
  // leave nothing behind: quarantined blocks are really released now, live ones are forgotten
  g_tracking = false;
  W = nullptr;
  for (int i = 0; i < g_nblocks; i++) {
    Block& b = g_blocks[i];
    if (b.slot) free(b.slot);
    if (b.freed) free((void*)b.lo);
  }
  g_nblocks = 0;
  g_registry_overflow = false;
}

void run_case(Chooser& c) {
  if (!g_blocks) g_blocks = (Block*)malloc(sizeof(Block) * MAX_BLOCKS);
  ClockChoice cc = decode_clock(c);  // (tune() decoded the same two choices)
  int vt = (int)c.below(7);
  bool custom_ctor = c.flip();
  static const VecSpec specs[] = {{"dyn(1)", 1}, {"dyn(2)", 2}, {"dyn(4)", 4}, {"static<1>", 1}, {"static<2>", 2}, {"static<8>", 8}, {"dyn(3)", 3}};
  dsched::describe("vec=%s%s clock=%s+%lds;", specs[vt].name, custom_ctor ? "+ctor" : "", cc.wrap ? "wrap" : "normal", (long)cc.off);
  dsched::label(cc.wrap ? "clock_near_16bit_wrap" : "clock_normal");
  dsched::label(vt < 3 || vt == 6 ? "dynamic_block_size" : "static_block_size");

  World* world = new World();
  memset(world->cur_op, 0, sizeof world->cur_op);
  memset(world->in_vec, 0, sizeof world->in_vec);
  memset(world->in_call, 0, sizeof world->in_call);
  memset(world->addr_of, 0, sizeof world->addr_of);
  g_nblocks = 0;
  W = world;
  g_tracking = true;
  switch (vt) {
    case 3: run_with<babylon::ConcurrentVector<Elem, 1>>(c, 1, custom_ctor); break;
    case 4: run_with<babylon::ConcurrentVector<Elem, 2>>(c, 2, custom_ctor); break;
    case 5: run_with<babylon::ConcurrentVector<Elem, 8>>(c, 8, custom_ctor); break;
    default: run_with<babylon::ConcurrentVector<Elem, 0>>(c, specs[vt].hint, custom_ctor); break;
  }
  end_case();
  delete world;
}

void tune(dsched::Params& p, Chooser& c) {
  p.max_steps = 300000;
  p.clock_base_ns = clock_base(decode_clock(c));
}

}  // namespace

// ---- replaced global allocation functions ----------------------------------------------------------
void* operator new(size_t n) { return vf_alloc(n, 16); }
void* operator new[](size_t n) { return vf_alloc(n, 16); }
void* operator new(size_t n, const std::nothrow_t&) noexcept { return vf_alloc(n, 16); }
void* operator new[](size_t n, const std::nothrow_t&) noexcept { return vf_alloc(n, 16); }
void* operator new(size_t n, std::align_val_t al) { return vf_alloc(n, (size_t)al); }
void* operator new[](size_t n, std::align_val_t al) { return vf_alloc(n, (size_t)al); }
void* operator new(size_t n, std::align_val_t al, const std::nothrow_t&) noexcept { return vf_alloc(n, (size_t)al); }
void* operator new[](size_t n, std::align_val_t al, const std::nothrow_t&) noexcept { return vf_alloc(n, (size_t)al); }
void operator delete(void* p) noexcept { vf_free(p, 0); }
void operator delete[](void* p) noexcept { vf_free(p, 0); }
void operator delete(void* p, size_t n) noexcept { vf_free(p, n); }
void operator delete[](void* p, size_t n) noexcept { vf_free(p, n); }
void operator delete(void* p, const std::nothrow_t&) noexcept { vf_free(p, 0); }
void operator delete[](void* p, const std::nothrow_t&) noexcept { vf_free(p, 0); }
void operator delete(void* p, std::align_val_t) noexcept { vf_free(p, 0); }
void operator delete[](void* p, std::align_val_t) noexcept { vf_free(p, 0); }
void operator delete(void* p, size_t n, std::align_val_t) noexcept { vf_free(p, n); }
void operator delete[](void* p, size_t n, std::align_val_t) noexcept { vf_free(p, n); }
void operator delete(void* p, std::align_val_t, const std::nothrow_t&) noexcept { vf_free(p, 0); }
void operator delete[](void* p, std::align_val_t, const std::nothrow_t&) noexcept { vf_free(p, 0); }

int main(int argc, char** argv) {
  vf::Target t;
  t.name = "c04_vector";
  t.property_id = "C04";
  t.run_case = run_case;
  t.tune = tune;
  t.prog_len = vf::thorough() ? 512 : 192;
  t.nontrivial_rule = "some thread lost a growth CAS (gave back its speculative blocks / table), or a retire list actually expired (a block table was freed by a retire/gc call)";
  return vf::main_driver(argc, argv, t);
}
