// C06 (concurrent part): SharedMonotonicBufferResource / SwissMemoryResource used by
// 2-5 threads (some started or joined mid-run, some alive across a release) under the
// schedule fuzzer; recording PageAllocator + recording std::pmr upstream; every block
// carries a canary; release() is issued only at quiescence (documented contract).
#include <babylon/reusable/allocator.h>
#include <babylon/reusable/memory_resource.h>

#include <sched.h>
#include <stdio.h>
#include <stdlib.h>
#include <string.h>

#include <atomic>
#include <map>
#include <memory>
#include <memory_resource>
#include <thread>
#include <vector>

#include "../engine/common/driver.h"

using vf::Chooser;

namespace {

using ::babylon::MonotonicBufferResource;
using ::babylon::PageAllocator;
using ::babylon::SharedMonotonicBufferResource;
using ::babylon::SwissMemoryResource;

struct World;
World* W = nullptr;

struct Block {
  char* ptr;
  size_t bytes, align;
  uint32_t serial;
  int thread;  // program thread that obtained it
  bool has_dtor;
};

struct RecPA final : public PageAllocator {
  size_t ps = 256;
  struct Page {
    char* base;
    int thread;
  };
  std::map<uintptr_t, Page> live;
  size_t allocs = 0, frees = 0;
  size_t page_size() const noexcept override { return ps; }
  using PageAllocator::allocate;
  using PageAllocator::deallocate;
  void allocate(void** pages, size_t num) noexcept override;
  void deallocate(void** pages, size_t num) noexcept override;
  ~RecPA() noexcept override {
    for (auto& kv : live) free(kv.second.base);
  }
};

struct RecUp final : public std::pmr::memory_resource {
  struct Blk {
    char* raw;
    size_t bytes, align;
    int thread;
  };
  std::map<uintptr_t, Blk> live;
  size_t live_bytes = 0, allocs = 0, frees = 0;
  void* do_allocate(size_t bytes, size_t alignment) override;
  void do_deallocate(void* p, size_t bytes, size_t alignment) override;
  bool do_is_equal(const std::pmr::memory_resource& o) const noexcept override { return this == &o; }
  ~RecUp() override {
    for (auto& kv : live) free(kv.second.raw);
  }
};

constexpr int MAXTH = 8;

struct World {
  RecPA pa;
  RecUp up;
  SharedMonotonicBufferResource* res = nullptr;
  SwissMemoryResource* swiss = nullptr;
  std::vector<Block> blocks;                  // live blocks (since the last release)
  std::map<uintptr_t, int> intervals;         // start -> index into blocks
  std::map<void*, int> dtor_reg;              // object -> index into blocks
  std::vector<int> dtor_stack[MAXTH];         // per program thread: registration order
  size_t dtors_pending = 0;
  bool releasing = false;
  bool dealloc_seen = false;
  bool running[MAXTH] = {};                   // thread body has started and not yet finished
  int cur_thread_of_tid[dsched::MAXT];        // scheduler tid -> program thread
  uint32_t serial = 0;
  size_t requested = 0;
  uint64_t first_begin[MAXTH], last_end[MAXTH];
  bool allocated_any[MAXTH] = {};
  size_t pages_returned = 0, dtors_run = 0, oversize_returned = 0;
};

int me() { return W->cur_thread_of_tid[dsched::tid()]; }

void RecPA::allocate(void** pages, size_t num) noexcept {
  for (size_t i = 0; i < num; i++) {
    char* base = (char*)aligned_alloc(2 * ps, 2 * ps);  // page = odd multiple of the page size
    if (!base) abort();
    memset(base, 0xCD, 2 * ps);
    char* page = base + ps;
    live[(uintptr_t)page] = Page{base, me()};
    allocs++;
    pages[i] = page;
    dsched::point();  // a preemption may land in the middle of an allocation
  }
}

void RecPA::deallocate(void** pages, size_t num) noexcept {
  for (size_t i = 0; i < num; i++) {
    auto it = live.find((uintptr_t)pages[i]);
    if (it == live.end()) dsched::fail("page-returned-once", "deallocate(%p): page is not outstanding (double or foreign free)", pages[i]);
    if (!W->releasing) dsched::fail("release-only", "page %p went back to the page allocator outside release()/destruction", pages[i]);
    if (W->dtors_pending) dsched::fail("destructors-before-memory", "page %p returned while %zu registered destructors have not run", pages[i], W->dtors_pending);
    W->dealloc_seen = true;
    memset(it->second.base, 0xDD, 2 * ps);
    free(it->second.base);
    live.erase(it);
    frees++;
    W->pages_returned++;
  }
}

void* RecUp::do_allocate(size_t bytes, size_t alignment) {
  if (alignment == 0 || (alignment & (alignment - 1))) dsched::fail("upstream-args", "allocate(%zu,%zu): alignment not a power of two", bytes, alignment);
  size_t raw_bytes = bytes + 3 * alignment + 16;
  char* raw = (char*)malloc(raw_bytes);
  if (!raw) abort();
  memset(raw, 0xCE, raw_bytes);
  uintptr_t a2 = ((uintptr_t)raw + 2 * alignment - 1) & ~(uintptr_t)(2 * alignment - 1);
  char* p = (char*)(a2 + alignment);
  live[(uintptr_t)p] = Blk{raw, bytes, alignment, me()};
  live_bytes += bytes;
  allocs++;
  dsched::point();
  return p;
}

void RecUp::do_deallocate(void* p, size_t bytes, size_t alignment) {
  auto it = live.find((uintptr_t)p);
  if (it == live.end()) dsched::fail("oversize-returned-once", "deallocate(%p,%zu,%zu): block is not outstanding", p, bytes, alignment);
  if (it->second.bytes != bytes || it->second.align != alignment)
    dsched::fail("oversize-same-size", "block %p obtained with (%zu,%zu) returned with (%zu,%zu)", p, it->second.bytes, it->second.align, bytes, alignment);
  if (!W->releasing) dsched::fail("release-only", "oversize block %p returned outside release()/destruction", p);
  if (W->dtors_pending) dsched::fail("destructors-before-memory", "oversize block %p returned while %zu destructors have not run", p, W->dtors_pending);
  W->dealloc_seen = true;
  live_bytes -= bytes;
  memset(it->second.raw, 0xDE, bytes + 3 * alignment + 16);
  free(it->second.raw);
  live.erase(it);
  frees++;
  W->oversize_returned++;
}

inline uint8_t canary(uint32_t serial, size_t i) { return (uint8_t)(serial * 131u + i * 7u + 0x5b); }

void verify_block(const Block& b, const char* when) {
  for (size_t i = 0; i < b.bytes; i++)
    if ((uint8_t)b.ptr[i] != canary(b.serial, i))
      dsched::fail("contents-stable", "%s: block #%u (%p, %zu bytes, thread %d) lost its contents at offset %zu: 0x%02x expected 0x%02x", when, b.serial,
                   (void*)b.ptr, b.bytes, b.thread, i, (unsigned)(uint8_t)b.ptr[i], (unsigned)canary(b.serial, i));
}

void on_destruct(void* p) {
  auto it = W->dtor_reg.find(p);
  if (it == W->dtor_reg.end()) dsched::fail("destructor-once", "destructor invoked for %p which is not registered (or already destroyed)", p);
  Block& b = W->blocks[(size_t)it->second];
  if (!W->releasing) dsched::fail("release-only", "destructor of %p ran outside release()/destruction", p);
  if (W->dealloc_seen) dsched::fail("destructors-before-memory", "destructor of %p ran after memory had been returned", p);
  auto& st = W->dtor_stack[b.thread];
  if (st.empty() || st.back() != it->second)
    dsched::fail("destructor-lifo", "objects registered by thread %d are not destroyed in reverse registration order (block #%u ran)", b.thread, b.serial);
  st.pop_back();
  verify_block(b, "inside its destructor");
  W->dtor_reg.erase(it);
  W->dtors_pending--;
  W->dtors_run++;
}

struct alignas(8) TObj {
  char payload[24];
  ~TObj() { on_destruct(this); }
};

struct Op {
  int kind;  // 0 allocate, 1 tracked object, 2 arena-created tracked object (swiss)
  size_t bytes, align;
  int form;
};

int admit(int th, char* p, size_t bytes, size_t align, bool has_dtor) {
  if (align && ((uintptr_t)p & (align - 1))) dsched::fail("aligned", "allocate(%zu,%zu) returned %p", bytes, align, (void*)p);
  W->requested += bytes;
  if (bytes == 0) return -1;
  if (!p) dsched::fail("aligned", "allocate(%zu,%zu) returned null", bytes, align);
  size_t ps = W->pa.ps;
  uintptr_t page = (uintptr_t)p & ~(uintptr_t)(ps - 1);
  auto pit = W->pa.live.find(page);
  bool placed = false;
  if (pit != W->pa.live.end()) {
    if ((uintptr_t)p + bytes > page + ps) dsched::fail("inside-owned-memory", "block %p (%zu bytes) runs past the end of its page", (void*)p, bytes);
    int owner = pit->second.thread;
    if (owner != th && W->running[owner])
      dsched::fail("one-resource-per-thread", "thread %d got block %p inside a page obtained by thread %d which is still running", th, (void*)p, owner);
    if (owner != th) dsched::label("block_in_page_inherited_from_finished_thread");
    placed = true;
  } else {
    auto it = W->up.live.upper_bound((uintptr_t)p);
    if (it != W->up.live.begin()) {
      --it;
      if ((uintptr_t)p >= it->first && (uintptr_t)p + bytes <= it->first + it->second.bytes) placed = true;
    }
  }
  if (!placed) dsched::fail("inside-owned-memory", "block %p (%zu bytes) lies neither in an outstanding page nor in an outstanding oversize block", (void*)p, bytes);
  auto nx = W->intervals.lower_bound((uintptr_t)p);
  if (nx != W->intervals.end() && nx->first < (uintptr_t)p + bytes) {
    Block& o = W->blocks[(size_t)nx->second];
    dsched::fail("disjoint", "block %p (%zu bytes, thread %d) overlaps block #%u %p (%zu bytes, thread %d)", (void*)p, bytes, th, o.serial, (void*)o.ptr, o.bytes, o.thread);
  }
  if (nx != W->intervals.begin()) {
    auto pv = std::prev(nx);
    Block& o = W->blocks[(size_t)pv->second];
    if ((uintptr_t)o.ptr + o.bytes > (uintptr_t)p)
      dsched::fail("disjoint", "block %p (%zu bytes, thread %d) overlaps block #%u %p (%zu bytes, thread %d)", (void*)p, bytes, th, o.serial, (void*)o.ptr, o.bytes, o.thread);
  }
  Block b{p, bytes, align, ++W->serial, th, has_dtor};
  int bi = (int)W->blocks.size();
  W->blocks.push_back(b);
  W->intervals[(uintptr_t)p] = bi;
  for (size_t i = 0; i < bytes; i++) {
    p[i] = (char)canary(b.serial, i);
    if (i == bytes / 2) dsched::point();  // filling is not atomic either
  }
  dsched::mix_hash(((uint64_t)th << 32) ^ (bytes * 131 + align));
  return bi;  // (other threads may have appended blocks meanwhile: the fill above contains schedule points)
}

void run_ops(int th, const std::vector<Op>& ops) {
  size_t first = W->blocks.size();
  (void)first;
  for (const Op& op : ops) {
    if (!W->allocated_any[th]) {
      W->allocated_any[th] = true;
      W->first_begin[th] = dsched::step();
    }
    if (op.kind == 0) {
      char* p = nullptr;
      switch (op.form) {
        case 0: p = (char*)W->res->allocate(op.bytes, op.align); break;
        case 1: p = op.align == 8 ? (char*)W->res->allocate<8>(op.bytes) : op.align == 64 ? (char*)W->res->allocate<64>(op.bytes) : (char*)W->res->allocate<1>(op.bytes); break;
        case 2: p = (char*)static_cast<MonotonicBufferResource*>(W->res)->allocate(op.bytes, op.align); break;
        default: {
          std::pmr::memory_resource* mr = W->res;
          p = (char*)mr->allocate(op.bytes, op.align);
          mr->deallocate(p, op.bytes, op.align);
          break;
        }
      }
      admit(th, p, op.bytes, op.align, false);
    } else if (op.kind == 1) {
      char* p = (char*)W->res->allocate<alignof(TObj)>(sizeof(TObj));
      int bi = admit(th, p, sizeof(TObj), alignof(TObj), true);
      W->dtor_reg[p] = bi;
      W->dtor_stack[th].push_back(bi);
      W->dtors_pending++;
      switch (op.form) {
        case 0: W->res->register_destructor((void*)p, &on_destruct); break;
        case 1: W->res->register_destructor(reinterpret_cast<TObj*>(p)); break;
        case 2: {
          auto* task = W->res->get_destroy_task();
          task->ptr = p;
          task->destructor = &on_destruct;
          break;
        }
        default: static_cast<MonotonicBufferResource*>(W->res)->register_destructor((void*)p, &on_destruct); break;
      }
    } else {
      // the protobuf arena view of a SwissMemoryResource: memory and clean-up go through the resource
      ::google::protobuf::Arena& arena = *W->swiss;
      TObj* o = ::google::protobuf::Arena::Create<TObj>(&arena);
      char* p = (char*)o;
      int bi = admit(th, p, sizeof(TObj), alignof(TObj), true);
      W->dtor_reg[p] = bi;
      W->dtor_stack[th].push_back(bi);
      W->dtors_pending++;
    }
    W->last_end[th] = dsched::step();
  }
  // what this thread wrote is still there
  for (auto& b : W->blocks)
    if (b.thread == th) verify_block(b, "at the end of its thread's operations");
}

void quiescent_checks(const char* when) {
  for (auto& b : W->blocks) verify_block(b, when);
  for (auto& b : W->blocks)
    if (!W->res->contains(b.ptr) || !W->res->contains(b.ptr + b.bytes - 1))
      dsched::fail("contains", "%s: contains() is false for a byte of block #%u (%p, %zu bytes, thread %d)", when, b.serial, (void*)b.ptr, b.bytes, b.thread);
  int local = 0;
  if (W->res->contains(&local)) dsched::fail("contains", "%s: contains(stack address) is true", when);
  size_t used = W->res->space_used(), allocated = W->res->space_allocated();
  if (used < W->requested) dsched::fail("accounting", "%s: space_used()=%zu < %zu bytes handed out", when, used, W->requested);
  size_t held = W->pa.live.size() * W->pa.ps + W->up.live_bytes;
  if (allocated != held) dsched::fail("accounting", "%s: space_allocated()=%zu but %zu pages of %zu bytes and %zu upstream bytes are outstanding", when, allocated, W->pa.live.size(), W->pa.ps, W->up.live_bytes);
}

void after_release(const char* how) {
  if (W->dtors_pending) dsched::fail("destructor-once", "%s: %zu registered destructors did not run", how, W->dtors_pending);
  if (!W->pa.live.empty()) dsched::fail("page-returned-once", "%s: %zu pages were not returned", how, W->pa.live.size());
  if (!W->up.live.empty()) dsched::fail("oversize-returned-once", "%s: %zu oversize blocks were not returned", how, W->up.live.size());
  W->blocks.clear();
  W->intervals.clear();
  W->requested = 0;
  W->dealloc_seen = false;
  for (auto& s : W->dtor_stack) s.clear();
}

struct ThreadPlan {
  std::vector<Op> round[2];
  bool persistent = false;  // lives across the release between the rounds
  int spawn_after[2] = {0, 0};  // main thread's op index before which it is started (per round)
  int join_after[2] = {-1, -1};  // main op index after which it is joined (-1 = at the end of the round)
};

void run_case(Chooser& c) {
  World world;
  W = &world;
  for (auto& x : world.cur_thread_of_tid) x = 0;
  static const size_t PS[] = {256, 128, 512, 1024};
  world.pa.ps = PS[c.below(4)];
  bool swiss = c.flip();
  int nthreads = c.range(1, 3);  // besides the main thread
  if (c.chance(1, 6)) nthreads = 4;
  bool two_rounds = c.flip();
  bool destroy_instead = c.chance(1, 3);  // the final release is the destructor
  size_t ps = world.pa.ps;

  std::unique_ptr<SharedMonotonicBufferResource> shared;
  std::unique_ptr<SwissMemoryResource> sw;
  if (swiss) {
    sw.reset(new SwissMemoryResource(world.pa));
    sw->set_upstream(world.up);
    world.res = sw.get();
    world.swiss = sw.get();
  } else {
    shared.reset(new SharedMonotonicBufferResource(world.pa));
    shared->set_upstream(world.up);
    world.res = shared.get();
  }
  dsched::describe("%s ps=%zu threads=%d rounds=%d final=%s;", swiss ? "Swiss" : "Shared", ps, nthreads, two_rounds ? 2 : 1, destroy_instead ? "destroy" : "release");
  dsched::label(swiss ? "swiss" : "shared");

  auto gen_ops = [&](int n, std::vector<Op>& out) {
    for (int i = 0; i < n; i++) {
      Op op{};
      unsigned k = c.below(10);
      if (k < 6) {
        op.kind = 0;
        unsigned cls = c.below(8);
        unsigned d = c.below(17);
        switch (cls) {
          case 0: op.bytes = 1 + d; break;
          case 1: op.bytes = ps / 2 + d; break;
          case 2: op.bytes = (ps >= 136 ? ps - 136 : 0) + d; break;
          case 3: op.bytes = ps - d; break;
          case 4: op.bytes = ps + 1 + d; break;
          case 5: op.bytes = 2 * ps + d; break;
          case 6: op.bytes = d == 0 ? 0 : 24 * d; break;
          default: op.bytes = 8 * d; break;
        }
        op.form = (int)c.below(4);
        if (op.form == 1) {
          static const size_t A[] = {8, 64, 1};
          op.align = A[c.below(3)];
        } else {
          op.align = (size_t)1 << c.below(4 + (ps >= 512 ? 7 : 6));  // up to 2*page for the small pages
          if (op.align > 2 * ps) op.align = 2 * ps;
        }
      } else if (k < 9 || !swiss) {
        op.kind = 1;
        op.form = (int)c.below(4);
      } else {
        op.kind = 2;
      }
      out.push_back(op);
      if (op.kind == 0) dsched::describe("A%d(%zu,%zu)", op.form, op.bytes, op.align);
      else if (op.kind == 1) dsched::describe("D%d", op.form);
      else dsched::describe("ArenaObj");
      dsched::describe(i + 1 < n ? "," : "");
      dsched::label(op.kind == 0 ? (op.bytes > ps || op.align > ps ? "op_oversize" : "op_allocate") : op.kind == 1 ? "op_destructor" : "op_arena_object");
    }
  };

  int rounds = two_rounds ? 2 : 1;
  std::vector<Op> main_ops[2];
  std::vector<ThreadPlan> plans((size_t)nthreads);
  for (int r = 0; r < rounds; r++) {
    dsched::describe(" R%d main[", r);
    gen_ops(c.range(0, 4), main_ops[r]);
    dsched::describe("]");
    for (int t = 0; t < nthreads; t++) {
      ThreadPlan& p = plans[(size_t)t];
      if (r == 0) p.persistent = two_rounds && c.chance(1, 3);
      dsched::describe(" T%d%s[", t + 1, p.persistent ? "p" : "");
      gen_ops(c.range(1, 5), p.round[r]);
      int nmain = (int)main_ops[r].size();
      p.spawn_after[r] = c.range(0, nmain);
      p.join_after[r] = c.chance(1, 3) ? c.range(p.spawn_after[r], nmain) : -1;
      dsched::describe("]@%d..%d", p.spawn_after[r], p.join_after[r]);
    }
  }

  std::atomic<int> arrived{0};
  std::atomic<int> phase{0};
  std::vector<std::thread> threads((size_t)nthreads);
  std::vector<bool> joined((size_t)nthreads, true);
  bool overlapped = false;
  size_t total_pages_returned = 0, total_dtors = 0, total_oversize = 0;
  int npersist = 0;

  auto body = [&](int t, int r) {
    ThreadPlan& p = plans[(size_t)t];
    int th = t + 1;
    world.cur_thread_of_tid[dsched::tid()] = th;
    world.running[th] = true;
    run_ops(th, p.round[r]);
    if (r == 0 && p.persistent) {
      arrived.fetch_add(1);
      while (phase.load() < 1) sched_yield();
      run_ops(th, p.round[1]);
    }
    world.running[th] = false;
  };

  world.running[0] = true;
  for (int r = 0; r < rounds; r++) {
    int nmain = (int)main_ops[r].size();
    for (int i = 0; i <= nmain; i++) {
      for (int t = 0; t < nthreads; t++) {
        ThreadPlan& p = plans[(size_t)t];
        bool starts_here = p.spawn_after[r] == i && !(r == 1 && p.persistent);
        if (starts_here) {
          threads[(size_t)t] = std::thread(body, t, r);
          joined[(size_t)t] = false;
          if (r == 0 && p.persistent) npersist++;
        }
      }
      if (i < nmain) {
        std::vector<Op> one{main_ops[r][(size_t)i]};
        run_ops(0, one);
      }
      for (int t = 0; t < nthreads; t++) {
        ThreadPlan& p = plans[(size_t)t];
        if (p.join_after[r] == i && !joined[(size_t)t] && !(r == 0 && p.persistent)) {
          threads[(size_t)t].join();
          joined[(size_t)t] = true;
          dsched::label("joined_mid_run");
        }
      }
    }
    // quiescence: everything that is not persistent is joined, persistent threads are parked at the barrier
    for (int t = 0; t < nthreads; t++) {
      ThreadPlan& p = plans[(size_t)t];
      bool parked = r == 0 && p.persistent && rounds == 2;
      if (!joined[(size_t)t] && !parked) {
        threads[(size_t)t].join();
        joined[(size_t)t] = true;
      }
    }
    if (r == 0 && rounds == 2)
      while (arrived.load() < npersist) sched_yield();
    // overlap statistics
    for (int a = 0; a <= nthreads; a++)
      for (int b = a + 1; b <= nthreads; b++)
        if (world.allocated_any[a] && world.allocated_any[b] && world.first_begin[a] < world.last_end[b] && world.first_begin[b] < world.last_end[a]) overlapped = true;
    quiescent_checks(r + 1 < rounds ? "before the mid-run release" : "before the final release");
    bool last = r + 1 == rounds;
    world.releasing = true;
    world.dealloc_seen = false;
    if (last && destroy_instead) {
      shared.reset();
      sw.reset();
      world.res = nullptr;
    } else {
      world.res->release();
    }
    world.releasing = false;
    after_release(last && destroy_instead ? "after destruction" : "after release()");
    if (world.res && (world.res->space_used() != 0 || world.res->space_allocated() != 0))
      dsched::fail("accounting", "after release(): space_used()=%zu space_allocated()=%zu", world.res->space_used(), world.res->space_allocated());
    total_pages_returned += world.pages_returned;
    total_dtors += world.dtors_run;
    total_oversize += world.oversize_returned;
    world.pages_returned = world.dtors_run = world.oversize_returned = 0;
    for (int a = 0; a <= nthreads; a++) world.allocated_any[a] = false;
    if (!last) {
      dsched::label("mid_run_release");
      if (npersist) dsched::label("release_with_parked_threads");
      phase.store(1);
    }
  }
  for (int t = 0; t < nthreads; t++)
    if (!joined[(size_t)t]) threads[(size_t)t].join();
  if (world.res) {
    // reusable after the last release, then destroyed
    std::vector<Op> one{Op{0, 40, 8, 0}, Op{1, 0, 0, 0}};
    run_ops(0, one);
    quiescent_checks("after re-use");
    world.releasing = true;
    shared.reset();
    sw.reset();
    world.res = nullptr;
    world.releasing = false;
    after_release("after destruction");
  }
  if (world.pa.allocs != world.pa.frees) dsched::fail("page-returned-once", "%zu pages obtained, %zu returned", world.pa.allocs, world.pa.frees);
  if (world.up.allocs != world.up.frees) dsched::fail("oversize-returned-once", "%zu oversize blocks obtained, %zu returned", world.up.allocs, world.up.frees);
  if (overlapped) dsched::label("threads_overlapped");
  if (total_oversize) dsched::label("oversize_returned");
  if (total_dtors) dsched::label("destructors_run");
  if (world.pa.allocs > 15) dsched::label("more_than_15_pages");
  if (overlapped && dsched::stat_switches() >= 2 && total_pages_returned > 0 && (total_dtors > 0 || total_oversize > 0)) dsched::nontrivial();
  W = nullptr;
}

void tune(dsched::Params& p, Chooser&) { p.max_steps = 400000; }

}  // namespace

int main(int argc, char** argv) {
  vf::Target t;
  t.name = "c06_shared";
  t.property_id = "C06";
  t.run_case = run_case;
  t.tune = tune;
  t.nontrivial_rule =
      "two threads' allocation sequences overlapped in step time with >= 2 context switches, and the quiescent release returned pages and "
      "ran a registered destructor or returned an oversize block";
  return vf::main_driver(argc, argv, t);
}
