// C08: Future / Promise / CountDownLatch under the schedule + clock fuzzer.
//   scenario F  one Promise<Val, M>: thread 0 registers strictly before, 1-4 threads overlap the
//               setter, 0-3 threads start after set_value returned; ops get / wait_for(t) / ready /
//               on_finish (4 callback forms) / then (chains <= 2, value and void results).
//   scenario L  CountDownLatch<M>(0..4) counted down from several threads with down 1..2, complete
//               (sum == count) or partial (sum < count, must never become ready).
//   M is babylon::SchedInterface or a harness interface with futex_need_create() == true whose
//   futexes are registered (use after destroy / double destroy / leak are reported).
// All time is dsched's virtual clock.
#include <babylon/future.h>

#include <stdarg.h>
#include <stdio.h>
#include <string.h>
#include <unistd.h>

#include <atomic>
#include <chrono>
#include <functional>
#include <memory>
#include <mutex>
#include <thread>
#include <vector>

#include "../engine/common/driver.h"

using dsched::Tracked;
using vf::Chooser;

namespace {

constexpr uint64_t LIVE = 0xC0FFEE11C0FFEE11ULL;
constexpr uint64_t DEAD = 0xDEADDEADDEADDEADULL;
constexpr uint64_t NEVER = ~0ULL;

struct CbRec {
  int reg_tid = -1;
  int runs = 0;
  int run_tid = -1;
  bool latch = false;
};
struct Interval {
  uint64_t b, e;
};

struct World {
  uint64_t x = 0;
  // value life cycle
  int ctor_count = 0;
  bool ctor_done = false;
  uint64_t ctor_done_step = NEVER;
  int live_vals = 0;
  // setter
  int setter_tid = -1;
  bool set_returned = false;
  uint64_t set_end_step = NEVER;
  int64_t set_end_ns = 0;
  dsched::Stamp set_end_stamp{};
  // latch
  size_t latch_count = 0;
  size_t down_begun = 0;
  size_t down_returned = 0;
  std::vector<dsched::Stamp> down_stamps;
  uint64_t last_down_begin_step = NEVER;
  // callbacks / ops
  std::vector<CbRec> cbs;
  std::vector<Interval> ops;
  // harness sched interface
  struct Fx {
    uint32_t* p;
    bool alive;
  };
  std::vector<Fx> futexes;
  int futex_waits[dsched::MAXT] = {};
  uint64_t hist = 0;
  World() { cbs.reserve(256); }
};
World* W;

void descf(const char* fmt, ...) __attribute__((format(printf, 1, 2)));
void descf(const char* fmt, ...) {
  char buf[256];
  va_list ap;
  va_start(ap, fmt);
  vsnprintf(buf, sizeof buf, fmt, ap);
  va_end(ap);
  dsched::describe("%s", buf);
}
void mix(uint64_t v) { W->hist = W->hist * 1000003 + v + 1; }

// see c14_ids.cpp: every thread of the case is created before the first join
struct Pool {
  struct Slot {
    std::mutex gate;
    std::function<void()> body;
    std::thread th;
    bool started = false, joined = false;
  };
  std::vector<std::unique_ptr<Slot>> s;
  explicit Pool(int n) {
    for (int i = 0; i < n; i++) {
      s.emplace_back(new Slot);
      Slot* p = s.back().get();
      p->gate.lock();
      p->th = std::thread([p] {
        p->gate.lock();
        p->gate.unlock();
        if (p->body) p->body();
      });
    }
  }
  void start(int i, std::function<void()> f) {
    Slot* p = s[(size_t)i].get();
    p->body = std::move(f);
    p->started = true;
    p->gate.unlock();
  }
  void join(int i) {
    Slot* p = s[(size_t)i].get();
    if (!p->started) start(i, nullptr);
    if (!p->joined) {
      p->th.join();
      p->joined = true;
    }
  }
  ~Pool() {
    for (size_t i = 0; i < s.size(); i++) join((int)i);
  }
};

////////////////////////////////////////////////////////////////////////////////
// a scheduling interface that needs explicit futex creation
struct HarnessSched {
  static constexpr bool futex_need_create() noexcept { return true; }
  static World::Fx* find(uint32_t* p) {
    for (auto it = W->futexes.rbegin(); it != W->futexes.rend(); ++it)
      if (it->p == p) return &*it;
    return nullptr;
  }
  static uint32_t* create_futex() noexcept {
    uint32_t* p = new uint32_t(0xA5A5A5A5u);
    World::Fx* f = find(p);
    if (f && f->alive) dsched::fail("harness", "allocator returned a live futex address");
    W->futexes.push_back(World::Fx{p, true});
    return p;
  }
  static void destroy_futex(uint32_t* p) noexcept {
    World::Fx* f = find(p);
    if (!f) dsched::fail("futex-lifetime", "destroy_futex(%p) of a futex that was never created", (void*)p);
    if (!f->alive) dsched::fail("futex-lifetime", "futex %p destroyed twice", (void*)p);
    f->alive = false;
    dsched::on_free(p, sizeof *p);
    delete p;
  }
  static void must_live(uint32_t* p, const char* what) {
    World::Fx* f = find(p);
    if (!f || !f->alive) dsched::fail("futex-lifetime", "%s on a futex that is %s", what, f ? "already destroyed" : "unknown");
  }
  static int futex_wait(uint32_t* p, uint32_t val, const struct ::timespec* to) noexcept {
    must_live(p, "futex_wait");
    int t = dsched::tid();
    if (t >= 0) W->futex_waits[t]++;
    return babylon::SchedInterface::futex_wait(p, val, to);
  }
  static int futex_wake_one(uint32_t* p) noexcept {
    must_live(p, "futex_wake_one");
    return babylon::SchedInterface::futex_wake_one(p);
  }
  static int futex_wake_all(uint32_t* p) noexcept {
    must_live(p, "futex_wake_all");
    return babylon::SchedInterface::futex_wake_all(p);
  }
  static void usleep(useconds_t us) noexcept { babylon::SchedInterface::usleep(us); }
  static void yield() noexcept { babylon::SchedInterface::yield(); }
};
template <class M>
constexpr bool is_harness_sched() { return std::is_same<M, HarnessSched>::value; }

////////////////////////////////////////////////////////////////////////////////
struct Val {
  uint64_t canary;
  Tracked<uint64_t> a;
  Tracked<uint64_t> b;
  explicit Val(uint64_t x) {
    if (++W->ctor_count > 1) dsched::fail("value-lifetime", "the promised value was constructed %d times", W->ctor_count);
    W->live_vals++;
    canary = LIVE;
    a.set(x, "value.a");
    dsched::point();
    b.set(~x, "value.b");
    W->ctor_done = true;
    W->ctor_done_step = dsched::step();
  }
  Val(const Val&) = delete;
  Val& operator=(const Val&) = delete;
  ~Val() {
    if (canary != LIVE) dsched::fail("value-lifetime", "value destroyed twice or never constructed (canary %lx)", (unsigned long)canary);
    canary = DEAD;
    W->live_vals--;
  }
};

void check_value(const Val& v, const char* who) {
  if (!W->ctor_done) dsched::fail("value-before-set", "%s obtained the value before set_value finished constructing it", who);
  if (v.canary != LIVE) dsched::fail("value-lifetime", "%s sees a value that is not constructed / already destroyed (canary %lx)", who, (unsigned long)v.canary);
  uint64_t a = v.a.get("value.a");
  uint64_t b = v.b.get("value.b");
  if (a != W->x || b != ~W->x) dsched::fail("value", "%s sees value a=%lx b=%lx, set_value(%lx)", who, (unsigned long)a, (unsigned long)b, (unsigned long)W->x);
}

int new_cb(bool latch = false) {
  if (W->cbs.size() >= 250) dsched::discard("too many callbacks");
  CbRec r;
  r.reg_tid = dsched::tid();
  r.latch = latch;
  W->cbs.push_back(r);
  return (int)W->cbs.size() - 1;
}
void on_cb(int idx, const Val* v) {
  CbRec& r = W->cbs[(size_t)idx];
  if (++r.runs > 1) dsched::fail("callback-once", "callback #%d ran %d times", idx, r.runs);
  r.run_tid = dsched::tid();
  if (r.latch) {
    if (W->down_begun != W->latch_count)
      dsched::fail("latch-early", "latch callback ran after count_down calls worth %zu of %zu had begun", W->down_begun, W->latch_count);
  } else if (!W->ctor_done) {
    dsched::fail("callback-before-set", "callback #%d ran before the value was constructed by set_value", idx);
  }
  dsched::point();
  if (v) check_value(*v, "callback");
  dsched::label(r.run_tid == r.reg_tid ? "cb_ran_in_registering_thread" : "cb_ran_in_setter_thread");
}

////////////////////////////////////////////////////////////////////////////////
// timeouts
struct Timeout {
  const char* name;
  int64_t eff_ns;  // max(t, 0)
};
const Timeout TMO[] = {{"0", 0},           {"-1ns", 0},           {"INT64_MIN", 0},          {"-5ms", 0},           {"1ns", 1},
                       {"1us", 1000},      {"1ms", 1000000},      {"10s", 10000000000LL},    {"2^62ns", 1LL << 62}};
constexpr int N_TMO = 9, N_TMO_FINITE_SMALL = 7;
template <class F>
bool wait_with(F& f, int sel) {
  namespace ch = std::chrono;
  switch (sel) {
    case 0: return f.wait_for(ch::nanoseconds(0));
    case 1: return f.wait_for(ch::nanoseconds(-1));
    case 2: return f.wait_for(ch::nanoseconds(INT64_MIN));
    case 3: return f.wait_for(ch::milliseconds(-5));
    case 4: return f.wait_for(ch::nanoseconds(1));
    case 5: return f.wait_for(ch::microseconds(1));
    case 6: return f.wait_for(ch::milliseconds(1));
    case 7: return f.wait_for(ch::seconds(10));
    default: return f.wait_for(ch::nanoseconds(1LL << 62));
  }
}

// wait_for with the complete timing oracle. `is_set` = the value is known to be published for this thread.
template <class F>
bool timed_wait(F& f, int sel, bool after, const char* what) {
  int64_t t0 = dsched::now_ns();
  bool r = wait_with(f, sel);
  int64_t t1 = dsched::now_ns();
  int64_t eff = TMO[sel].eff_ns;
  if (r) {
    dsched::label("wait_for_true");
  } else {
    dsched::label("wait_for_false");
    if (after) dsched::fail("after-set", "%s: wait_for(%s) returned false although set_value had returned before the call", what, TMO[sel].name);
    if (t1 - t0 < eff)
      dsched::fail("wait-for-early", "%s: wait_for(%s) returned false after only %ld ns of virtual time", what, TMO[sel].name, (long)(t1 - t0));
    // a waiter that sleeps through its whole (long) timeout although the value was published long before the deadline
    if (W->set_returned && eff >= 5000000000LL && W->set_end_ns + 1000000000LL < t0 + eff)
      dsched::fail("lost-wakeup", "%s: wait_for(%s) timed out at +%ld ns although set_value returned at %ld ns, the wait began at %ld ns", what,
                   TMO[sel].name, (long)(t1 - t0), (long)W->set_end_ns, (long)t0);
  }
  mix((uint64_t)sel * 2 + (r ? 1 : 0));
  return r;
}

////////////////////////////////////////////////////////////////////////////////
// scenario F
enum OpKind { O_GET, O_WAIT, O_READY, O_ONFIN, O_THEN };
const char* op_name[] = {"get", "wait_for", "ready", "on_finish", "then"};
struct Op {
  OpKind kind;
  int tmo;      // O_WAIT and the wait_for consumer of then
  int form;     // callback form 0..3
  int chain;    // 1: then->u64, 2: then->then, 3: then->void
  int consume;  // how the then-future is consumed: 0 get, 1 wait_for(10s)+get, 2 on_finish, 3 ready only
  bool copy;    // operate on a fresh copy of the future
};

template <class M>
struct FutureCase {
  using Fut = babylon::Future<Val, M>;
  using Prom = babylon::Promise<Val, M>;
  struct Deferred {
    babylon::Future<uint64_t, M> f;
    uint64_t expect;
  };
  // then-futures whose result is collected at the end. One list per thread: copying a Future contains
  // schedule points (reference count), so a container shared between threads would be corrupted.
  std::vector<Deferred> deferred_by[dsched::MAXT];
  std::vector<babylon::Future<void, M>> deferred_void_by[dsched::MAXT];
  std::vector<Deferred>& my_deferred() { return deferred_by[dsched::tid() < 0 ? 0 : dsched::tid()]; }
  std::vector<babylon::Future<void, M>>& my_deferred_void() { return deferred_void_by[dsched::tid() < 0 ? 0 : dsched::tid()]; }

  bool after_set() { return W->set_returned && dsched::ordered_after(W->set_end_stamp); }
  int waits_now() {
    int t = dsched::tid();
    return t >= 0 ? W->futex_waits[t] : 0;
  }

  void register_cb(Fut& f, int form, bool after) {
    int idx = new_cb();
    switch (form) {
      case 0: f.on_finish([idx](Val& v) { on_cb(idx, &v); }); break;
      case 1: f.on_finish([idx](const Val& v) { on_cb(idx, &v); }); break;
      case 2: f.on_finish([idx](Val&& v) { on_cb(idx, &v); }); break;
      default: f.on_finish([idx]() { on_cb(idx, nullptr); }); break;
    }
    int runs = W->cbs[(size_t)idx].runs;
    if (after && runs != 1)
      dsched::fail("after-set", "on_finish registered after set_value had returned came back with the callback run %d times (must run in place)", runs);
    dsched::label(runs ? "on_finish_ran_inline" : "on_finish_queued");
    mix((uint64_t)runs);
  }

  void consume_u64(babylon::Future<uint64_t, M> f, uint64_t expect, int consume, bool after, bool may_block) {
    if (!may_block && consume <= 1) consume = 4;
    switch (consume) {
      case 0: {
        uint64_t got = f.get();
        if (got != expect) dsched::fail("then-value", "then-future carries %lu, expected f(v) = %lu", (unsigned long)got, (unsigned long)expect);
        break;
      }
      case 1: {
        bool r = timed_wait(f, 7, after, "then-future");
        if (r) {
          uint64_t got = f.get();
          if (got != expect) dsched::fail("then-value", "then-future carries %lu, expected f(v) = %lu", (unsigned long)got, (unsigned long)expect);
        } else {
          my_deferred().push_back(Deferred{f, expect});
        }
        break;
      }
      case 2: {
        int idx = new_cb();
        f.on_finish([idx, expect](uint64_t& y) {
          on_cb(idx, nullptr);
          if (y != expect) dsched::fail("then-value", "callback on then-future sees %lu, expected %lu", (unsigned long)y, (unsigned long)expect);
        });
        if (after && W->cbs[(size_t)idx].runs != 1) dsched::fail("after-set", "on_finish on a then-future of a ready future did not run in place");
        break;
      }
      case 3: {
        bool r = f.ready();
        if (after && !r) dsched::fail("after-set", "then-future of a future whose set_value had returned is not ready");
        if (r) {
          uint64_t got = f.get();
          if (got != expect) dsched::fail("then-value", "ready then-future carries %lu, expected %lu", (unsigned long)got, (unsigned long)expect);
        } else {
          my_deferred().push_back(Deferred{f, expect});
        }
        break;
      }
      default:
        my_deferred().push_back(Deferred{f, expect});
        break;
    }
  }

  void do_then(Fut& f, const Op& op, bool after, bool may_block) {
    int idx = new_cb();
    uint64_t e1 = W->x * 2 + 1;
    if (op.chain == 3) {
      babylon::Future<void, M> fv = f.then([idx](Val& v) { on_cb(idx, &v); });
      if (after && !fv.ready()) dsched::fail("after-set", "void then-future of a ready future is not ready");
      if (may_block && op.consume == 0) fv.get();
      my_deferred_void().push_back(fv);
      return;
    }
    babylon::Future<uint64_t, M> f2 = f.then([idx](Val& v) -> uint64_t {
      on_cb(idx, &v);
      return v.a.peek() * 2 + 1;
    });
    if (after && W->cbs[(size_t)idx].runs != 1) dsched::fail("after-set", "then() on a ready future did not run its callback in place");
    if (op.chain == 1) {
      consume_u64(f2, e1, op.consume, after, may_block);
      return;
    }
    int idx2 = new_cb();
    babylon::Future<uint64_t, M> f3 = f2.then([idx2, e1](uint64_t& y) -> uint64_t {
      on_cb(idx2, nullptr);
      if (y != e1) dsched::fail("then-value", "second then-stage sees %lu, expected %lu", (unsigned long)y, (unsigned long)e1);
      return y + 7;
    });
    consume_u64(f3, e1 + 7, op.consume, after, may_block);
  }

  // may_block = false for thread 0 before the setter exists
  void do_op(Fut& base, const Op& op, bool may_block) {
    uint64_t s0 = dsched::step();
    bool after = after_set();
    int w0 = waits_now();
    Fut copy;
    if (op.copy) copy = base;
    Fut& f = op.copy ? copy : base;
    dsched::label(op_name[op.kind]);
    switch (op.kind) {
      case O_GET: {
        Val& v = f.get();
        check_value(v, "get()");
        if (after && is_harness_sched<M>() && waits_now() != w0)
          dsched::fail("after-set", "get() after set_value had returned went to sleep on the futex");
        // the value has reached this thread: the future is ready for it from now on
        if (!f.ready()) dsched::fail("ready-after-get", "ready() == false after get() returned the value");
        break;
      }
      case O_WAIT: {
        bool r = timed_wait(f, op.tmo, after, "future");
        if (r) {
          if (!W->ctor_done) dsched::fail("value-before-set", "wait_for returned true before set_value constructed the value");
          int w1 = waits_now();
          Val& v = f.get();
          check_value(v, "get() after wait_for == true");
          if (is_harness_sched<M>() && waits_now() != w1) dsched::fail("wait-for-true", "get() slept although wait_for had just returned true");
          if (!f.ready()) dsched::fail("ready-after-get", "ready() == false after wait_for returned true");
        }
        break;
      }
      case O_READY: {
        bool r = f.ready();
        if (after && !r) dsched::fail("after-set", "ready() == false although set_value had returned before the call");
        if (r) {
          if (!W->ctor_done) dsched::fail("value-before-set", "ready() == true before set_value constructed the value");
          Val& v = f.get();
          check_value(v, "get() after ready()");
          dsched::label("ready_true");
        } else {
          dsched::label("ready_false");
        }
        mix(r);
        break;
      }
      case O_ONFIN:
        register_cb(f, op.form, after);
        break;
      case O_THEN:
        do_then(f, op, after, may_block);
        break;
    }
    W->ops.push_back(Interval{s0, dsched::step()});
  }

  static Op decode_op(Chooser& c, bool pre) {
    static const OpKind kinds[] = {O_ONFIN, O_GET, O_WAIT, O_READY, O_THEN, O_ONFIN, O_WAIT, O_GET};
    static const OpKind pre_kinds[] = {O_ONFIN, O_THEN, O_READY, O_WAIT};
    Op op{};
    op.kind = pre ? c.pick(pre_kinds) : c.pick(kinds);
    op.tmo = (int)c.below(pre ? N_TMO_FINITE_SMALL : N_TMO);
    op.form = (int)c.below(4);
    op.chain = c.range(1, 3);
    op.consume = (int)c.below(4);
    op.copy = c.flip();
    descf("%s", op_name[op.kind]);
    if (op.kind == O_WAIT) descf("(%s)", TMO[op.tmo].name);
    if (op.kind == O_ONFIN) descf("(form%d)", op.form);
    if (op.kind == O_THEN) descf("(chain%d,consume%d)", op.chain, op.consume);
    if (op.copy) descf("'");
    return op;
  }

  void run(Chooser& c) {
    W->x = 0x1000 + c.below(1000);
    int n_pre = c.range(0, 3);
    int n_early = c.range(1, 4);
    int n_late = c.range(0, 3);
    int delay = (int)c.below(5);  // setter: 0 none, 1 a few yields, 2 usleep(1ms), 3 usleep(20s), 4 many yields
    bool drop_promise = c.flip();
    static const char* delay_name[] = {"none", "yield3", "sleep1ms", "sleep20s", "yield12"};
    descf("Future<%s> x=%lx setter(delay=%s%s)", is_harness_sched<M>() ? "HarnessSched" : "SchedInterface", (unsigned long)W->x, delay_name[delay],
          drop_promise ? ",drops promise" : "");
    std::vector<Op> pre;
    descf(" pre[");
    for (int i = 0; i < n_pre; i++) {
      if (i) descf(",");
      pre.push_back(decode_op(c, true));
    }
    descf("]");
    std::vector<std::vector<Op>> plans((size_t)(n_early + n_late));
    for (int t = 0; t < n_early + n_late; t++) {
      int nops = c.range(1, 4);
      descf(" %s%d[", t < n_early ? "E" : "L", t + 1);
      for (int i = 0; i < nops; i++) {
        if (i) descf(",");
        plans[(size_t)t].push_back(decode_op(c, false));
      }
      descf("]");
    }

    {
      Pool pool(1 + n_early + n_late);
      auto prom = std::make_unique<Prom>();
      Fut base = prom->get_future();
      if (!base.valid()) dsched::fail("future", "get_future() returned an invalid future");
      std::vector<Fut> futs((size_t)(n_early + n_late), base);

      for (const Op& op : pre) {
        if (op.kind == O_READY) {
          if (base.ready()) dsched::fail("value-before-set", "ready() == true before set_value was called");
          if (prom->ready()) dsched::fail("value-before-set", "Promise::ready() == true before set_value was called");
        }
        do_op(base, op, false);
      }

      pool.start(0, [&] {
        W->setter_tid = dsched::tid();
        switch (delay) {
          case 1: for (int i = 0; i < 3; i++) dsched::yield_point(); break;
          case 2: ::usleep(1000); break;
          case 3: ::usleep(20000000); break;
          case 4: for (int i = 0; i < 12; i++) dsched::yield_point(); break;
          default: break;
        }
        prom->set_value(W->x);
        W->set_end_step = dsched::step();
        W->set_end_ns = dsched::now_ns();
        W->set_end_stamp = dsched::stamp();
        W->set_returned = true;
        if (!prom->ready()) dsched::fail("after-set", "Promise::ready() == false after set_value returned");
        if (drop_promise) prom.reset();
      });
      for (int t = 0; t < n_early; t++)
        pool.start(1 + t, [&, t] {
          for (const Op& op : plans[(size_t)t]) do_op(futs[(size_t)t], op, true);
        });
      pool.join(0);
      for (int t = n_early; t < n_early + n_late; t++)
        pool.start(1 + t, [&, t] {
          for (const Op& op : plans[(size_t)t]) {
            if (!after_set()) dsched::fail("harness", "late thread is not ordered after set_value");
            do_op(futs[(size_t)t], op, true);
          }
        });
      for (int t = 0; t < n_early + n_late; t++) pool.join(1 + t);

      // quiescent
      if (!base.ready()) dsched::fail("after-set", "ready() == false at the end");
      if (!base.wait_for(std::chrono::nanoseconds(-1))) dsched::fail("after-set", "wait_for(-1ns) == false at the end");
      check_value(base.get(), "final get()");
      for (auto& deferred : deferred_by)
       for (auto& d : deferred) {
        if (!d.f.ready()) dsched::fail("then-value", "a then-future is still not ready after set_value and every callback finished");
        uint64_t got = d.f.get();
        if (got != d.expect) dsched::fail("then-value", "then-future carries %lu, expected %lu", (unsigned long)got, (unsigned long)d.expect);
      }
      for (auto& deferred_void : deferred_void_by)
       for (auto& f : deferred_void)
        if (!f.ready()) dsched::fail("then-value", "a void then-future is still not ready at the end");
      for (size_t i = 0; i < W->cbs.size(); i++)
        if (W->cbs[i].runs != 1)
          dsched::fail("callback-once", "callback #%zu (registered by T%d) ran %d times", i, W->cbs[i].reg_tid, W->cbs[i].runs);
      if (W->ctor_count != 1) dsched::fail("value-lifetime", "value constructed %d times", W->ctor_count);
      for (auto& v : deferred_by) v.clear();
      for (auto& v : deferred_void_by) v.clear();
    }
    if (W->live_vals != 0) dsched::fail("value-lifetime", "%d values alive after the promise and every future were destroyed", W->live_vals);

    // NT: an operation overlapped the publication window of set_value, or somebody really slept
    bool overlap = false;
    for (auto& iv : W->ops)
      if (iv.b <= W->set_end_step && iv.e >= W->ctor_done_step) overlap = true;
    if (overlap) dsched::label("op_overlapped_publication");
    if (dsched::stat_futex_sleeps() > 0) dsched::label("waiter_slept");
    if (overlap || dsched::stat_futex_sleeps() > 0) dsched::nontrivial();
  }
};

////////////////////////////////////////////////////////////////////////////////
// scenario L
enum LOpKind { L_WAIT, L_READY, L_GET, L_ONFIN };
const char* lop_name[] = {"wait_for", "ready", "get", "on_finish"};
struct LOp {
  LOpKind kind;
  int tmo;
};

template <class M>
struct LatchCase {
  using Fut = babylon::Future<size_t, M>;
  bool complete = true;

  static bool latch_after() {
    if (!W->set_returned) return false;
    for (auto& st : W->down_stamps)
      if (!dsched::ordered_after(st)) return false;
    return dsched::ordered_after(W->set_end_stamp);
  }
  // what each count_down call "reports": written before the call, read by whoever learns that the latch is ready
  Tracked<uint64_t> payload[8];
  int n_payload = 0;
  void observed_ready(const char* how) {
    if (W->down_begun != W->latch_count)
      dsched::fail("latch-early", "%s reports the latch ready after count_down calls worth %zu of %zu had begun", how, W->down_begun, W->latch_count);
    for (int k = 0; k < n_payload; k++)
      if (payload[k].get("work published by count_down") != (uint64_t)k + 100)
        dsched::fail("latch-payload", "%s: result #%d reported before count_down is not visible", how, k);
  }
  void do_op(Fut& f, const LOp& op) {
    uint64_t s0 = dsched::step();
    dsched::label(lop_name[op.kind]);
    switch (op.kind) {
      case L_WAIT: {
        bool after = latch_after();
        bool r = timed_wait(f, op.tmo, after, "latch future");
        if (r) {
          observed_ready("wait_for == true");
          if (f.get() != 0) dsched::fail("latch-value", "latch future carries %zu", f.get());
        }
        break;
      }
      case L_READY: {
        bool after = latch_after();
        bool r = f.ready();
        if (r) observed_ready("ready()");
        if (after && !r) dsched::fail("latch-ready", "latch not ready although the count_down that reached zero had returned before the call");
        mix(r);
        break;
      }
      case L_GET: {
        size_t v = f.get();
        observed_ready("get()");
        if (v != 0) dsched::fail("latch-value", "latch future carries %zu", v);
        break;
      }
      case L_ONFIN: {
        int idx = new_cb(true);
        f.on_finish([idx, this](size_t&) {
          on_cb(idx, nullptr);
          observed_ready("on_finish callback");
        });
        break;
      }
    }
    W->ops.push_back(Interval{s0, dsched::step()});
  }

  void run(Chooser& c) {
    size_t count = c.below(5);
    complete = count == 0 || !c.chance(1, 4);
    size_t target = complete ? count : c.below((uint32_t)count);
    W->latch_count = count;
    int nd = c.range(1, 3);
    std::vector<std::vector<size_t>> downs((size_t)nd);
    descf("Latch<%s>(%zu) %s downs:", is_harness_sched<M>() ? "HarnessSched" : "SchedInterface", count, complete ? "complete" : "partial");
    for (size_t left = target; left > 0;) {
      size_t d = left >= 2 && c.flip() ? 2 : 1;
      int t = (int)c.below((uint32_t)nd);
      downs[(size_t)t].push_back(d);
      descf(" D%d:%zu", t + 1, d);
      left -= d;
    }
    int nobs = c.range(1, 2);
    std::vector<std::vector<LOp>> plans((size_t)nobs);
    for (int t = 0; t < nobs; t++) {
      int nops = c.range(1, 3);
      descf(" O%d[", t + 1);
      for (int i = 0; i < nops; i++) {
        static const LOpKind full[] = {L_WAIT, L_GET, L_READY, L_ONFIN, L_GET, L_WAIT};
        static const LOpKind part[] = {L_WAIT, L_READY};
        LOp op{complete ? c.pick(full) : c.pick(part), 0};
        // a latch that never becomes ready is only ever waited for with a bounded timeout
        op.tmo = (int)c.below(complete ? N_TMO : N_TMO - 1);
        plans[(size_t)t].push_back(op);
        descf("%s%s", i ? "," : "", lop_name[op.kind]);
        if (op.kind == L_WAIT) descf("(%s)", TMO[op.tmo].name);
      }
      descf("]");
    }
    bool late_observer = c.flip();

    {
      Pool pool(nd + nobs);
      auto latch = std::make_unique<babylon::CountDownLatch<M>>(count);
      {
        std::vector<Fut> futs;
        for (int t = 0; t < nobs; t++) futs.push_back(latch->get_future());
        if (count == 0) {
          W->set_returned = true;
          W->set_end_stamp = dsched::stamp();
          W->set_end_ns = dsched::now_ns();
          W->set_end_step = dsched::step();
          if (!futs[0].ready()) dsched::fail("latch-ready", "CountDownLatch(0) is not ready after construction");
        } else if (futs[0].ready()) {
          dsched::fail("latch-early", "CountDownLatch(%zu) is ready after construction", count);
        }
        W->ctor_done_step = dsched::step();
        for (int t = 0; t < nd; t++)
          pool.start(t, [&, t] {
            for (size_t d : downs[(size_t)t]) {
              payload[n_payload].set((uint64_t)n_payload + 100, "work published by count_down");
              n_payload++;
              W->down_begun += d;
              if (W->down_begun == W->latch_count) W->ctor_done_step = dsched::step();
              latch->count_down(d);
              W->down_returned += d;
              W->down_stamps.push_back(dsched::stamp());
              if (W->down_returned == W->latch_count) {
                // whichever call brought the count to zero has returned by now (it is not known which one:
                // "after" therefore means ordered after every count_down call, see latch_after())
                W->set_end_step = dsched::step();
                W->set_end_ns = dsched::now_ns();
                W->set_returned = true;
              }
              dsched::point();
            }
          });
        int first_late = late_observer ? nobs - 1 : nobs;
        for (int t = 0; t < first_late; t++)
          pool.start(nd + t, [&, t] {
            for (const LOp& op : plans[(size_t)t]) do_op(futs[(size_t)t], op);
          });
        for (int t = 0; t < nd; t++) pool.join(t);
        for (int t = first_late; t < nobs; t++)
          pool.start(nd + t, [&, t] {
            for (const LOp& op : plans[(size_t)t]) do_op(futs[(size_t)t], op);
          });
        for (int t = 0; t < nobs; t++) pool.join(nd + t);

        Fut f = latch->get_future();
        if (complete) {
          if (!f.ready()) dsched::fail("latch-ready", "latch(%zu) not ready although count_down calls worth %zu returned", count, W->down_begun);
          if (!f.wait_for(std::chrono::nanoseconds(0))) dsched::fail("latch-ready", "wait_for(0) false on a counted-down latch");
          if (f.get() != 0) dsched::fail("latch-value", "latch future carries %zu", f.get());
          for (size_t i = 0; i < W->cbs.size(); i++)
            if (W->cbs[i].runs != 1) dsched::fail("callback-once", "latch callback #%zu ran %d times", i, W->cbs[i].runs);
          dsched::label("latch_complete");
        } else {
          if (f.ready()) dsched::fail("latch-early", "latch(%zu) ready after count_down calls worth only %zu", count, W->down_begun);
          int64_t t0 = dsched::now_ns();
          if (f.wait_for(std::chrono::milliseconds(1))) dsched::fail("latch-early", "wait_for true on a latch(%zu) counted down by %zu", count, W->down_begun);
          if (dsched::now_ns() - t0 < 1000000) dsched::fail("wait-for-early", "wait_for(1ms) on the unfinished latch returned after %ld ns", (long)(dsched::now_ns() - t0));
          dsched::label("latch_partial");
        }
      }
      // futures are gone: an unfinished latch may now be destroyed (doc: destroy_before_count_down_to_zero)
      latch.reset();
    }
    bool overlap = false;
    if (complete && count > 0)
      for (auto& iv : W->ops)
        if (iv.b <= W->set_end_step && iv.e >= W->ctor_done_step) overlap = true;
    if (overlap) dsched::label("op_overlapped_last_count_down");
    if (dsched::stat_futex_sleeps() > 0) dsched::label("waiter_slept");
    if (overlap || dsched::stat_futex_sleeps() > 0) dsched::nontrivial();
  }
};

////////////////////////////////////////////////////////////////////////////////
void run_case(Chooser& c) {
  World world;
  W = &world;
  int scen = (int)c.below(8);
  bool harness_sched = c.chance(2, 5);
  if (scen <= 5) {
    dsched::label(harness_sched ? "future_HarnessSched" : "future_SchedInterface");
    if (harness_sched) FutureCase<HarnessSched>().run(c);
    else FutureCase<babylon::SchedInterface>().run(c);
  } else {
    dsched::label(harness_sched ? "latch_HarnessSched" : "latch_SchedInterface");
    if (harness_sched) LatchCase<HarnessSched>().run(c);
    else LatchCase<babylon::SchedInterface>().run(c);
  }
  for (auto& f : world.futexes)
    if (f.alive) dsched::fail("futex-lifetime", "a futex created through the scheduling interface was never destroyed");
  if (!world.futexes.empty()) dsched::label_n("futex_created", (uint32_t)world.futexes.size());
  dsched::mix_hash(world.hist);
  for (auto& r : world.cbs) dsched::mix_hash((uint64_t)(r.run_tid == r.reg_tid));
  W = nullptr;
}

void tune(dsched::Params& p, Chooser&) { p.max_steps = 200000; }

}  // namespace

int main(int argc, char** argv) {
  vf::Target t;
#ifdef NDEBUG
  t.name = "c08_future_ndebug";  // babylon's own asserts compiled out (release flavour): only the harness oracles speak
#else
  t.name = "c08_future";
#endif
  t.property_id = "C08";
  t.run_case = run_case;
  t.eintr_percent = 25;  // futex_wait may return early (EINTR / spurious 0) in a quarter of the cases
  t.tune = tune;
  t.nontrivial_rule =
      "an operation on the future overlapped the publication window of set_value (value constructed .. set_value / last count_down "
      "returned), or a waiter really slept in futex_wait";
  return vf::main_driver(argc, argv, t);
}
