// C11 (protobuf wire compatibility): structures declared with BABYLON_COMPATIBLE and field numbers
// against a protobuf message with the same fields (harness-owned copy of the repo's TestMessage
// schema, targets/proto/c11_compat.proto, with the repo's compatibility markers).
//   mode 0  struct -> message   every kind marked "<->" or "<-"
//   mode 1  message -> struct   kinds marked "<->" only; kinds marked "-" are present as fields the
//                               struct does not know (skipped); absent fields keep the struct's defaults
//   mode 2  struct <-> struct   same field numbers declared in reverse order / a subset / a superset
//   mode 3  message -> message  through babylon::Serialization (bytes identical to protobuf's own)
// In every mode the top-level fields of the encoding are shuffled (field order does not matter) and
// the bytes go through a fuzzer-chosen output / input presentation.
#include "c11_common.h"
#include "proto/c11_compat.pb.cc"

namespace {
using namespace c11;
using vfc11::Msg;
using vfc11::TestEnum;

const char* RULE =
    "struct<->protobuf message of the documented TestMessage schema (modes: struct->message, message->struct, struct<->struct with "
    "reordered / missing / unknown fields, message->message through babylon); non-trivial = >= 3 distinct populated field kinds "
    "and >= 1 populated nested message / sub-structure or repeated field";

// ---- the structures (mirror of /repo/test/serialization/test_message.cpp) ---------------------
// non-zero member defaults: "absent fields keep their defaults" is checked against them
#define C11_COMMON_MEMBERS                                                                    \
  bool b {true};                                                                              \
  int8_t i8 {-8};                                                                             \
  int16_t i16 {-16};                                                                          \
  int32_t i32 {-32};                                                                          \
  int64_t i64 {-64};                                                                          \
  uint8_t u8 {8};                                                                             \
  uint16_t u16 {16};                                                                          \
  uint32_t u32 {32};                                                                          \
  uint64_t u64 {64};                                                                          \
  float f {1.5f};                                                                             \
  double d {-2.5};                                                                            \
  std::string s {"dflt-s"};                                                                   \
  std::string by {"dflt-by"};                                                                 \
  std::vector<bool> rb;                                                                       \
  std::vector<int8_t> ri8;                                                                    \
  std::vector<int16_t> ri16;                                                                  \
  std::vector<int32_t> ri32;                                                                  \
  std::vector<int64_t> ri64;                                                                  \
  std::vector<uint8_t> ru8;                                                                   \
  std::vector<uint16_t> ru16;                                                                 \
  std::vector<uint32_t> ru32;                                                                 \
  std::vector<uint64_t> ru64;                                                                 \
  std::vector<float> rf;                                                                      \
  std::vector<double> rd;                                                                     \
  std::vector<bool> rpb;                                                                      \
  std::vector<int8_t> rpi8;                                                                   \
  std::vector<int16_t> rpi16;                                                                 \
  std::vector<int32_t> rpi32;                                                                 \
  std::vector<int64_t> rpi64;                                                                 \
  std::vector<uint8_t> rpu8;                                                                  \
  std::vector<uint16_t> rpu16;                                                                \
  std::vector<uint32_t> rpu32;                                                                \
  std::vector<uint64_t> rpu64;                                                                \
  std::vector<float> rpf;                                                                     \
  std::vector<double> rpd;

#define C11_COMPATIBLE_DECL                                                                                                       \
  BABYLON_COMPATIBLE((b, 1)(i8, 2)(i16, 3)(i32, 4)(i64, 5)(u8, 6)(u16, 7)(u32, 8)(u64, 9)(f, 16)(d, 17)(e, 18)(s, 19)(by, 20)(   \
      m, 21)(pm, 22)(rb, 23)(ri8, 24)(ri16, 25)(ri32, 26)(ri64, 27)(ru8, 28)(ru16, 29)(ru32, 30)(ru64, 31)(rf, 38)(rd, 39)(      \
      re, 40)(rpb, 44)(rpi8, 45)(rpi16, 46)(rpi32, 47)(rpi64, 48)(rpu8, 49)(rpu16, 50)(rpu32, 51)(rpu64, 52)(rpf, 59)(rpd, 60)(   \
      rpe, 61))                                                                                                                   \
  VF_TIE(b, i8, i16, i32, i64, u8, u16, u32, u64, f, d, e, s, by, m, pm, rb, ri8, ri16, ri32, ri64, ru8, ru16, ru32, ru64, rf,    \
         rd, re, rpb, rpi8, rpi16, rpi32, rpi64, rpu8, rpu16, rpu32, rpu64, rpf, rpd, rpe)

// enum kinds as plain int ("enum / int" in the table); message-typed members are real messages
struct CSub {
  C11_COMMON_MEMBERS
  int e {(int)vfc11::E2};
  Msg m;
  std::unique_ptr<Msg> pm;
  std::vector<int> re;
  std::vector<int> rpe;
  C11_COMPATIBLE_DECL
};
struct CObj {
  C11_COMMON_MEMBERS
  TestEnum e {vfc11::E2};
  CSub m;
  std::unique_ptr<CSub> pm;
  std::vector<TestEnum> re;
  std::vector<TestEnum> rpe;
  C11_COMPATIBLE_DECL
};

#define C11_SCALARS(X) X(b) X(i8) X(i16) X(i32) X(i64) X(u8) X(u16) X(u32) X(u64)
#define C11_ONEWAY_INT(X) X(rb) X(ri8) X(ri16) X(ri32) X(ri64) X(ru8) X(ru16) X(ru32) X(ru64)
#define C11_ONEWAY_FLOAT(X) X(rf) X(rd)
#define C11_PACKED_INT(X) X(rpb) X(rpi8) X(rpi16) X(rpi32) X(rpi64) X(rpu8) X(rpu16) X(rpu32) X(rpu64)
#define C11_PACKED_FLOAT(X) X(rpf) X(rpd)

int declared_enum(uint32_t x) {
  static const int vals[] = {vfc11::E1, vfc11::E2, vfc11::E3, vfc11::EN};
  return vals[x % 4];
}
// the int-typed enum members of CSub must hold declared values of the (closed) proto2 enum
void fix_enums(CSub& o) {
  o.e = declared_enum((uint32_t)o.e);
  for (auto& x : o.re) x = declared_enum((uint32_t)x);
  for (auto& x : o.rpe) x = declared_enum((uint32_t)x);
}
void fix_enums(CObj& o) {
  fix_enums(o.m);
  if (o.pm) fix_enums(*o.pm);
}

template <class F>
bool same_bits(F a, F b) {
  return memcmp(&a, &b, sizeof a) == 0;
}

// ---- wire-level helpers: split the top-level fields of an encoding, shuffle, join ----------
bool read_varint(const std::string& s, size_t& pos, uint64_t& out) {
  out = 0;
  for (int shift = 0; shift < 70 && pos < s.size(); shift += 7) {
    uint8_t c = (uint8_t)s[pos++];
    if (shift < 64) out |= (uint64_t)(c & 0x7f) << shift;
    if (!(c & 0x80)) return true;
  }
  return false;
}
bool split_fields(const std::string& s, std::vector<std::string>& fields) {
  size_t pos = 0;
  while (pos < s.size()) {
    size_t begin = pos;
    uint64_t tag, v;
    if (!read_varint(s, pos, tag)) return false;
    switch (tag & 7) {
      case 0:
        if (!read_varint(s, pos, v)) return false;
        break;
      case 1: pos += 8; break;
      case 5: pos += 4; break;
      case 2:
        if (!read_varint(s, pos, v)) return false;
        pos += v;
        break;
      default: return false;
    }
    if (pos > s.size()) return false;
    fields.push_back(s.substr(begin, pos - begin));
  }
  return true;
}
std::string shuffle_fields(const std::string& bytes, vfz::Dec& d, const std::string& desc) {
  std::vector<std::string> fields;
  if (!split_fields(bytes, fields)) vfz::fail(desc, "the encoding is not a sequence of well-formed fields: %s", hex(bytes, 200).c_str());
  uint8_t how = d.u8() % 4;
  if (how == 1) {
    std::reverse(fields.begin(), fields.end());
  } else if (how >= 2) {
    for (size_t i = fields.size(); i > 1; i--) std::swap(fields[i - 1], fields[d.below((uint32_t)i)]);
  }
  std::string out;
  for (auto& f : fields) out += f;
  return out;
}

// ---- struct -> message -----------------------------------------------------------------------
template <class S>
void expect_struct_in_msg(const S& o, const Msg& mm, const std::string& desc, const std::string& path);

void expect_sub(const Msg& o, bool present_expected, bool has, const Msg& got, const std::string& desc, const std::string& path) {
  // a message-typed member: empty encoding <=> not present
  (void)present_expected;
  if (o.ByteSizeLong() == 0) {
    if (has) vfz::fail(desc, "%s: empty message member arrived as a present field", path.c_str());
    return;
  }
  if (!has) vfz::fail(desc, "%s: message member lost", path.c_str());
  if (o.SerializeAsString() != got.SerializeAsString()) vfz::fail(desc, "%s: message member differs", path.c_str());
}
void expect_sub(const CSub& o, bool, bool has, const Msg& got, const std::string& desc, const std::string& path) {
  if (!has) vfz::fail(desc, "%s: sub-structure lost", path.c_str());
  expect_struct_in_msg(o, got, desc, path);
}

template <class S>
void expect_struct_in_msg(const S& o, const Msg& mm, const std::string& desc, const std::string& path) {
#define X(name)                                                                                                                \
  if (!mm.has_##name()) vfz::fail(desc, "%s.%s: scalar member did not arrive in the message", path.c_str(), #name);               \
  if ((uint64_t)o.name != (uint64_t)mm.name())                                                                                   \
    vfz::fail(desc, "%s.%s: struct has %lld, message has %lld", path.c_str(), #name, (long long)o.name, (long long)mm.name());
  C11_SCALARS(X)
#undef X
  if (!mm.has_f() || !same_bits(o.f, mm.f())) vfz::fail(desc, "%s.f: float differs or is absent", path.c_str());
  if (!mm.has_d() || !same_bits(o.d, mm.d())) vfz::fail(desc, "%s.d: double differs or is absent", path.c_str());
  if (!mm.has_e() || (int)o.e != (int)mm.e()) vfz::fail(desc, "%s.e: struct has %d, message has %d (has=%d)", path.c_str(), (int)o.e, (int)mm.e(), (int)mm.has_e());
  // strings: an empty string has an empty encoding and is not sent
  if (o.s.empty() ? mm.has_s() : (!mm.has_s() || mm.s() != o.s)) vfz::fail(desc, "%s.s: string differs", path.c_str());
  if (o.by.empty() ? mm.has_by() : (!mm.has_by() || mm.by() != o.by)) vfz::fail(desc, "%s.by: bytes differ", path.c_str());
  expect_sub(o.m, true, mm.has_m(), mm.m(), desc, path + ".m");
  if (!o.pm) {
    if (mm.has_pm()) vfz::fail(desc, "%s.pm: null pointer arrived as a present field", path.c_str());
  } else {
    expect_sub(*o.pm, true, mm.has_pm(), mm.pm(), desc, path + ".pm");
  }
#define X(name)                                                                                                                 \
  if ((size_t)mm.name##_size() != o.name.size())                                                                                  \
    vfz::fail(desc, "%s.%s: struct has %zu elements, message has %d", path.c_str(), #name, o.name.size(), mm.name##_size());      \
  for (size_t i = 0; i < o.name.size(); i++)                                                                                      \
    if ((uint64_t)o.name[i] != (uint64_t)mm.name((int)i)) vfz::fail(desc, "%s.%s[%zu] differs", path.c_str(), #name, i);
  C11_ONEWAY_INT(X)
  C11_PACKED_INT(X)
  X(re)
  X(rpe)
#undef X
#define X(name)                                                                                                                 \
  if ((size_t)mm.name##_size() != o.name.size())                                                                                  \
    vfz::fail(desc, "%s.%s: struct has %zu elements, message has %d", path.c_str(), #name, o.name.size(), mm.name##_size());      \
  for (size_t i = 0; i < o.name.size(); i++)                                                                                      \
    if (!same_bits(o.name[i], mm.name((int)i))) vfz::fail(desc, "%s.%s[%zu] differs", path.c_str(), #name, i);
  C11_ONEWAY_FLOAT(X)
  C11_PACKED_FLOAT(X)
#undef X
}

// ---- message -> struct -----------------------------------------------------------------------
// values within the domain of the narrower struct member; declared enum values; "-" kinds as noise
void gen_msg(Msg& m, Gen& g, int level, bool oneway_kinds_too) {
  uint64_t mask = g.d.u64();
  auto bit = [&](int i) { return (mask >> i) & 1; };
  if (bit(0)) m.set_b(g.d.u8() & 1), g.kind(K_BOOL);
  if (bit(1)) m.set_i8(gen_int<int8_t>(g)), g.kind(K_INT);
  if (bit(2)) m.set_i16(gen_int<int16_t>(g));
  if (bit(3)) m.set_i32(gen_int<int32_t>(g));
  if (bit(4)) m.set_i64(gen_int<int64_t>(g));
  if (bit(5)) m.set_u8(gen_int<uint8_t>(g));
  if (bit(6)) m.set_u16(gen_int<uint16_t>(g));
  if (bit(7)) m.set_u32(gen_int<uint32_t>(g));
  if (bit(8)) m.set_u64(gen_int<uint64_t>(g));
  if (bit(9)) m.set_f(gen_float<float>(g)), g.kind(K_FLOAT);
  if (bit(10)) m.set_d(gen_float<double>(g));
  if (bit(11)) m.set_e((TestEnum)declared_enum(g.d.u8())), g.kind(K_ENUM);
  if (bit(12)) m.set_s(gen_bytes(g)), g.kind(K_STR);
  if (bit(13)) m.set_by(gen_bytes(g));
  if (bit(14) && level < 2) {
    Msg* sub = m.mutable_m();  // bit 40: present but empty
    if (!bit(40)) gen_msg(*sub, g, level + 1, oneway_kinds_too);
    g.nested_ld = true;
  }
  if (bit(15) && level < 2) {
    Msg* sub = m.mutable_pm();
    if (!bit(41)) gen_msg(*sub, g, level + 1, oneway_kinds_too);
    g.nested_ld = true;
  }
  auto count = [&]() { return gen_count(g, true); };
  if (bit(16)) for (size_t n = count(); n > 0; n--) m.add_rpb(g.d.u8() & 1), g.kind(K_VBOOL), g.nested_ld = true;
  if (bit(17)) for (size_t n = count(); n > 0; n--) m.add_rpi8(gen_int<int8_t>(g)), g.kind(K_SEQ), g.nested_ld = true;
  if (bit(18)) for (size_t n = count(); n > 0; n--) m.add_rpi16(gen_int<int16_t>(g));
  if (bit(19)) for (size_t n = count(); n > 0; n--) m.add_rpi32(gen_int<int32_t>(g));
  if (bit(20)) for (size_t n = count(); n > 0; n--) m.add_rpi64(gen_int<int64_t>(g));
  if (bit(21)) for (size_t n = count(); n > 0; n--) m.add_rpu8(gen_int<uint8_t>(g));
  if (bit(22)) for (size_t n = count(); n > 0; n--) m.add_rpu16(gen_int<uint16_t>(g));
  if (bit(23)) for (size_t n = count(); n > 0; n--) m.add_rpu32(gen_int<uint32_t>(g));
  if (bit(24)) for (size_t n = count(); n > 0; n--) m.add_rpu64(gen_int<uint64_t>(g));
  if (bit(25)) for (size_t n = count(); n > 0; n--) m.add_rpf(gen_float<float>(g));
  if (bit(26)) for (size_t n = count(); n > 0; n--) m.add_rpd(gen_float<double>(g));
  if (bit(27)) for (size_t n = count(); n > 0; n--) m.add_rpe((TestEnum)declared_enum(g.d.u8()));
  // kinds the table marks "-": fields of every wire type that the struct does not know
  if (bit(28)) m.set_s32(gen_int<int32_t>(g));
  if (bit(29)) m.set_s64(gen_int<int64_t>(g));
  if (bit(30)) m.set_f32(gen_int<uint32_t>(g));
  if (bit(31)) m.set_f64(gen_int<uint64_t>(g));
  if (bit(32)) m.set_sf32(gen_int<int32_t>(g));
  if (bit(33)) m.set_sf64(gen_int<int64_t>(g));
  if (bit(34)) for (int n = g.d.u8() % 3; n > 0; n--) m.add_rs(gen_bytes(g));
  if (bit(35)) for (int n = g.d.u8() % 3; n > 0; n--) m.add_rby(gen_bytes(g));
  if (bit(36) && level < 2) for (int n = g.d.u8() % 3; n > 0; n--) gen_msg(*m.add_rm(), g, level + 1, true);
  if (bit(37)) for (int n = g.d.u8() % 4; n > 0; n--) m.add_rs32(gen_int<int32_t>(g)), m.add_rf64(gen_int<uint64_t>(g)), m.add_rsf32(gen_int<int32_t>(g));
  if (bit(38)) for (int n = g.d.u8() % 4; n > 0; n--) m.add_rps64(gen_int<int64_t>(g)), m.add_rpf32(gen_int<uint32_t>(g)), m.add_rpsf64(gen_int<int64_t>(g));
  if (oneway_kinds_too && bit(39)) {
    // only where message meets message (no struct on the other side)
    for (int n = g.d.u8() % 3; n > 0; n--) m.add_ri32(gen_int<int32_t>(g)), m.add_rb(g.d.u8() & 1), m.add_rd(gen_float<double>(g)), m.add_re(vfc11::E3);
  }
}

template <class S>
void expect_msg_in_struct(const Msg& m, const S& o, const std::string& desc, const std::string& path);

void expect_msg_member(const Msg& m, bool has, const Msg& got, const std::string& desc, const std::string& path) {
  Msg dflt;
  const Msg& want = has ? m : dflt;
  if (want.SerializeAsString() != got.SerializeAsString()) vfz::fail(desc, "%s: message member differs", path.c_str());
}
void expect_msg_member(const Msg& m, bool has, const CSub& got, const std::string& desc, const std::string& path) {
  Msg dflt;
  expect_msg_in_struct(has ? m : dflt, got, desc, path);
}

template <class S>
void expect_msg_in_struct(const Msg& m, const S& o, const std::string& desc, const std::string& path) {
  S dflt {};  // what a fresh structure holds: absent fields must keep exactly this
#define X(name)                                                                                                                    \
  {                                                                                                                                  \
    uint64_t want = m.has_##name() ? (uint64_t)m.name() : (uint64_t)dflt.name;                                                       \
    if ((uint64_t)o.name != want)                                                                                                    \
      vfz::fail(desc, "%s.%s: message %s, struct holds %lld", path.c_str(), #name,                                                   \
                m.has_##name() ? ("has " + std::to_string((long long)m.name())).c_str() : "lacks the field (default expected)",      \
                (long long)o.name);                                                                                                  \
  }
  C11_SCALARS(X)
#undef X
  if (!same_bits(o.f, m.has_f() ? m.f() : dflt.f)) vfz::fail(desc, "%s.f differs (message has_f=%d)", path.c_str(), (int)m.has_f());
  if (!same_bits(o.d, m.has_d() ? m.d() : dflt.d)) vfz::fail(desc, "%s.d differs (message has_d=%d)", path.c_str(), (int)m.has_d());
  if ((int)o.e != (m.has_e() ? (int)m.e() : (int)dflt.e)) vfz::fail(desc, "%s.e: struct holds %d (message has_e=%d e=%d)", path.c_str(), (int)o.e, (int)m.has_e(), (int)m.e());
  if (o.s != (m.has_s() ? m.s() : dflt.s)) vfz::fail(desc, "%s.s differs (message has_s=%d)", path.c_str(), (int)m.has_s());
  if (o.by != (m.has_by() ? m.by() : dflt.by)) vfz::fail(desc, "%s.by differs (message has_by=%d)", path.c_str(), (int)m.has_by());
  expect_msg_member(m.m(), m.has_m(), o.m, desc, path + ".m");
  // behind a pointer: a present field with a non-empty payload makes the pointee; otherwise null
  if (m.has_pm() && m.pm().ByteSizeLong() > 0) {
    if (!o.pm) vfz::fail(desc, "%s.pm: message has the field, struct pointer is null", path.c_str());
    expect_msg_member(m.pm(), true, *o.pm, desc, path + ".pm");
  } else if (o.pm) {
    vfz::fail(desc, "%s.pm: message has no (or an empty) field, struct pointer is set", path.c_str());
  }
#define X(name)                                                                                                               \
  if ((size_t)m.name##_size() != o.name.size())                                                                                 \
    vfz::fail(desc, "%s.%s: message has %d elements, struct has %zu", path.c_str(), #name, m.name##_size(), o.name.size());     \
  for (size_t i = 0; i < o.name.size(); i++)                                                                                    \
    if ((uint64_t)o.name[i] != (uint64_t)m.name((int)i)) vfz::fail(desc, "%s.%s[%zu] differs", path.c_str(), #name, i);
  C11_PACKED_INT(X)
  X(rpe)
#undef X
#define X(name)                                                                                                               \
  if ((size_t)m.name##_size() != o.name.size())                                                                                 \
    vfz::fail(desc, "%s.%s: message has %d elements, struct has %zu", path.c_str(), #name, m.name##_size(), o.name.size());     \
  for (size_t i = 0; i < o.name.size(); i++)                                                                                    \
    if (!same_bits(o.name[i], m.name((int)i))) vfz::fail(desc, "%s.%s[%zu] differs", path.c_str(), #name, i);
  C11_PACKED_FLOAT(X)
#undef X
  // the one-way kinds were not sent: still empty
#define X(name) \
  if (!o.name.empty()) vfz::fail(desc, "%s.%s: not sent, but the struct holds %zu elements", path.c_str(), #name, o.name.size());
  C11_ONEWAY_INT(X)
  C11_ONEWAY_FLOAT(X)
  X(re)
#undef X
}

// ---- struct <-> struct: reordered, missing and unknown fields ---------------------------------
struct Wide {
  int32_t a {11};
  float b {2.5f};
  double c {-3.5};
  std::string d {"wide-d"};
  std::vector<int64_t> e;
  Few f;
  uint64_t g {77};
  std::vector<std::string> h;
  std::unique_ptr<Few> i;
  Scoped8 j {(Scoped8)5};
  BABYLON_COMPATIBLE((a, 1)(b, 2)(c, 3)(d, 4)(e, 5)(f, 6)(g, 7)(h, 8)(i, 9)(j, 10))
  VF_TIE(a, b, c, d, e, f, g, h, i, j)
};
struct WideReversed {  // same numbers, declared (and therefore written) in the opposite order
  int32_t a {11};
  float b {2.5f};
  double c {-3.5};
  std::string d {"wide-d"};
  std::vector<int64_t> e;
  Few f;
  uint64_t g {77};
  std::vector<std::string> h;
  std::unique_ptr<Few> i;
  Scoped8 j {(Scoped8)5};
  BABYLON_COMPATIBLE((j, 10)(i, 9)(h, 8)(g, 7)(f, 6)(e, 5)(d, 4)(c, 3)(b, 2)(a, 1))
  VF_TIE(a, b, c, d, e, f, g, h, i, j)
};
struct Narrow {  // knows three of Wide's fields and two that Wide does not have
  int32_t a {-1};
  std::string d {"narrow-d"};
  uint64_t g {99};
  double extra {1.25};
  std::string extra_s {"keep"};
  BABYLON_COMPATIBLE((a, 1)(d, 4)(g, 7)(extra, 11)(extra_s, 12))
  VF_TIE(a, d, g, extra, extra_s)
};

template <class A, class B>
void copy_shape_check(const A& a, const B& b, const std::string& desc, const char* what) {
  // A and B have the same member list (Wide / WideReversed)
  std::string why;
  auto ta = const_cast<A&>(a).vf_tie();
  auto tb = const_cast<B&>(b).vf_tie();
  size_t idx = 0;
  if (!eq_tuple(ta, tb, why, idx, std::make_index_sequence<std::tuple_size<decltype(ta)>::value>()))
    vfz::fail(desc, "%s: member #%zu%s", what, idx, why.c_str());
}

template <class T>
std::string encode(const T& v, int out_kind, const Pattern& p, const std::string& desc) {
  std::string bytes;
  size_t predicted = 0;
  if (!serialize_with(out_kind, p, v, bytes, predicted)) vfz::fail(desc, "%s reported failure", out_name(out_kind));
  if (bytes.size() != predicted) vfz::fail(desc, "size oracle: predicted %zu, %s produced %zu bytes", predicted, out_name(out_kind), bytes.size());
  return bytes;
}
template <class T>
void decode(const std::string& bytes, int in_kind, const Pattern& p, T& out, const std::string& desc, const char* what) {
  if (!parse_with(in_kind, p, bytes, out)) vfz::fail(desc, "%s: %s rejected %s", what, in_name(in_kind), hex(bytes, 200).c_str());
}

}  // namespace

extern "C" int LLVMFuzzerTestOneInput(const uint8_t* data, size_t size) {
  vfz::begin_case(RULE);
  quiet_protobuf();
  strip_witness_prefix(data, size);
  vfz::Dec d(data, size);
  int mode = d.u8() % 4;
  int out_kind = d.u8() % OUT_KINDS;
  int in_kind = d.u8() % IN_KINDS;
  Pattern pat = decode_pattern(d);
  Gen g(d);
  std::string desc = std::string("mode ") + std::to_string(mode) + " out " + out_name(out_kind) + " in " + in_name(in_kind) + " chunks " + pat.str();
  bool nt = false;
  switch (mode) {
    case 0: {  // struct -> message
      auto o = std::make_unique<CObj>();
      fill(*o, g);
      fix_enums(*o);
      std::string shown;
      show(*o, shown);
      desc += " struct " + shown;
      std::string bytes = shuffle_fields(encode(*o, out_kind, pat, desc), d, desc);
      Msg mm;
      decode(bytes, in_kind, pat, mm, desc, "struct -> message (babylon parse into the message)");
      expect_struct_in_msg(*o, mm, desc, "o");
      Msg direct;
      if (!direct.ParseFromString(bytes)) vfz::fail(desc, "protobuf itself rejects the bytes the struct produced: %s", hex(bytes, 200).c_str());
      expect_struct_in_msg(*o, direct, desc, "o(protobuf parse)");
      vfz::label("struct->message");
      nt = g.nkinds() >= 3 && g.nested_ld;
      break;
    }
    case 1: {  // message -> struct
      Msg m;
      gen_msg(m, g, 0, false);
      desc += " message " + hex(m.SerializeAsString(), 400);
      // protobuf's own encoder or babylon's message traits produce the bytes
      std::string bytes = (d.u8() & 1) ? m.SerializeAsString() : encode(m, out_kind, pat, desc);
      bytes = shuffle_fields(bytes, d, desc);
      auto o = std::make_unique<CObj>();
      decode(bytes, in_kind, pat, *o, desc, "message -> struct");
      expect_msg_in_struct(m, *o, desc, "o");
      vfz::label("message->struct");
      nt = g.nkinds() >= 3 && g.nested_ld;
      break;
    }
    case 2: {  // struct <-> struct
      auto w = std::make_unique<Wide>();
      fill(*w, g);
      std::string shown;
      show(*w, shown);
      desc += " wide " + shown;
      std::string bytes = shuffle_fields(encode(*w, out_kind, pat, desc), d, desc);
      auto r = std::make_unique<WideReversed>();
      decode(bytes, in_kind, pat, *r, desc, "Wide -> WideReversed");
      // members with an empty encoding are absent: they keep the default, which here equals the sent value only when empty
      {
        Wide expect;  // defaults
        if (!w->d.empty()) expect.d = w->d;
        // all members that always travel
        expect.a = w->a, expect.b = w->b, expect.c = w->c, expect.g = w->g, expect.j = w->j, expect.f = w->f;
        expect.e = w->e, expect.h = w->h;
        if (w->i) expect.i.reset(new Few(*w->i));
        copy_shape_check(expect, *r, desc, "Wide -> WideReversed");
      }
      // and back, from the reversed declaration (bytes in reverse field order)
      std::string back = encode(*r, out_kind, pat, desc);
      auto w2 = std::make_unique<Wide>();
      decode(back, in_kind, pat, *w2, desc, "WideReversed -> Wide");
      copy_shape_check(*r, *w2, desc, "WideReversed -> Wide");
      // a structure that knows fewer fields skips the others and keeps its own extra members
      auto n = std::make_unique<Narrow>();
      decode(bytes, in_kind, pat, *n, desc, "Wide -> Narrow (unknown fields skipped)");
      Narrow nd;
      if (n->a != w->a || n->g != w->g || n->d != (w->d.empty() ? nd.d : w->d))
        vfz::fail(desc, "Wide -> Narrow: known fields differ: a=%d g=%llu d=%s", n->a, (unsigned long long)n->g, n->d.c_str());
      if (!same_bits(n->extra, nd.extra) || n->extra_s != nd.extra_s) vfz::fail(desc, "Wide -> Narrow: members absent from the bytes lost their defaults");
      // a structure that knows more fields keeps its defaults for the missing ones
      fill(n->extra, g);
      n->extra_s = gen_bytes(g);
      std::string nbytes = shuffle_fields(encode(*n, out_kind, pat, desc), d, desc);
      auto w3 = std::make_unique<Wide>();
      decode(nbytes, in_kind, pat, *w3, desc, "Narrow -> Wide (fields 11, 12 unknown)");
      Wide wd;
      wd.a = n->a, wd.g = n->g;
      if (!n->d.empty()) wd.d = n->d;
      copy_shape_check(wd, *w3, desc, "Narrow -> Wide");
      vfz::label("struct<->struct");
      nt = g.nkinds() >= 3 && g.nested_ld;
      break;
    }
    default: {  // message -> message through babylon
      Msg m;
      gen_msg(m, g, 0, true);
      desc += " message " + hex(m.SerializeAsString(), 400);
      std::string bytes = encode(m, out_kind, pat, desc);
      if (bytes != m.SerializeAsString()) vfz::fail(desc, "babylon's encoding of a message differs from protobuf's: %s", hex(bytes, 200).c_str());
      bytes = shuffle_fields(bytes, d, desc);
      Msg mm;
      decode(bytes, in_kind, pat, mm, desc, "message -> message");
      // order of unknown / repeated fields may follow the shuffle: compare through a protobuf parse of the same bytes
      Msg direct;
      if (!direct.ParseFromString(bytes)) vfz::fail(desc, "protobuf rejects shuffled bytes");
      if (mm.SerializeAsString() != direct.SerializeAsString()) vfz::fail(desc, "message parsed through babylon differs from protobuf's own parse");
      vfz::label("message->message");
      nt = g.nkinds() >= 3 && g.nested_ld;
      break;
    }
  }
  vfz::label(in_name(in_kind));
  if (nt) vfz::nontrivial(vfz::hash_bytes(data, size), desc.substr(0, 600));
  return 0;
}
