// C10: GarbageCollector under the schedule / clock / weak-memory fuzzer.
//   Every reclaimer handed to retire() runs exactly once, never while a region that was open when it
//   was retired is still open, and no later than the return of stop() / the destructor. retire() blocks
//   on a full queue and resumes without losing tasks.
//
// Program shape (all legal per garbage_collector.h / docs/concurrent/garbage_collector.en.md):
//   main: [set_queue_capacity] start; spawn early readers + retirers; join retirers; spawn late readers;
//         virtual sleep (phase of the collector's back-off loop); stop() or destructor; check; join readers.
//   retirer: retire(r) / tick + retire(r, tick) batches, virtual sleeps in between; holds no region
//            (doc: retire outside the critical section, a full queue would otherwise deadlock).
//   reader: create_accessor on gc.epoch(); lock; hold for a virtual time; unlock + release either itself
//           or after moving the locked accessor to a closer thread.
#include "known.h"
#include <babylon/concurrent/garbage_collector.h>

#include <stdio.h>
#include <stdlib.h>
#include <string.h>
#include <unistd.h>

#include <memory>
#include <thread>
#include <vector>

#include "../engine/common/driver.h"

using dsched::Tracked;
using vf::Chooser;

namespace {

// F2 (known finding, DESIGN.md section 6): GarbageCollector::stop() issued while a region that holds back a
// queued reclaimer is still open returns without running the reclaimers that share the final batch with the
// stop marker. The shape is exactly: stop() / ~GarbageCollector() called while a region that was (or may have
// been) open when a not yet invoked reclaimer was retired is still open. Excluded (stop is postponed until
// those regions are closed) unless VF_ALLOW_KNOWN is set to something other than 0.
bool read_allow_known() { return vf_allow_known("f2"); }

constexpr int MAX_TASKS = 40;
constexpr int MAX_REGIONS = 8;

struct TaskRec {
  int thread = 0;
  bool explicit_tick = false;
  bool ticked = false;          // tick (or the retire() containing it) returned
  uint64_t tick_begin_step = 0; // step() just before the tick could happen
  dsched::Stamp tick_stamp{};   // after the tick is certainly done
  uint64_t retire_begin_step = 0, retire_end_step = 0;
  bool retire_done = false;
  int invoked = 0;
  int dropped = 0;              // live reclaimer destroyed without having been invoked
  uint64_t invoked_step = 0;
  Tracked<uint64_t> payload;    // written by the retirer, read by the reclaimer: HB through the queue
};

struct RegionRec {
  bool late = false;
  bool lock_begun = false;
  uint64_t lock_begin_step = 0;
  uint64_t lock_done_step = 0;  // 0 = lock() has not returned yet
  bool unlock_begun = false;
  uint64_t closed_step = 0;     // 0 = unlock() has not returned yet
  uint64_t nonblocked_mask = 0; // tasks whose tick is ordered before the begin of lock(): cannot be held back
  std::atomic<int> closed_flag{0};  // release-stored after unlock(): how main learns (with HB) that it closed
};

struct World {
  TaskRec tasks[MAX_TASKS];
  int ntasks = 0;
  RegionRec regions[MAX_REGIONS];
  int nregions = 0;
  bool stop_begun = false, stop_returned = false;
  bool retire_blocked = false;
};
World* W;

struct Reclaimer {
  int id = -1;  // -1: default constructed (stop marker, empty queue slot); -2: moved from; -3: invoked
  Reclaimer() = default;
  explicit Reclaimer(int i) : id(i) {}
  Reclaimer(Reclaimer&& o) noexcept : id(o.id) { o.id = -2; }
  Reclaimer& operator=(Reclaimer&& o) noexcept {
    drop();
    id = o.id;
    o.id = -2;
    return *this;
  }
  Reclaimer(const Reclaimer&) = delete;
  Reclaimer& operator=(const Reclaimer&) = delete;
  ~Reclaimer() { drop(); }
  void drop() {
    if (id >= 0) W->tasks[id].dropped++;
    id = -2;
  }
  void operator()() noexcept {
    if (id == -1) dsched::fail("exactly-once", "a default-constructed reclaimer (stop marker / empty slot) was invoked");
    if (id < 0) dsched::fail("exactly-once", "a %s reclaimer was invoked", id == -2 ? "moved-from" : "already invoked");
    TaskRec& t = W->tasks[id];
    if (t.invoked) dsched::fail("exactly-once", "reclaimer %d invoked twice", id);
    if (W->stop_returned) dsched::fail("before-stop-returns", "reclaimer %d invoked after stop() returned", id);
    for (int i = 0; i < W->nregions; i++) {
      RegionRec& r = W->regions[i];
      if (r.lock_done_step != 0 && r.lock_done_step < t.tick_begin_step && !r.unlock_begun)
        dsched::fail("reclaimed-early",
                     "reclaimer %d (T%d, %s, tick began at step %lu) invoked at step %lu while region %d, locked since step %lu, "
                     "is still open",
                     id, t.thread, t.explicit_tick ? "retire(r,tick)" : "retire(r)", (unsigned long)t.tick_begin_step,
                     (unsigned long)dsched::step(), i, (unsigned long)r.lock_done_step);
    }
    uint64_t v = t.payload.get("retired payload");
    if (v != 0xC10000u + (uint64_t)id) dsched::fail("payload", "reclaimer %d sees payload %lx", id, (unsigned long)v);
    dsched::point();
    t.invoked = 1;
    t.invoked_step = dsched::step();
    id = -3;
  }
};
using GC = babylon::GarbageCollector<Reclaimer>;
using Accessor = babylon::Epoch::Accessor;

void vsleep(int us) {
  if (us > 0) ::usleep((useconds_t)us);
}

// ---- program -------------------------------------------------------------------
struct RetireOp {
  int pre_sleep_us;
  int n;          // 1 = retire(r); >= 2 = tick + n x retire(r, tick)
  bool explicit1; // n == 1 but with an explicit tick
};
struct RetirerPlan {
  std::vector<RetireOp> ops;
};
struct ReaderPlan {
  int pre_delay_us;
  int hold_us;
  bool handoff;
};

void do_retire(GC& gc, int thread, const RetirerPlan& plan) {
  for (const RetireOp& op : plan.ops) {
    vsleep(op.pre_sleep_us);
    if (op.n == 1 && !op.explicit1) {
      int id = W->ntasks++;
      TaskRec& t = W->tasks[id];
      t.thread = thread;
      t.payload.set(0xC10000u + (uint64_t)id, "retired payload");
      int64_t t0 = dsched::now_ns();
      t.tick_begin_step = t.retire_begin_step = dsched::step();
      gc.retire(Reclaimer(id));
      t.retire_end_step = dsched::step();
      t.tick_stamp = dsched::stamp();
      t.ticked = true;
      t.retire_done = true;
      if (dsched::now_ns() - t0 >= 1000000) { W->retire_blocked = true; dsched::label("retire_blocked_on_full_queue"); }
      dsched::label("retire_implicit_tick");
    } else {
      int first = W->ntasks;
      W->ntasks += op.n;
      uint64_t b = dsched::step();
      for (int k = 0; k < op.n; k++) {
        TaskRec& t = W->tasks[first + k];
        t.thread = thread;
        t.explicit_tick = true;
        t.tick_begin_step = b;
      }
      uint64_t e = gc.epoch().tick();
      dsched::Stamp s = dsched::stamp();
      for (int k = 0; k < op.n; k++) {
        W->tasks[first + k].tick_stamp = s;
        W->tasks[first + k].ticked = true;
      }
      for (int k = 0; k < op.n; k++) {
        int id = first + k;
        TaskRec& t = W->tasks[id];
        t.payload.set(0xC10000u + (uint64_t)id, "retired payload");
        int64_t t0 = dsched::now_ns();
        t.retire_begin_step = dsched::step();
        gc.retire(Reclaimer(id), e);
        t.retire_end_step = dsched::step();
        t.retire_done = true;
        if (dsched::now_ns() - t0 >= 1000000) { W->retire_blocked = true; dsched::label("retire_blocked_on_full_queue"); }
      }
      dsched::label("retire_explicit_tick_batch");
    }
  }
}

void close_region(RegionRec& r, Accessor& acc) {
  r.unlock_begun = true;
  acc.unlock();
  r.closed_step = dsched::step();
  r.closed_flag.store(1, std::memory_order_release);
  dsched::point();
  acc.release();
}

void do_read(GC& gc, int region, const ReaderPlan& plan) {
  RegionRec& r = W->regions[region];
  vsleep(plan.pre_delay_us);
  Accessor acc = gc.epoch().create_accessor();
  dsched::point();
  // which tasks can this region certainly not hold back: their tick is ordered before we start locking
  uint64_t mask = 0;
  int seen = W->ntasks;
  for (int i = 0; i < seen; i++)
    if (W->tasks[i].ticked && dsched::ordered_after(W->tasks[i].tick_stamp)) mask |= 1ull << i;
  r.nonblocked_mask = mask;
  r.lock_begin_step = dsched::step();
  r.lock_begun = true;
  acc.lock();
  r.lock_done_step = dsched::step();
  if (W->stop_begun && !W->stop_returned) dsched::label("region_opened_during_stop");
  if (plan.handoff) {
    dsched::label("region_closed_by_other_thread");
    int hold = plan.hold_us;
    std::thread closer([&r, hold, a = std::move(acc)]() mutable {
      vsleep(hold);
      close_region(r, a);
    });
    closer.join();
  } else {
    vsleep(plan.hold_us);
    close_region(r, acc);
  }
}

void check_all_invoked(const char* when) {
  for (int i = 0; i < W->ntasks; i++) {
    TaskRec& t = W->tasks[i];
    if (t.invoked == 1) continue;
    char open[256];
    size_t off = 0;
    open[0] = 0;
    for (int k = 0; k < W->nregions && off + 48 < sizeof open; k++) {
      RegionRec& r = W->regions[k];
      if (r.lock_begun && r.closed_step == 0)
        off += (size_t)snprintf(open + off, sizeof open - off, " region %d (lock began step %lu%s)", k, (unsigned long)r.lock_begin_step,
                                r.lock_done_step && r.lock_done_step < t.tick_begin_step ? ", open before the tick" : "");
    }
    dsched::fail("before-stop-returns",
                 "reclaimer %d (T%d, %s, retire returned at step %lu) was invoked %d times by the time %s returned%s; open regions:%s",
                 i, t.thread, t.explicit_tick ? "retire(r,tick)" : "retire(r)", (unsigned long)t.retire_end_step, t.invoked, when,
                 t.dropped ? " (its reclaimer object was destroyed without being invoked)" : "", off ? open : " none");
  }
}

// ---- the case ------------------------------------------------------------------
void run_case(Chooser& c) {
  auto world = std::make_unique<World>();
  W = world.get();
  // "known_f2_stop_with_open_region": true = the known-defective shape is generated (VF_ALLOW_KNOWN)
  const bool known_f2_stop_with_open_region = read_allow_known();

  static const int caps[] = {2, 1, 4, 3, 0};  // 0 = keep the default capacity (1)
  int cap = c.pick(caps);
  int nret = c.range(1, 3);
  std::vector<RetirerPlan> rplans((size_t)nret);
  static const int pre_sleeps[] = {0, 0, 400, 1100, 3000};
  int total = 0;
  for (auto& p : rplans) {
    int nops = c.range(1, 3);
    for (int i = 0; i < nops; i++) {
      RetireOp op{};
      int kind = (int)c.below(4);
      op.n = kind == 1 ? c.range(2, 4) : 1;
      op.explicit1 = kind == 2;
      op.pre_sleep_us = c.pick(pre_sleeps);
      if (total + op.n > MAX_TASKS) break;
      total += op.n;
      p.ops.push_back(op);
    }
  }
  static const int delays[] = {0, 100, 600, 1500, 4000};
  static const int holds[] = {0, 300, 1200, 5000, 30000};
  int nearly = c.range(0, 3), nlate = c.range(0, 2);
  std::vector<ReaderPlan> early((size_t)nearly), late((size_t)nlate);
  for (auto& p : early) { p.pre_delay_us = c.pick(delays); p.hold_us = c.pick(holds); p.handoff = c.flip(); }
  for (auto& p : late) { p.pre_delay_us = c.pick(delays); p.hold_us = c.pick(holds); p.handoff = c.flip(); }
  bool use_dtor = c.chance(1, 4);
  static const int stop_delays[] = {0, 200, 900, 1005, 1100, 2500, 12000, 120000};
  int pre_stop_us = c.pick(stop_delays);
  bool double_start = c.chance(1, 8), stop_twice = c.chance(1, 8);

  dsched::describe("cap=%d %s pre_stop=%dus%s%s%s;", cap, use_dtor ? "dtor" : "stop", pre_stop_us, double_start ? " start-twice" : "",
                   stop_twice ? " stop-twice" : "", known_f2_stop_with_open_region ? " [known F2 shape allowed]" : "");
  for (size_t i = 0; i < rplans.size(); i++) {
    dsched::describe(" R%zu[", i);
    for (auto& op : rplans[i].ops)
      dsched::describe("%s%s%d@+%dus", &op == &rplans[i].ops[0] ? "" : ",", op.n > 1 ? "batch" : op.explicit1 ? "tick+retire" : "retire",
                       op.n, op.pre_sleep_us);
    dsched::describe("]");
  }
  for (size_t i = 0; i < early.size(); i++)
    dsched::describe(" E%zu(+%dus hold %dus%s)", i, early[i].pre_delay_us, early[i].hold_us, early[i].handoff ? " handoff" : "");
  for (size_t i = 0; i < late.size(); i++)
    dsched::describe(" L%zu(+%dus hold %dus%s)", i, late[i].pre_delay_us, late[i].hold_us, late[i].handoff ? " handoff" : "");

  world->nregions = nearly + nlate;
  for (int i = nearly; i < world->nregions; i++) world->regions[i].late = true;

  {
    auto gc = std::make_unique<GC>();
    if (cap > 0) gc->set_queue_capacity((size_t)cap);
    gc->start();
    if (double_start) gc->start();

    std::vector<std::thread> readers, retirers;
    for (int i = 0; i < nearly; i++) readers.emplace_back([&, i] { do_read(*gc, i, early[(size_t)i]); });
    for (int i = 0; i < nret; i++) retirers.emplace_back([&, i] { do_retire(*gc, i + 1, rplans[(size_t)i]); });
    for (auto& t : retirers) t.join();
    for (int i = 0; i < nlate; i++) readers.emplace_back([&, i] { do_read(*gc, nearly + i, late[(size_t)i]); });
    vsleep(pre_stop_us);

    if (use_dtor) {
      // the collector (and its Epoch) may only be destroyed once no accessor refers to it any more
      for (auto& t : readers) t.join();
      readers.clear();
    }

    // The F2 shape: some region that is not (visibly) closed may hold back a reclaimer that has not run yet.
    auto f2_shape = [&]() {
      uint64_t pending = 0;
      for (int i = 0; i < world->ntasks; i++)
        if (!world->tasks[i].invoked) pending |= 1ull << i;
      if (!pending) return false;
      for (int k = 0; k < world->nregions; k++) {
        RegionRec& r = world->regions[k];
        if (r.closed_flag.load(std::memory_order_acquire) == 1) continue;
        if (!r.lock_begun) {
          // not locked yet: with sequentially consistent reads it will observe every tick already taken; with stale
          // reads only a region that is ordered after the ticks (the late ones: spawned after the retirers were
          // joined) is guaranteed to.
          if (dsched::weak_mode() && !r.late) return true;
          continue;
        }
        if (pending & ~r.nonblocked_mask) return true;
      }
      return false;
    };
    if (!known_f2_stop_with_open_region && f2_shape()) {
      dsched::label("excluded_known_f2");
      while (f2_shape()) vsleep(250);
    } else if (known_f2_stop_with_open_region && f2_shape()) {
      dsched::label("known_f2_shape_generated");
    }

    bool overlap = false;
    for (int k = 0; k < world->nregions; k++)
      if (world->regions[k].lock_begun && world->regions[k].closed_step == 0) overlap = true;
    uint64_t stop_begin = dsched::step();
    int pending_at_stop = 0;
    for (int i = 0; i < world->ntasks; i++)
      if (!world->tasks[i].invoked) pending_at_stop++;
    world->stop_begun = true;
    if (use_dtor) {
      gc.reset();
    } else {
      gc->stop();
    }
    world->stop_returned = true;
    check_all_invoked(use_dtor ? "~GarbageCollector()" : "stop()");
    for (int k = 0; k < world->nregions; k++)
      if (world->regions[k].lock_begun && world->regions[k].lock_begin_step > stop_begin) overlap = true;
    if (overlap) dsched::label("stop_overlapped_open_region");
    if (pending_at_stop) dsched::label("stop_with_pending_reclaimers");
    if (overlap && pending_at_stop) dsched::label("stop_overlapped_region_with_pending");
    if (overlap || world->retire_blocked) dsched::nontrivial();
    if (!use_dtor && stop_twice) gc->stop();

    for (auto& t : readers) t.join();
    // destroying a stopped collector must not run or drop anything either
    gc.reset();
  }
  check_all_invoked("the end of the case");
  for (int i = 0; i < world->ntasks; i++) {
    if (world->tasks[i].dropped)
      dsched::fail("exactly-once", "reclaimer %d was invoked but a live copy of it was also destroyed uninvoked", i);
    dsched::mix_hash((uint64_t)i * 1315423911u + world->tasks[i].invoked_step);
  }
  for (int k = 0; k < world->nregions; k++) dsched::mix_hash(world->regions[k].lock_done_step * 31 + world->regions[k].closed_step);
  dsched::label(use_dtor ? "end_by_destructor" : "end_by_stop");
  W = nullptr;
}

void tune(dsched::Params& p, Chooser&) { p.max_steps = 300000; }

}  // namespace

int main(int argc, char** argv) {
  // Epoch::low_water_mark() consults the thread-id allocator (a function-local static) while no accessor exists. The
  // engine does not model the happens-before edge of a static's initialisation guard: construct it before any case.
  (void)babylon::ThreadId::end<babylon::Epoch>();
  vf::Target t;
  t.name = "c10_gc";
  t.property_id = "C10";
  t.run_case = run_case;
  t.tune = tune;
  t.nontrivial_rule = "stop()/destructor overlapped an open region, or a retire() blocked (>= 1 ms virtual) on a full queue";
  return vf::main_driver(argc, argv, t);
}
