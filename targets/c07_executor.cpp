// C07: executors. An accepted task runs exactly once, on a thread that reports is_running_in(), its
// future becomes ready with the callable's value, stop() (and the destructor) drains what was accepted
// before it was called plus what those tasks spawn into local queues; a refused submission never runs
// and yields an invalid future.
//
// ThreadPoolExecutor worker / balance threads are ordinary std::threads, so dsched schedules them. The
// balance thread sleeps on the virtual clock, which only moves when nobody can run: generated "slow"
// tasks call dsched::advance_clock() so that a sweep can overlap running work.
#include <babylon/executor.h>

#include <stdio.h>
#include <stdlib.h>
#include <string.h>
#include <unistd.h>

#include <chrono>
#include <memory>
#include <thread>
#include <vector>

#include "../engine/common/driver.h"

using dsched::Tracked;
using vf::Chooser;

namespace {

struct TaskSpec {
  int id = 0;
  int parent = -1;
  int depth = 0;
  bool use_execute = false;  // execute() (future) instead of submit()
  bool slow = false;         // body lets 1.5 ms of virtual time pass (wakes the balance thread)
  bool refuse = false;       // RefusingExecutor: invoke() fails for this attempt
  int submitter = 0;         // roots: 0 = main thread, k = external submitter k
  bool wakeup_after = false; // roots: wakeup_one_worker() after the submission
  std::vector<int> children;
};

struct TaskState {
  bool attempted = false;  // submit/execute was called
  bool returned = false;   // ... and returned
  bool accepted = false;
  dsched::Stamp accept_stamp{};
  bool pre_stop = false;  // accepted and ordered before the stop() call
  bool must_run = false;
  int runs = 0;
  int run_tid = -1;
  bool finished = false;
  bool has_future = false;
  babylon::Future<int> future;
  Tracked<uint64_t> arg;     // written by the submitter, read by the task
  Tracked<uint64_t> result;  // written by the task, read after stop()/join()
};

enum ExecKind { E_POOL = 0, E_INPLACE, E_NEWTHREAD, E_REFUSING };

struct World {
  std::vector<TaskSpec> spec;
  std::vector<TaskState> state;
  babylon::Executor* exec = nullptr;
  ExecKind kind = E_POOL;
  bool stopped = false;         // stop()/join() returned: nothing may run any more
  bool stop_called = false;
  int* refusing_next = nullptr; // RefusingExecutor: which task the next invoke() belongs to
  size_t global_real = 0;       // real capacity of the global queue
  bool submitter_blocked = false;
  bool migrated = false;        // a child ran on another worker than its parent
};
World* W;

int value_of(int id) { return id * 7 + 1; }
void trace_line(const char* tag);

void spawn(int id);

int body(int id) {
  TaskState& s = W->state[(size_t)id];
  const TaskSpec& t = W->spec[(size_t)id];
  s.runs++;
  if (s.runs > 1) dsched::fail("exactly-once", "task %d ran %d times", id, s.runs);
  if (!s.attempted) dsched::fail("exactly-once", "task %d ran but was never submitted", id);
  if (t.refuse) dsched::fail("refused-ran", "task %d ran although invoke() refused it", id);
  if (W->stopped) dsched::fail("run-after-stop", "task %d started after stop()/join() had returned", id);
  s.run_tid = dsched::tid();
  if (!W->exec->is_running_in()) dsched::fail("is-running-in", "is_running_in() is false inside task %d (T%d)", id, dsched::tid());
  uint64_t a = s.arg.get("task argument");
  if (a != (uint64_t)id * 31 + 5) dsched::fail("payload", "task %d saw argument %lu", id, (unsigned long)a);
  if (t.parent >= 0 && W->kind == E_POOL) {
    const TaskState& ps = W->state[(size_t)t.parent];
    if (ps.run_tid >= 0 && ps.run_tid != s.run_tid) W->migrated = true;
  }
  dsched::point();
  if (t.slow) dsched::advance_clock(1500000);
  for (int ch : t.children) {
    spawn(ch);
    dsched::point();
    if (!W->exec->is_running_in())
      dsched::fail("is-running-in", "is_running_in() became false inside task %d after it submitted task %d", id, ch);
  }
  if (t.slow) dsched::advance_clock(700000);
  if (W->stopped) dsched::fail("run-after-stop", "task %d was still running after stop()/join() had returned", id);
  s.result.set((uint64_t)value_of(id), "task result");
  s.finished = true;
  return value_of(id);
}

// submit / execute task `id` on the executor under test from the current thread
void spawn(int id) {
  TaskState& s = W->state[(size_t)id];
  const TaskSpec& t = W->spec[(size_t)id];
  if (s.attempted) dsched::fail("harness", "task %d submitted twice", id);
  s.attempted = true;
  s.arg.set((uint64_t)id * 31 + 5, "task argument");
  bool root = t.parent < 0;
  if (root && W->kind == E_POOL) {
    // roots only ever travel through the global queue: accepted and not started == still queued
    size_t queued = 0;
    for (size_t i = 0; i < W->state.size(); i++)
      if (W->spec[i].parent < 0 && W->state[i].returned && W->state[i].accepted && W->state[i].runs == 0) queued++;
    if (queued >= W->global_real && !W->stop_called) W->submitter_blocked = true;
  }
  if (W->refusing_next) *W->refusing_next = id;
  if (t.use_execute) {
    babylon::Future<int> f = W->exec->execute([id] { return body(id); });
    s.accepted = f.valid();
    s.future = f;
    s.has_future = true;
    dsched::label("execute");
  } else {
    int r = W->exec->submit([id] { body(id); });
    s.accepted = r == 0;
    dsched::label("submit");
  }
  s.accept_stamp = dsched::stamp();
  s.returned = true;
  if (t.refuse) {
    if (s.accepted) dsched::fail("refused-accepted", "invoke() refused task %d but %s reported success", id, t.use_execute ? "execute (valid future)" : "submit");
    if (s.runs) dsched::fail("refused-ran", "task %d ran although invoke() refused it", id);
    dsched::label("refused");
  } else if (!s.accepted) {
    dsched::fail("accept", "%s of task %d failed although the executor accepts everything", t.use_execute ? "execute" : "submit", id);
  }
}

void check_future_ready(int id, const char* when) {
  TaskState& s = W->state[(size_t)id];
  if (!s.has_future || !s.accepted) return;
  if (!s.future.valid()) dsched::fail("future", "%s: future of task %d lost its state", when, id);
  if (!s.future.ready()) dsched::fail("future", "%s: task %d has finished but its future is not ready", when, id);
  int v = s.future.get();
  if (v != value_of(id)) dsched::fail("future", "%s: future of task %d holds %d, the callable returned %d", when, id, v, value_of(id));
}

// ---------------------------------------------------------------------------------------------
// program generation: a forest of depth <= 2
struct Shape {
  int max_tasks;
  int max_roots;
  int max_spawned = 100;  // tasks submitted from inside tasks
};
void gen_forest(Chooser& c, const Shape& sh, int nsub, bool allow_refuse) {
  int nroots = c.range(1, sh.max_roots);
  auto add = [&](int parent, int depth) {
    TaskSpec t;
    t.id = (int)W->spec.size();
    t.parent = parent;
    t.depth = depth;
    t.use_execute = c.flip();
    t.slow = c.chance(1, 3);
    t.refuse = allow_refuse && c.chance(1, 3);
    W->spec.push_back(t);
    if (parent >= 0) W->spec[(size_t)parent].children.push_back(t.id);
    return t.id;
  };
  int spawned = 0;
  auto room = [&] { return (int)W->spec.size() < sh.max_tasks && spawned < sh.max_spawned; };
  for (int r = 0; r < nroots && (int)W->spec.size() < sh.max_tasks; r++) {
    int root = add(-1, 0);
    W->spec[(size_t)root].submitter = (int)c.below((uint32_t)nsub + 1);
    W->spec[(size_t)root].wakeup_after = c.chance(1, 5);
    int nch = c.range(0, 3);
    for (int k = 0; k < nch && room(); k++) {
      int ch = add(root, 1);
      spawned++;
      int ng = c.range(0, 2);
      for (int g = 0; g < ng && room(); g++) {
        add(ch, 2);
        spawned++;
      }
    }
  }
  W->state.resize(W->spec.size());
}
void describe_forest() {
  for (const TaskSpec& t : W->spec) {
    if (t.parent >= 0) continue;
    dsched::describe(" S%d:%s%d%s%s", t.submitter, t.use_execute ? "x" : "s", t.id, t.slow ? "~" : "", t.refuse ? "!" : "");
    if (!t.children.empty()) {
      dsched::describe("(");
      for (int ch : t.children) {
        const TaskSpec& c1 = W->spec[(size_t)ch];
        dsched::describe("%s%d%s%s", c1.use_execute ? "x" : "s", c1.id, c1.slow ? "~" : "", c1.refuse ? "!" : "");
        if (!c1.children.empty()) {
          dsched::describe("[");
          for (int g : c1.children) {
            const TaskSpec& c2 = W->spec[(size_t)g];
            dsched::describe("%s%d%s", c2.use_execute ? "x" : "s", c2.id, c2.refuse ? "!" : "");
          }
          dsched::describe("]");
        }
        dsched::describe(" ");
      }
      dsched::describe(")");
    }
    if (t.wakeup_after) dsched::describe("+w");
  }
}

void final_accounting() {
  for (size_t i = 0; i < W->state.size(); i++) {
    const TaskState& s = W->state[i];
    if (s.runs > 1) dsched::fail("exactly-once", "task %zu ran %d times", i, s.runs);
    if (s.runs && !s.finished) dsched::fail("drain", "task %zu started but never finished", i);
    dsched::mix_hash((uint64_t)i * 1000003u + (uint64_t)(s.run_tid + 2) * 17 + (uint64_t)s.runs);
  }
}

// ---------------------------------------------------------------------------------------------
void run_pool(Chooser& c) {
  int workers = c.range(1, 3);
  int local_cap = c.range(0, 4);
  bool fit_local = c.chance(1, 2);  // make the local capacity large enough for every spawn of the program
  int global_cap = c.range(1, 4);
  bool steal = c.flip();
  bool balance = c.chance(1, 3);
  int nsub = c.range(0, 2);
  bool racing = nsub > 0 && c.chance(1, 4);
  bool dtor_only = !racing && c.chance(1, 5);
  bool wait_roots = !racing && c.chance(1, 4);
  bool double_stop = c.chance(1, 4);
  int extra_wakeups = c.range(0, 2);  // wakeup_one_worker() calls by the main thread after its submissions
  gen_forest(c, Shape{12, 6, fit_local ? 4 : 100}, nsub, false);

  int R = extra_wakeups, S = 0;
  for (const TaskSpec& t : W->spec) {
    if (t.parent < 0) R += 1 + (t.wakeup_after ? 1 : 0);
    else S++;
  }
  if (fit_local && S > local_cap) local_cap = S;  // S <= 4 in this mode
  // every spawn of a worker fits its local queue whatever the schedule
  bool all_local = S == 0 || (local_cap > 0 && S <= local_cap);
  // Precondition (no deadlock "by design"): a worker (or a submitter racing stop()) must never wait on a full
  // global queue that only workers could drain. When that could happen the global queue is made large enough
  // to hold everything that is ever pushed into it (tasks + wakeups + STOP markers).
  bool never_full = !all_local || racing;
  auto real_cap = [](int gc) { size_t n = 1; while (n < (size_t)gc * 2) n <<= 1; return n; };
  if (never_full)
    while (real_cap(global_cap) < (size_t)(R + S + workers)) global_cap++;
  W->global_real = real_cap(global_cap);
  // Futures of tasks that may legally be dropped must be released before the queues are destroyed (a Promise
  // must not die unfulfilled while a Future waits: assert in ~Promise). With a destructor-only stop the harness
  // gets no chance to do that, so such tasks use submit().
  if (dtor_only && !all_local)
    for (TaskSpec& t : W->spec)
      if (t.parent >= 0) t.use_execute = false;

  dsched::describe("pool w=%d local=%d global=%d(real %zu) steal=%d balance=%d subs=%d wk=%d%s%s%s%s all_local=%d;", workers, local_cap, global_cap,
                   W->global_real, (int)steal, (int)balance, nsub, extra_wakeups, racing ? " RACING-STOP" : "", dtor_only ? " dtor-only" : "",
                   wait_roots ? " wait-roots" : "", double_stop ? " stop-twice" : "", (int)all_local);
  describe_forest();
  trace_line("B");
  dsched::label("pool");
  if (racing) dsched::label("stop_races_submitters");
  if (dtor_only) dsched::label("stop_by_destructor");
  if (balance) dsched::label("balance_thread");
  if (steal) dsched::label("work_stealing");
  if (all_local && S > 0) dsched::label("all_spawns_fit_local");

  auto decide_pre_stop = [&] {
    W->stop_called = true;
    for (size_t i = 0; i < W->state.size(); i++) {
      TaskState& s = W->state[i];
      s.pre_stop = s.returned && s.accepted && dsched::ordered_after(s.accept_stamp);
    }
  };
  auto after_stop_checks = [&](const char* when) {
    // tasks are numbered parents-first
    int must = 0;
    for (size_t i = 0; i < W->state.size(); i++) {
      TaskState& s = W->state[i];
      const TaskSpec& t = W->spec[i];
      s.must_run = s.pre_stop || (t.parent >= 0 && all_local && W->state[(size_t)t.parent].must_run);
      if (s.runs > 1) dsched::fail("exactly-once", "task %zu ran %d times", i, s.runs);
      if (s.must_run) {
        must++;
        if (s.runs != 1)
          dsched::fail("drain", "%s returned but task %zu (%s, accepted before stop() was called%s) never ran", when, i,
                       t.parent < 0 ? "root" : "spawned inside a task", s.pre_stop ? "" : " via its parent, local queue");
        if (!s.finished) dsched::fail("drain", "%s returned while task %zu is still running", when, i);
      }
      if (s.runs && !s.finished) dsched::fail("drain", "%s returned while task %zu is still running", when, i);
      if (s.finished) {
        if (s.result.get("task result") != (uint64_t)value_of((int)i)) dsched::fail("payload", "task %zu result corrupted", i);
        check_future_ready((int)i, when);
      }
    }
    if (must < (int)W->state.size()) dsched::label("some_tasks_may_be_dropped");
  };

  {
    babylon::ThreadPoolExecutor ex;
    W->exec = &ex;
    ex.set_worker_number((size_t)workers);
    ex.set_local_capacity((size_t)local_cap);
    ex.set_global_capacity((size_t)global_cap);
    ex.set_enable_work_stealing(steal);
    if (balance) ex.set_balance_interval(std::chrono::milliseconds(1));
    if (ex.start() != 0) dsched::fail("start", "start() failed");
    if (ex.is_running_in()) dsched::fail("is-running-in", "is_running_in() is true on the thread that owns the executor");

    auto run_submitter = [&](int who) {
      for (const TaskSpec& t : W->spec) {
        if (t.parent >= 0 || t.submitter != who) continue;
        spawn(t.id);
        if (t.wakeup_after) {
          ex.wakeup_one_worker();
          dsched::label("wakeup_one_worker");
        }
        dsched::point();
      }
    };
    std::vector<std::thread> subs;
    for (int k = 1; k <= nsub; k++) subs.emplace_back([&, k] { run_submitter(k); });
    run_submitter(0);
    for (int i = 0; i < extra_wakeups; i++) {
      dsched::yield_point();
      ex.wakeup_one_worker();
      dsched::label("wakeup_one_worker");
    }
    if (!racing)
      for (auto& th : subs) th.join();
    if (wait_roots) {
      for (const TaskSpec& t : W->spec)
        if (t.parent < 0 && t.use_execute) {
          int v = W->state[(size_t)t.id].future.get();
          if (v != value_of(t.id)) dsched::fail("future", "get() of task %d returned %d", t.id, v);
        }
      dsched::label("main_waited_for_root_futures");
    }
    if (!dtor_only) {
      decide_pre_stop();
      ex.stop();
      W->stopped = true;
      if (racing) {
        // the racing submitters may still be inside submit(); they do not run tasks
        after_stop_checks("stop()");
        for (auto& th : subs) th.join();
      }
      after_stop_checks("stop()");
      if (double_stop) ex.stop();
      // release the futures of tasks that were (legally) dropped before the queues die
      for (TaskState& s : W->state) s.future = babylon::Future<int>();
    } else {
      decide_pre_stop();
    }
  }  // ~ThreadPoolExecutor
  W->exec = nullptr;
  if (dtor_only) {
    W->stopped = true;
    after_stop_checks("~ThreadPoolExecutor()");
  }
  final_accounting();
  if (W->migrated) dsched::label("child_ran_on_another_worker");
  if (W->submitter_blocked) dsched::label("submitter_met_full_global_queue");
  if ((workers >= 2 && local_cap > 0 && W->migrated) || W->submitter_blocked) dsched::nontrivial();
}

// ---------------------------------------------------------------------------------------------
void run_inplace(Chooser& c) {
  babylon::InplaceExecutor& ex = babylon::InplaceExecutor::instance();
  W->exec = &ex;
  int nsub = c.range(0, 1);
  gen_forest(c, Shape{10, 4}, nsub, false);
  dsched::describe("inplace subs=%d;", nsub);
  describe_forest();
  trace_line("B");
  dsched::label("inplace");
  auto check_subtree_done = [&](int id, auto&& self) -> void {
    const TaskState& s = W->state[(size_t)id];
    if (s.runs != 1 || !s.finished) dsched::fail("inplace", "submit/execute returned but task %d has run %d times (finished=%d)", id, s.runs, (int)s.finished);
    check_future_ready(id, "InplaceExecutor submit/execute return");
    for (int ch : W->spec[(size_t)id].children) self(ch, self);
  };
  auto run_submitter = [&](int who) {
    for (const TaskSpec& t : W->spec) {
      if (t.parent >= 0 || t.submitter != who) continue;
      if (ex.is_running_in()) dsched::fail("is-running-in", "is_running_in() true outside any task (T%d)", dsched::tid());
      spawn(t.id);
      check_subtree_done(t.id, check_subtree_done);
      if (W->state[(size_t)t.id].run_tid != dsched::tid()) dsched::fail("inplace", "task %d ran on another thread", t.id);
      if (ex.is_running_in()) dsched::fail("is-running-in", "is_running_in() still true after the inplace task %d returned", t.id);
      dsched::point();
    }
  };
  std::vector<std::thread> subs;
  for (int k = 1; k <= nsub; k++) subs.emplace_back([&, k] { run_submitter(k); });
  run_submitter(0);
  for (auto& th : subs) th.join();
  W->stopped = true;
  final_accounting();
  for (size_t i = 0; i < W->state.size(); i++)
    if (W->state[i].runs != 1) dsched::fail("drain", "task %zu ran %d times", i, W->state[i].runs);
  W->exec = nullptr;
  if (nsub > 0 && dsched::stat_switches() >= 2) dsched::nontrivial();
}

void run_newthread(Chooser& c) {
  babylon::AlwaysUseNewThreadExecutor& ex = babylon::AlwaysUseNewThreadExecutor::instance();
  W->exec = &ex;
  int nsub = c.range(0, 1);
  gen_forest(c, Shape{9, 4}, nsub, false);
  dsched::describe("newthread subs=%d;", nsub);
  describe_forest();
  trace_line("B");
  dsched::label("new_thread");
  auto run_submitter = [&](int who) {
    for (const TaskSpec& t : W->spec) {
      if (t.parent >= 0 || t.submitter != who) continue;
      spawn(t.id);
      dsched::point();
    }
  };
  std::vector<std::thread> subs;
  for (int k = 1; k <= nsub; k++) subs.emplace_back([&, k] { run_submitter(k); });
  run_submitter(0);
  for (auto& th : subs) th.join();
  ex.join();
  W->stopped = true;
  bool other_thread = false;
  for (size_t i = 0; i < W->state.size(); i++) {
    TaskState& s = W->state[i];
    if (s.runs != 1 || !s.finished) dsched::fail("drain", "join() returned but task %zu has run %d times (finished=%d)", i, s.runs, (int)s.finished);
    if (s.result.get("task result") != (uint64_t)value_of((int)i)) dsched::fail("payload", "task %zu result corrupted", i);
    check_future_ready((int)i, "AlwaysUseNewThreadExecutor::join()");
    if (s.run_tid != 0) other_thread = true;
  }
  final_accounting();
  W->exec = nullptr;
  if (other_thread && W->state.size() >= 2 && dsched::stat_switches() >= 2) dsched::nontrivial();
}

// harness executor: invoke() refuses the generated attempts, runs the others in place
struct RefusingExecutor : public babylon::Executor {
  int invoke(babylon::MoveOnlyFunction<void(void)>&& function) noexcept override {
    int id = next_id;
    next_id = -1;
    if (id < 0) dsched::fail("harness", "invoke() without a pending attempt");
    dsched::point();
    if (W->spec[(size_t)id].refuse) {
      // "!= 0: front-end transfer failed" (BasicExecutor::invoke): any non-zero code is a refusal, negative or
      // errno-style positive. Derived from the case, not drawn, so that saved replays keep their meaning.
      static const int codes[] = {-1, 1, 11 /*EAGAIN*/, 12 /*ENOMEM*/, INT32_MIN, INT32_MAX, -22};
      int code = codes[((size_t)id * 3 + W->spec.size()) % (sizeof(codes) / sizeof(codes[0]))];
      dsched::label(code > 0 ? "refused_with_positive_code" : "refused_with_negative_code");
      return code;  // not moved away, never called
    }
    RunnerScope scope{*this};
    function();
    return 0;
  }
  int next_id = -1;
};

void run_refusing(Chooser& c) {
  RefusingExecutor ex;
  W->exec = &ex;
  gen_forest(c, Shape{10, 5}, 0, true);
  dsched::describe("refusing;");
  describe_forest();
  trace_line("B");
  dsched::label("refusing");
  W->refusing_next = &ex.next_id;  // spawn() tells invoke() which task the next attempt belongs to
  bool any_refused = false;
  for (const TaskSpec& t : W->spec) {
    if (t.parent >= 0) continue;
    spawn(t.id);
    if (ex.is_running_in()) dsched::fail("is-running-in", "is_running_in() true outside any task");
  }
  W->stopped = true;
  for (size_t i = 0; i < W->state.size(); i++) {
    const TaskSpec& t = W->spec[i];
    TaskState& s = W->state[i];
    bool ancestor_refused = false;
    for (int p = t.parent; p >= 0; p = W->spec[(size_t)p].parent)
      if (W->spec[(size_t)p].refuse) ancestor_refused = true;
    if (ancestor_refused) {
      if (s.attempted || s.runs) dsched::fail("refused-ran", "task %zu was submitted by a task that must never have run", i);
      continue;
    }
    if (t.refuse) {
      any_refused = true;
      if (s.runs) dsched::fail("refused-ran", "task %zu ran although invoke() refused it", i);
      if (s.accepted) dsched::fail("refused-accepted", "task %zu refused but reported as accepted", i);
      if (s.has_future && s.future.valid()) dsched::fail("refused-future", "execute of refused task %zu returned a valid future", i);
    } else {
      if (s.runs != 1 || !s.finished) dsched::fail("drain", "accepted task %zu has run %d times", i, s.runs);
      check_future_ready((int)i, "RefusingExecutor");
    }
  }
  final_accounting();
  W->exec = nullptr;
  if (any_refused) dsched::nontrivial();
}

// debugging aid: VF_TRACE_FILE=<path> appends "B <pid> <description>" / "E <pid>" lines per case
dsched::Params g_params;   // copy for the trace only
const Chooser* g_chooser;
void trace_line(const char* tag) {
  const char* f = getenv("VF_TRACE_FILE");
  if (!f) return;
  FILE* fp = fopen(f, "a");
  if (!fp) return;
  if (tag[0] == 'B') {
    fprintf(fp, "B %d seed=%lu strategy=%d pct_depth=%d p_switch=%u p_stale=%u prog=[", (int)getpid(), (unsigned long)g_params.seed,
            g_params.strategy, g_params.pct_depth, g_params.p_switch_x1000, g_params.p_stale_x1000);
    for (size_t i = 0; i < g_chooser->pos && i < g_chooser->data->size(); i++) fprintf(fp, "%s%u", i ? "," : "", (*g_chooser->data)[i]);
    fprintf(fp, "] %s\n", dsched::result_block()->describe);
  } else {
    fprintf(fp, "E %d steps=%lu switches=%lu\n", (int)getpid(), (unsigned long)dsched::step(), (unsigned long)dsched::stat_switches());
  }
  fclose(fp);
}

void run_case(Chooser& c) {
  World world;
  W = &world;
  g_chooser = &c;
  uint32_t k = c.below(12);
  world.kind = k < 9 ? E_POOL : k == 9 ? E_INPLACE : k == 10 ? E_NEWTHREAD : E_REFUSING;
  switch (world.kind) {
    case E_POOL: run_pool(c); break;
    case E_INPLACE: run_inplace(c); break;
    case E_NEWTHREAD: run_newthread(c); break;
    case E_REFUSING: run_refusing(c); break;
  }
  dsched::mix_hash(dsched::stat_switches());
  trace_line("E");
  W = nullptr;
}

void tune(dsched::Params& p, Chooser&) {
  p.max_steps = 300000;
  g_params = p;
}

}  // namespace

int main(int argc, char** argv) {
  vf::Target t;
  t.name = "c07_executor";
  t.property_id = "C07";
  t.run_case = run_case;
  t.tune = tune;
  t.nontrivial_rule =
      "pool: >= 2 workers, local capacity > 0 and a task ran on another worker than the task that spawned it (steal, balance or "
      "overflow), or a submitter met a full global queue; inplace/new-thread: a second submitter or >= 2 tasks with >= 2 context "
      "switches; refusing executor: at least one refused attempt";
  return vf::main_driver(argc, argv, t);
}
