// Known-finding guards. A target excludes exactly the shape of a listed finding from its search unless the
// finding's token is named in VF_ALLOW_KNOWN ("1" = all). `vf` names the tokens of findings that are recorded as
// FIXED in known_findings.json, so that a repaired defect is searched for again and reported if it returns.
#pragma once
#include <stdlib.h>
#include <string.h>
inline bool vf_allow_known(const char* token) {
  const char* e = getenv("VF_ALLOW_KNOWN");
  if (!e || !*e || !strcmp(e, "0")) return false;
  if (!strcmp(e, "1")) return true;
  size_t n = strlen(token);
  for (const char* p = e; *p;) {
    const char* q = strchr(p, ',');
    size_t len = q ? (size_t)(q - p) : strlen(p);
    if (len == n && !strncmp(p, token, n)) return true;
    if (!q) break;
    p = q + 1;
  }
  return false;
}
