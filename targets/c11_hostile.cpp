// C11 (hostile input): arbitrary bytes are handed to the parser of one of the root types of
// c11_common.h through one of the input presentations. The parse must terminate without a
// sanitizer report / abort; whenever it reports success the result must serialize (size oracle)
// and parse back to itself. Built twice: with assertions and with -DNDEBUG (the wire-type check in
// deserialize_field exists only without NDEBUG).
//
// input layout: [root][presentation][chunk pattern a][chunk pattern b] payload...
#include "c11_common.h"
#include "proto/c11_compat.pb.cc"

namespace {
using namespace c11;

const char* RULE =
    "payload bytes parsed as one of the root types through one of 6 input presentations; non-trivial = the parser accepted the "
    "payload and the accepted value has a non-empty re-encoding (it consumed at least one tag / element), which then goes "
    "through the serialize -> parse fixpoint check";

// F5 (known finding): the top-level deserialize of std::vector<float/double> (and smart pointers
// to it) reserves BytesUntilLimit()/sizeof(T) elements, which is SIZE_MAX/sizeof(T) on a
// stream-backed CodedInputStream without an enclosing limit: length_error inside noexcept.
template <class T>
bool known_f5_toplevel_vector_unlimited_stream(int in_kind) {
  return f5_reserves<T>::value && in_is_unlimited_stream(in_kind);
}

template <class T>
void run_root(int root, int in_kind, const Pattern& pat, const std::string& payload, const uint8_t* data, size_t size) {
  std::string desc = std::string(root_names()[root]) + " via " + in_name(in_kind) + " chunks " + pat.str() + " payload " + hex(payload, 300);
  if (known_f5_toplevel_vector_unlimited_stream<T>(in_kind) && !allow_known("f5")) {
    vfz::label("excluded_known_f5");
    return;
  }
  auto first = std::make_unique<Holder<T>>();
  bool accepted = parse_with(in_kind, pat, payload, first->get());
  vfz::label(accepted ? "accepted" : "rejected");
  if (!accepted) return;
  // success => the result serializes and parses back to itself
  std::string bytes;
  size_t predicted = 0;
  if (!serialize_with(OUT_STRING, pat, first->get(), bytes, predicted)) vfz::fail(desc, "accepted value does not serialize");
  if (bytes.size() != predicted) {
    std::string got;
    show(first->get(), got);
    vfz::fail(desc, "size oracle on the accepted value %s: calculate_serialized_size == %zu, produced %zu bytes: %s", got.c_str(), predicted,
              bytes.size(), hex(bytes).c_str());
  }
  // the re-encoding goes back through the same presentation unless that is the F5 shape
  int back_kind = (f5_affected<T>::value && in_is_unlimited_stream(in_kind) && !allow_known("f5")) ? IN_STREAM_LIMIT : in_kind;
  auto second = std::make_unique<Holder<T>>();
  if (!parse_with(back_kind, pat, bytes, second->get())) {
    std::string got;
    show(first->get(), got);
    vfz::fail(desc, "accepted value %s re-encodes to %s which %s rejects", got.c_str(), hex(bytes).c_str(), in_name(back_kind));
  }
  std::string why;
  if (!eq(first->get(), second->get(), why)) {
    std::string a, b;
    show(first->get(), a);
    show(second->get(), b);
    vfz::fail(desc, "fixpoint: accepted value %s re-encodes to %s which parses to %s (value%s)", a.c_str(), hex(bytes).c_str(), b.c_str(),
              why.c_str());
  }
  vfz::label(root_names()[root]);
  if (!bytes.empty()) {
    vfz::label(bytes.size() >= 128 ? "accepted_reencoding>=128" : "accepted_reencoding<128");
    vfz::nontrivial(vfz::hash_bytes(data, size), desc.substr(0, 600));
  }
}

}  // namespace

extern "C" int LLVMFuzzerTestOneInput(const uint8_t* data, size_t size) {
  vfz::begin_case(RULE);
  quiet_protobuf();
  uint8_t head[4] = {0, 0, 1, 0};
  for (size_t i = 0; i < 4 && i < size; i++) head[i] = data[i];
  int root = head[0] % ROOTS;
  int in_kind = head[1] % IN_KINDS;
  Pattern pat;
  pat.n = 1 + (head[2] >> 6);
  pat.sz[0] = head[2] & 7;
  pat.sz[1] = (head[2] >> 3) & 7;
  pat.sz[2] = head[3] & 7;
  pat.sz[3] = (head[3] >> 3) & 7;
  bool nonzero = false;
  for (int i = 0; i < pat.n; i++) nonzero |= pat.sz[i] != 0;
  if (!nonzero) pat.sz[0] = 1 + head[3] % 7;
  std::string payload(size > 4 ? (const char*)data + 4 : "", size > 4 ? size - 4 : 0);
  with_root(root, [&](auto tag) { run_root<typename decltype(tag)::type>(root, in_kind, pat, payload, data, size); });
  return 0;
}
