// C11 (hostile input): arbitrary bytes are handed to the parser of one of the root types of
// c11_common.h through one of the input presentations. The parse must terminate without a
// sanitizer report / abort; whenever it reports success the result must serialize (size oracle)
// and parse back to itself. Built twice: with assertions and with -DNDEBUG (the wire-type check in
// deserialize_field exists only without NDEBUG).
//
// input layout: [root][presentation][chunk pattern a][chunk pattern b] payload...
#include "c11_common.h"
#include "proto/c11_compat.pb.cc"

namespace {
using namespace c11;

const char* RULE =
    "payload bytes parsed as one of the root types through one of 6 input presentations; non-trivial = the parser accepted the "
    "payload and the accepted value has a non-empty re-encoding (it consumed at least one tag / element), which then goes "
    "through the serialize -> parse fixpoint check";

// F5 (known finding): std::vector<float/double>::deserialize reserves BytesUntilLimit()/sizeof(T)
// elements. On a stream-backed CodedInputStream without an enclosing limit BytesUntilLimit() is -1
// (a) for a top-level vector, and (b) for a vector below the root whenever the announced length
// of the enclosing field is larger than INT_MAX - position or negative as an int, because
// CodedInputStream::PushLimit ignores such a limit: reserve(SIZE_MAX/sizeof(T)) throws
// length_error inside a noexcept function. Shape excluded by default: limit-less stream
// presentation and either the root is such a vector (or a smart pointer to one), or the root
// reaches one and the payload holds a varint of 4 or more bytes (value >= 2^21). The bound is that
// low because the same line also reserves every announced length that PushLimit does accept
// before a single element is read (up to 2 GiB from 6 bytes of input, again and again when the
// vector sits behind a shared_ptr): not memory corruption, so not counted as a violation here, but
// hundreds of such reservations in one payload take seconds under ASan and would trip the
// termination watchdog.
inline bool has_big_varint(const std::string& p) {
  for (size_t i = 0; i + 3 < p.size(); i++)
    if ((p[i] & 0x80) && (p[i + 1] & 0x80) && (p[i + 2] & 0x80)) return true;
  return false;
}
template <class T>
bool known_f5_vector_reserve_unlimited_stream(int in_kind, const std::string& payload) {
  if (!in_is_unlimited_stream(in_kind)) return false;
  return f5_reserves<T>::value || (f5_reserve_reach<T>() && has_big_varint(payload));
}

// Finding of this target (token c11-no-progress): a container of length-delimited elements reads each element's
// length with `is.ReadVarint32(&length) ? length : 0`, so an unreadable length makes an "empty"
// element whose parse succeeds without consuming anything, and the container loop never advances:
// it spins forever and, for vector / list, grows without bound. Two ways to get there:
//  (a) a varint longer than 10 bytes (ReadVarint32 fails without consuming once >= 10 bytes are
//      buffered): any container of length-delimited elements, any presentation;
//  (b) the input ends before the announced end of a std::vector / ReusableVector (loop condition
//      BytesUntilLimit() > 0) on a stream-backed CodedInputStream without an enclosing limit,
//      where PushLimit accepts a limit beyond the end of the data: any truncated input. The same
//      happens when the elements are smart pointers (unique_ptr/shared_ptr::deserialize returns
//      true when nothing can be read).
// Shapes excluded by default: (a) the root reaches such a container and the payload holds 10
// consecutive bytes with the continuation bit; (b) limit-less stream presentation and the root
// reaches a vector of length-delimited or smart-pointer elements.
template <class T>
bool known_unreadable_length_no_progress(int in_kind, const std::string& payload) {
  if (in_is_unlimited_stream(in_kind) && noprogress_vector_reach<T>()) return true;
  if (!noprogress_reach<T>()) return false;
  int run = 0;
  for (unsigned char c : payload) {
    run = (c & 0x80) ? run + 1 : 0;
    if (run >= 10) return true;
  }
  return false;
}

template <class T>
void run_root(int root, int in_kind, const Pattern& pat, const std::string& payload, const uint8_t* data, size_t size) {
  std::string desc = std::string(root_names()[root]) + " via " + in_name(in_kind) + " chunks " + pat.str() + " payload " + hex(payload, 300);
  // F5 proper (token f5): the root itself is a float/double vector on a limit-less stream
  if (in_is_unlimited_stream(in_kind) && f5_reserves<T>::value && !allow_known("f5")) {
    vfz::label("excluded_known_f5");
    return;
  }
  // Harness resource bound, independent of any finding: on a limit-less stream PushLimit accepts an announced
  // length far beyond the data and vector<float/double> reserves it up front (up to 2 GiB from 6 bytes). That is
  // neither memory corruption nor non-termination, so it is not judged; such payloads are skipped because hundreds
  // of these reservations per input would only trip the allocation watchdog.
  if (in_is_unlimited_stream(in_kind) && !f5_reserves<T>::value && f5_reserve_reach<T>() && has_big_varint(payload)) {
    vfz::label("skipped_huge_announced_length_on_unlimited_stream");
    return;
  }
  if (known_unreadable_length_no_progress<T>(in_kind, payload) && !allow_known("c11-no-progress")) {
    vfz::label("excluded_known_no_progress");
    return;
  }
  Watchdog watchdog(desc, 20);
  auto first = std::make_unique<Holder<T>>();
  bool accepted = parse_with(in_kind, pat, payload, first->get());
  vfz::label(accepted ? "accepted" : "rejected");
  if (!accepted) return;
  // success => the result serializes and parses back to itself
  std::string bytes;
  size_t predicted = 0;
  if (!serialize_with(OUT_STRING, pat, first->get(), bytes, predicted)) vfz::fail(desc, "accepted value does not serialize");
  if (bytes.size() != predicted) {
    std::string got;
    show(first->get(), got);
    vfz::fail(desc, "size oracle on the accepted value %s: calculate_serialized_size == %zu, produced %zu bytes: %s", got.c_str(), predicted,
              bytes.size(), hex(bytes).c_str());
  }
  // the re-encoding goes back through the same presentation unless that is the F5 shape
  int back_kind = (f5_affected<T>::value && in_is_unlimited_stream(in_kind) && !allow_known("f5")) ? IN_STREAM_LIMIT : in_kind;
  auto second = std::make_unique<Holder<T>>();
  if (!parse_with(back_kind, pat, bytes, second->get())) {
    std::string got;
    show(first->get(), got);
    vfz::fail(desc, "accepted value %s re-encodes to %s which %s rejects", got.c_str(), hex(bytes).c_str(), in_name(back_kind));
  }
  std::string why;
  if (!eq(first->get(), second->get(), why)) {
    std::string a, b;
    show(first->get(), a);
    show(second->get(), b);
    vfz::fail(desc, "fixpoint: accepted value %s re-encodes to %s which parses to %s (value%s)", a.c_str(), hex(bytes).c_str(), b.c_str(),
              why.c_str());
  }
  vfz::label(root_names()[root]);
  if (!bytes.empty()) {
    vfz::label(bytes.size() >= 128 ? "accepted_reencoding>=128" : "accepted_reencoding<128");
    vfz::nontrivial(vfz::hash_bytes(data, size), desc.substr(0, 600));
  }
}

}  // namespace

extern "C" int LLVMFuzzerTestOneInput(const uint8_t* data, size_t size) {
  vfz::begin_case(RULE);
  quiet_protobuf();
  strip_witness_prefix(data, size);
  uint8_t head[4] = {0, 0, 1, 0};
  for (size_t i = 0; i < 4 && i < size; i++) head[i] = data[i];
  int root = head[0] % ROOTS;
  int in_kind = head[1] % IN_KINDS;
  Pattern pat;
  pat.n = 1 + (head[2] >> 6);
  pat.sz[0] = head[2] & 7;
  pat.sz[1] = (head[2] >> 3) & 7;
  pat.sz[2] = head[3] & 7;
  pat.sz[3] = (head[3] >> 3) & 7;
  bool nonzero = false;
  for (int i = 0; i < pat.n; i++) nonzero |= pat.sz[i] != 0;
  if (!nonzero) pat.sz[0] = 1 + head[3] % 7;
  std::string payload(size > 4 ? (const char*)data + 4 : "", size > 4 ? size - 4 : 0);
  with_root(root, [&](auto tag) { run_root<typename decltype(tag)::type>(root, in_kind, pat, payload, data, size); });
  return 0;
}
