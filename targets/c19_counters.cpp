// C19: counters / enumerable thread-locals across thread generations and instance generations.
//
// A case is a history of phases. Before each phase the main thread constructs / destroys / moves /
// resets counter objects (so compact cells and instance ids are recycled); in a phase a generation of
// threads counts into the live objects and exits (so later generations reuse their thread ids), some
// threads stay parked (alive) while the others have exited, and an optional reader overlaps them.
// Oracles: exact aggregates at every quiescent point, interval bounds for overlapping reads, fresh
// objects read zero / "no sample", local() private + stable, for_each / for_each_alive coverage.
//
// Wide thread-id layout (1 case in 4): 130..140 ids of the two thread-id spaces the harness element types use
// are taken straight from their id allocators in a quiet phase (for babylon: that many parked threads) and a
// generated subset F is released before the first thread starts, so the few threads of the case recycle ids at
// the end of the first 128-entry block of the id table, in the second block and beyond the last id, and
// for_each_alive has to enumerate an id table of two blocks with holes (tail of block 0 dead, ...).
//
// Plain accesses are not schedule points in this engine: an overlapping read can land only between
// two harness operations or at the atomic operations of a first-time local().
#include <babylon/concurrent/counter.h>
#include <babylon/concurrent/thread_local.h>

#include <stdio.h>
#include <stdlib.h>
#include <string.h>

#include <condition_variable>
#include <algorithm>
#include <memory>
#include <mutex>
#include <string>
#include <thread>
#include <type_traits>
#include <vector>

#include "../engine/common/driver.h"

using vf::Chooser;

namespace {

struct CellA {  // element type of the EnumerableThreadLocal under test (own type: own thread-id space)
  uint64_t magic = 0xA11CEA11CEULL;
  uint64_t count = 0;
};
struct CellB {  // element of the CompactEnumerableThreadLocal under test: 8 per cache line
  uint64_t count;
};
using Etl = babylon::EnumerableThreadLocal<CellA>;
using Cetl = babylon::CompactEnumerableThreadLocal<CellB, 1>;

// read-only access to the instance ids of the compact thread-locals (to know which storage group an
// instance lives in: id / NUM_PER_CACHELINE). Access checking does not apply to explicit instantiation
// arguments, so no change to /repo is needed.
template <class Tag, auto M>
struct Steal {
  friend constexpr auto steal(Tag) { return M; }
};
using AdderTl = babylon::CompactEnumerableThreadLocal<ssize_t, 64, true>;
struct CetlIdTag { friend constexpr auto steal(CetlIdTag); };
struct AdderTlIdTag { friend constexpr auto steal(AdderTlIdTag); };
struct AdderStorageTag { friend constexpr auto steal(AdderStorageTag); };
template struct Steal<CetlIdTag, &Cetl::_instance_id>;
template struct Steal<AdderTlIdTag, &AdderTl::_instance_id>;
template struct Steal<AdderStorageTag, &babylon::ConcurrentAdder::_storage>;
// the thread-id space of CompactEnumerableThreadLocal<CellB,1> is keyed by its private cache-line type
// (its Storage is EnumerableThreadLocal<CacheLine>): name the type through the same idiom
template <class Tag, class T>
struct StealType {
  friend constexpr auto steal_type(Tag) { return std::type_identity<T>{}; }
};
struct CetlLineTag { friend constexpr auto steal_type(CetlLineTag); };
template struct StealType<CetlLineTag, Cetl::CacheLine>;
using LineB = decltype(steal_type(CetlLineTag{}))::type;
constexpr uint32_t CETL_PER_GROUP = BABYLON_CACHELINE_SIZE * 1 / sizeof(CellB);      // 8
constexpr uint32_t ADDER_PER_GROUP = BABYLON_CACHELINE_SIZE * 64 / sizeof(ssize_t);  // 512
uint32_t group_of(const Cetl& x) { return (x.*steal(CetlIdTag{})) / CETL_PER_GROUP; }
uint32_t group_of(const babylon::ConcurrentAdder& x) { return ((x.*steal(AdderStorageTag{})).*steal(AdderTlIdTag{})) / ADDER_PER_GROUP; }

// Known genuine defect guard (VF_ALLOW_KNOWN=1 or VF_ALLOW_KNOWN=f8 re-enables the shape):
// F8: the non-const EnumerableThreadLocal::for_each_alive does not clamp the alive thread-id ranges
//     to the size of this instance's storage (the const overload does): on an instance whose storage
//     does not cover every alive id (e.g. never touched) it indexes the block table out of bounds.
struct Known {
  bool allow_f8 = false;
  void parse(const char* s) { allow_f8 = s && (s[0] == '1' || strstr(s, "f8")); }
  bool known_f8_nonconst_for_each_alive_unclamped() const { return !allow_f8; }
};

enum Kind { K_ADDER = 0, K_SUMMER, K_MAXER, K_MINER, K_ETL, K_CETL, K_COUNT };
const char* kind_name[] = {"adder", "summer", "maxer", "miner", "etl", "cetl"};

struct CellInfo {
  const void* addr;
  uint64_t count;   // what the cell must hold
  int owner;        // harness thread currently entitled to it (-1: its thread exited)
  int thread_id;    // babylon thread id of the slot in the id space of its kind (-1 unknown)
};

struct Obj {
  Kind kind;
  int serial;  // for messages
  bool touched = false;
  std::unique_ptr<babylon::ConcurrentAdder> adder;
  std::unique_ptr<babylon::ConcurrentSummer> summer;
  std::unique_ptr<babylon::ConcurrentMaxer> maxer;
  std::unique_ptr<babylon::ConcurrentMiner> miner;
  std::unique_ptr<Etl> etl;
  std::unique_ptr<Cetl> cetl;
  // model: completed operations
  long sum = 0;
  unsigned long num = 0;
  bool has = false;
  long ext = 0;
  // model: started operations (upper bounds for overlapping reads)
  long started_sum = 0;
  unsigned long started_num = 0;
  bool started_has = false;
  long started_ext = 0;
  long phase_base_sum = 0;
  unsigned long phase_base_num = 0;
  bool phase_base_has = false;
  long phase_base_ext = 0;
  long phase_step = 0;  // summer increments of a phase with a reader all use this value
  std::vector<CellInfo> cells;
  uint64_t periods = 0;     // maxer / miner: reset() calls so far
  int long_histories = 0;
};

struct OpPlan { int obj; long value; int churn = -1; };  // churn >= 0: a private instance churn round instead of a count
// private instance churn: a worker constructs its own counter, checks it starts from zero / "no sample",
// contributes, checks the exact value (nobody else knows the object, so exactness holds at all times),
// optionally lets a helper thread contribute and joins it, destroys the counter. Several workers do this
// at the same time: one thread's destructor overlaps another thread's constructor and first contributions
// of an independent object that merely shares the compact storage (instance id / column recycling).
struct ChurnPlan { Kind kind; std::vector<long> values; bool helper; long helper_value; };
struct ThreadPlan { bool park; std::vector<OpPlan> ops; std::vector<ChurnPlan> churn; };
struct DoneRec { int obj; long value; dsched::Stamp stamp; };

// One babylon thread-id space (ThreadId::current_thread_id<T>() has an allocator per T): SP_A is the one of
// EnumerableThreadLocal<CellA>, SP_B the one shared by every CompactEnumerableThreadLocal<CellB,1>.
enum { SP_A = 0, SP_B = 1, SP_COUNT };
template <class T>
std::vector<int> enumerate_thread_ids() {
  std::vector<int> v;
  babylon::ThreadId::for_each<T>([&](uint16_t b, uint16_t e) {
    for (uint16_t i = b; i < e; i++) v.push_back(i);
  });
  return v;
}
template <class T>
int my_thread_id() { return babylon::ThreadId::current_thread_id<T>().value; }
template <class T>
int thread_id_end() { return babylon::ThreadId::end<T>(); }
template <class T>
babylon::IdAllocator<uint16_t>& thread_id_allocator() {
  return babylon::internal::concurrent_id_allocator::IdAllocatorFotType<T, false>::instance();
}
struct IdSpace {
  const char* name = "";
  std::vector<int> (*enumerate)() = nullptr;  // ThreadId::for_each<T>, flattened
  int (*current)() = nullptr;                 // ThreadId::current_thread_id<T>().value (takes an id on first use)
  int (*end)() = nullptr;                     // ThreadId::end<T>()
  babylon::IdAllocator<uint16_t>& (*allocator)() = nullptr;
  std::vector<int> alive;  // ids that somebody holds now: baseline (main thread), live registered harness threads, ballast
  std::vector<int> seen;   // ids harness threads took in this case
  // thread-id ballast (wide cases): ids taken straight from the allocator, as if that many other threads were alive
  bool wide = false;
  std::vector<babylon::VersionedValue<uint16_t>> held;
  std::vector<char> have;  // have[id]: the ballast holds id now
  size_t nballast = 0;
  std::string error;       // set inside quiet phases, reported after them
  bool is_ballast(int id) const { return id >= 0 && (size_t)id < have.size() && have[(size_t)id]; }
};

struct World {
  Known known;
  std::vector<std::unique_ptr<Obj>> objs;  // live objects
  int next_serial = 0;
  std::mutex mu;
  std::condition_variable cv_main, cv_park;
  int parked = 0;
  bool released = false;
  int live_threads_registered_a = 0;
  IdSpace sp[SP_COUNT];
  std::vector<DoneRec> done;          // operations completed in the current phase
  bool reader_active = false;
  uint64_t reads = 0, overlapping_reads = 0;
  int inflight = 0;
  uint64_t structural = 0, recycled = 0, thread_gens = 0;
  bool id_reused = false;
  // wide thread-id layout (a share of the cases): D ids of both spaces are ballast, the generated set F of them
  // was released before the first thread of the case started
  bool no_enum_check = false;  // C19_NO_ENUM_CHECK=1: skip check_alive_ids (to exercise the for_each_alive oracles alone)
  bool wide = false;
  int wide_D = 0;
  std::vector<int> wide_F;
  bool saw_dead_tail = false, saw_live_beyond = false, saw_dead_tail_and_live_beyond = false;
  bool took_tail_id = false, took_id_beyond = false, took_mid_id = false;
  // private instance churn bookkeeping (labels / NT only)
  int churn_alive = 0;            // private objects currently alive
  int churn_dtor_in_flight = 0;   // destructors of private objects currently running
  uint64_t churn_dtor_epoch = 0;  // bumped when such a destructor begins or ends
  uint64_t churn_rounds = 0, churn_concurrent = 0, churn_ctor_overlaps_dtor = 0, churn_helpers = 0;
  int helper_budget = 6;          // dsched allows 24 threads per case
  // instance crowd: ballast instances that keep the instance ids of the working objects (and of every
  // object created later, private churn included) spread over at least two storage groups
  int crowd_kind = -1;  // -1 none, K_CETL or K_ADDER
  std::vector<std::unique_ptr<Cetl>> ballast_cetl;
  std::vector<std::unique_ptr<babylon::ConcurrentAdder>> ballast_adder;
  uint64_t moves_across_groups = 0, moves_within_group = 0;
};
World* W = nullptr;

thread_local int tl_harness_thread = -1;  // index of the harness thread (unique per case), 0 = main
thread_local int tl_id[SP_COUNT] = {-1, -1};  // its babylon thread id in each space once registered

// ---------------------------------------------------------------------------------------------
Obj* construct(Kind k) {
  World* w = W;
  Obj* o = new Obj();
  o->kind = k;
  o->serial = w->next_serial++;
  switch (k) {
    case K_ADDER: o->adder.reset(new babylon::ConcurrentAdder()); break;
    case K_SUMMER: o->summer.reset(new babylon::ConcurrentSummer()); break;
    case K_MAXER: o->maxer.reset(new babylon::ConcurrentMaxer()); break;
    case K_MINER: o->miner.reset(new babylon::ConcurrentMiner()); break;
    case K_ETL: o->etl.reset(new Etl()); break;
    case K_CETL: o->cetl.reset(new Cetl()); break;
    default: break;
  }
  return o;
}

struct EtlScan { std::vector<const void*> visited; uint64_t total = 0; bool bad_magic = false; };

EtlScan scan_etl(Obj& o, bool alive, bool use_const) {
  EtlScan s;
  auto visit = [&](const CellA* it, const CellA* end) {
    for (; it != end; ++it) {
      s.visited.push_back(it);
      s.total += it->count;
      if (it->magic != 0xA11CEA11CEULL) s.bad_magic = true;
    }
  };
  if (alive) {
    // known_f8: the non-const overload is safe only once the storage covers the alive ids
    if (!use_const && !o.touched && W->known.known_f8_nonconst_for_each_alive_unclamped()) {
      dsched::label("excluded_known_f8");
      use_const = true;
    }
    if (use_const) { const Etl& ce = *o.etl; ce.for_each_alive(visit); }
    else o.etl->for_each_alive([&](CellA* it, CellA* end) { visit(it, end); });
  } else {
    if (use_const) { const Etl& ce = *o.etl; ce.for_each(visit); }
    else o.etl->for_each([&](CellA* it, CellA* end) { visit(it, end); });
  }
  return s;
}
EtlScan scan_cetl(Obj& o, bool alive, bool use_const) {
  EtlScan s;
  auto visit = [&](const CellB& c) { s.visited.push_back(&c); s.total += c.count; };
  if (alive) {
    if (!use_const && !o.touched && W->known.known_f8_nonconst_for_each_alive_unclamped()) {
      dsched::label("excluded_known_f8");
      use_const = true;
    }
    if (use_const) { const Cetl& cc = *o.cetl; cc.for_each_alive(visit); }
    else o.cetl->for_each_alive([&](CellB& c) { visit(c); });
  } else {
    if (use_const) { const Cetl& cc = *o.cetl; cc.for_each(visit); }
    else o.cetl->for_each([&](CellB& c) { visit(c); });
  }
  return s;
}

bool contains(const std::vector<const void*>& v, const void* p) {
  for (auto x : v) if (x == p) return true;
  return false;
}
bool has_duplicates(std::vector<const void*> v) {
  std::sort(v.begin(), v.end());
  return std::adjacent_find(v.begin(), v.end()) != v.end();
}
bool contains_int(const std::vector<int>& v, int p) {
  for (auto x : v) if (x == p) return true;
  return false;
}

// exact check of one object at a quiescent point (no counting operation in flight, every completed
// operation happens-before this thread: joined threads or parked threads that handed over via the mutex)
void check_quiescent(Obj& o, const char* when, Chooser* c) {
  World* w = W;
  w->reads++;
  switch (o.kind) {
    case K_ADDER: {
      long v = o.adder->value();
      if (v != o.sum) dsched::fail("adder-exact", "%s: adder#%d value()=%ld, exact total %ld", when, o.serial, v, o.sum);
      break;
    }
    case K_SUMMER: {
      auto s = o.summer->value();
      if (s.sum != o.sum || s.num != o.num)
        dsched::fail("summer-exact", "%s: summer#%d value()={%ld,%lu}, exact {%ld,%lu}", when, o.serial, (long)s.sum, (unsigned long)s.num, o.sum, o.num);
      break;
    }
    case K_MAXER:
    case K_MINER: {
      ssize_t v = 12345;
      bool has = o.kind == K_MAXER ? o.maxer->value(v) : o.miner->value(v);
      ssize_t plain = o.kind == K_MAXER ? o.maxer->value() : o.miner->value();
      if (has != o.has)
        dsched::fail("extreme-exact", "%s: %s#%d value(T&) returned %d, model says %s", when, kind_name[o.kind], o.serial, (int)has,
                     o.has ? "a sample exists in this period" : "no sample in this period");
      if (has && v != o.ext)
        dsched::fail("extreme-exact", "%s: %s#%d extreme %ld, exact %ld", when, kind_name[o.kind], o.serial, (long)v, o.ext);
      if (!has && v != 12345) dsched::fail("extreme-exact", "%s: %s#%d value(T&) modified its argument without a sample", when, kind_name[o.kind], o.serial);
      if (plain != (o.has ? o.ext : 0))
        dsched::fail("extreme-exact", "%s: %s#%d value()=%ld, expected %ld", when, kind_name[o.kind], o.serial, (long)plain, o.has ? o.ext : 0L);
      break;
    }
    case K_ETL:
    case K_CETL: {
      bool use_const = c ? c->flip() : false;
      EtlScan all = o.kind == K_ETL ? scan_etl(o, false, use_const) : scan_cetl(o, false, use_const);
      if (all.bad_magic) dsched::fail("tls-for-each", "%s: %s#%d for_each visited an unconstructed element", when, kind_name[o.kind], o.serial);
      if (has_duplicates(all.visited)) dsched::fail("tls-for-each", "%s: for_each visited an element twice", when);
      for (auto& ci : o.cells)
        if (!contains(all.visited, ci.addr))
          dsched::fail("tls-for-each", "%s: %s#%d for_each did not visit a slot that a thread used (count %lu)", when, kind_name[o.kind], o.serial,
                       (unsigned long)ci.count);
      if ((long)all.total != o.sum)
        dsched::fail("tls-exact", "%s: %s#%d sum over for_each = %lu, exact total %ld", when, kind_name[o.kind], o.serial, (unsigned long)all.total, o.sum);
      bool use_const2 = c ? c->flip() : true;
      EtlScan al = o.kind == K_ETL ? scan_etl(o, true, use_const2) : scan_cetl(o, true, use_const2);
      if (al.bad_magic) dsched::fail("tls-for-each-alive", "%s: %s#%d for_each_alive visited an unconstructed element", when, kind_name[o.kind], o.serial);
      if (has_duplicates(al.visited)) dsched::fail("tls-for-each-alive", "%s: for_each_alive visited an element twice", when);
      // who is alive: the main thread if it holds an id, the live registered threads of this case, and the ids held by
      // the thread-id ballast of a wide case (babylon cannot tell those from parked threads)
      const IdSpace& sp = w->sp[o.kind == K_ETL ? SP_A : SP_B];
      bool tail_dead = !contains_int(sp.alive, 126) && !contains_int(sp.alive, 127);  // matters once an id >= 128 is alive
      bool alive_beyond = false, live_thread_beyond = false, live_slot_beyond_here = false;
      for (int id : sp.alive)
        if (id >= 128) { alive_beyond = true; if (!sp.is_ballast(id)) live_thread_beyond = true; }
      int cover = 0;  // the storage behind this instance covers at least the 128-slot blocks of the ids that were used on it
      for (auto& ci : o.cells) {
        bool vis = contains(al.visited, ci.addr);
        if (ci.thread_id >= 0 && (ci.thread_id / 128 + 1) * 128 > cover) cover = (ci.thread_id / 128 + 1) * 128;
        if (ci.owner >= 0 && ci.thread_id >= 128) live_slot_beyond_here = true;
        if (ci.owner >= 0 && !vis)
          dsched::fail("tls-for-each-alive", "%s: %s#%d for_each_alive skipped the slot of live thread %d (thread id %d)", when, kind_name[o.kind], o.serial,
                       ci.owner, ci.thread_id);
        if (ci.thread_id >= 0) {
          bool alive = contains_int(sp.alive, ci.thread_id);
          if (!alive && vis)
            dsched::fail("tls-for-each-alive", "%s: %s#%d for_each_alive visited the slot of thread id %d which no live thread holds", when,
                         kind_name[o.kind], o.serial, ci.thread_id);
          if (alive && !vis)
            dsched::fail("tls-for-each-alive", "%s: %s#%d for_each_alive skipped the slot of alive thread id %d", when, kind_name[o.kind], o.serial,
                         ci.thread_id);
        }
      }
      // visited slots that no thread ever used on this instance belong to alive ids that never touched it (ballast,
      // threads that only used other instances): still as constructed, one per such id at most, and one for every
      // such id whose slot the storage is known to cover
      size_t unknown = 0;
      for (auto p : al.visited) {
        bool known = false;
        for (auto& ci : o.cells) if (ci.addr == p) { known = true; break; }
        if (known) continue;
        unknown++;
        uint64_t cnt = o.kind == K_ETL ? static_cast<const CellA*>(p)->count : static_cast<const CellB*>(p)->count;
        if (cnt != 0)
          dsched::fail("tls-for-each-alive", "%s: %s#%d for_each_alive visited a slot that no thread of this instance used and it holds %lu", when,
                       kind_name[o.kind], o.serial, (unsigned long)cnt);
      }
      size_t alive_without_cell = 0, alive_without_cell_covered = 0;
      for (int id : sp.alive) {
        bool has_cell = false;
        for (auto& ci : o.cells) if (ci.thread_id == id) { has_cell = true; break; }
        if (has_cell) continue;
        alive_without_cell++;
        if (id < cover) alive_without_cell_covered++;
      }
      if (unknown > alive_without_cell)
        dsched::fail("tls-for-each-alive", "%s: %s#%d for_each_alive visited %zu slots that no thread used here, only %zu alive thread ids have no slot here (%zu alive)",
                     when, kind_name[o.kind], o.serial, unknown, alive_without_cell, sp.alive.size());
      if (unknown < alive_without_cell_covered)
        dsched::fail("tls-for-each-alive", "%s: %s#%d for_each_alive visited %zu never-used slots, the storage covers %zu alive thread ids that did not use it (%zu alive)",
                     when, kind_name[o.kind], o.serial, unknown, alive_without_cell_covered, sp.alive.size());
      // once the storage of the instance covers every alive id the count is exact (always so when no id is >= 128)
      int max_alive = -1;
      for (int id : sp.alive) if (id > max_alive) max_alive = id;
      if (o.kind == K_ETL && o.touched && max_alive < (cover > 128 ? cover : 128) && al.visited.size() != sp.alive.size())
        dsched::fail("tls-for-each-alive", "%s: etl#%d for_each_alive visited %zu slots, %zu threads are alive", when, o.serial, al.visited.size(),
                     sp.alive.size());
      if (tail_dead && alive_beyond) w->saw_dead_tail = true;
      if (live_thread_beyond) w->saw_live_beyond = true;
      if (tail_dead && live_slot_beyond_here) w->saw_dead_tail_and_live_beyond = true;
      break;
    }
    default: break;
  }
}

void check_fresh(Obj& o, const char* when) {
  // a new object starts from zero / "no sample" even when it recycles the cell of a destroyed one
  if (o.sum != 0 || o.num != 0 || o.has || !o.cells.empty()) dsched::fail("harness", "fresh object with a non-empty model");
  check_quiescent(o, when, nullptr);
}

// ---------------------------------------------------------------------------------------------
void register_thread(int space) {
  if (tl_id[space] >= 0) return;
  World* w = W;
  IdSpace& sp = w->sp[space];
  int id = tl_id[space] = sp.current();
  if (contains_int(sp.alive, id))
    dsched::fail("thread-id", "babylon handed out thread id %d (%s) that %s holds", id, sp.name, sp.is_ballast(id) ? "the ballast (an id that was never released)" : "another live thread");
  sp.alive.push_back(id);
  if (contains_int(sp.seen, id)) w->id_reused = true;
  else sp.seen.push_back(id);
  if (w->wide) {
    if (id >= 128) w->took_id_beyond = true;
    else if (id >= 120 && contains_int(w->wide_F, id)) w->took_tail_id = true;
    else if (contains_int(w->wide_F, id)) w->took_mid_id = true;
  }
}
void register_thread_a() { register_thread(SP_A); }
void register_thread_b() { register_thread(SP_B); }

// ThreadId::for_each<T> (what for_each_alive enumerates) reports exactly the ids that are held now. Only called at
// quiescent points: every thread that took an id is registered or has been joined.
void check_alive_ids(const char* when) {
  World* w = W;
  if (w->no_enum_check) return;
  for (int k = 0; k < SP_COUNT; k++) {
    IdSpace& sp = w->sp[k];
    std::vector<int> got = sp.enumerate();
    std::vector<int> want = sp.alive;
    std::sort(want.begin(), want.end());
    for (size_t i = 0; i + 1 < got.size(); i++)
      if (got[i] >= got[i + 1])
        dsched::fail("thread-id-for-each", "%s: ThreadId::for_each (%s) reported id %d after id %d", when, sp.name, got[i + 1], got[i]);
    for (int id : want)
      if (!contains_int(got, id))
        dsched::fail("thread-id-for-each", "%s: ThreadId::for_each (%s) did not report id %d which %s holds (%zu reported, %zu held)", when, sp.name, id,
                     sp.is_ballast(id) ? "the ballast" : "a live thread", got.size(), want.size());
    for (int id : got)
      if (!contains_int(want, id))
        dsched::fail("thread-id-for-each", "%s: ThreadId::for_each (%s) reported id %d which nobody holds (%zu reported, %zu held)", when, sp.name, id,
                     got.size(), want.size());
  }
}

CellInfo& cell_of(Obj& o, const void* addr, bool etl) {
  World* w = W;
  int me = tl_harness_thread;
  for (auto& ci : o.cells)
    if (ci.addr == addr) {
      if (ci.owner >= 0 && ci.owner != me)
        dsched::fail("tls-private", "%s#%d: local() of thread %d returned the slot that live thread %d is using", kind_name[o.kind], o.serial, me, ci.owner);
      if (ci.owner < 0) dsched::label("slot_inherited_from_dead_thread");
      ci.owner = me;
      ci.thread_id = tl_id[etl ? SP_A : SP_B];
      return ci;
    }
  // a slot this object never handed out: it must not belong to another live object
  for (auto& other : w->objs)
    if (other.get() != &o)
      for (auto& ci : other->cells)
        if (ci.addr == addr)
          dsched::fail("tls-private", "%s#%d: local() returned a slot of another live instance (%s#%d)", kind_name[o.kind], o.serial,
                       kind_name[other->kind], other->serial);
  o.cells.push_back(CellInfo{addr, 0, me, tl_id[etl ? SP_A : SP_B]});
  return o.cells.back();
}

void count_op(Obj& o, long v) {
  World* w = W;
  w->inflight++;
  o.started_sum += v;
  o.started_num += 1;
  if (o.kind == K_MAXER) { if (!o.started_has || v > o.started_ext) o.started_ext = v; o.started_has = true; }
  if (o.kind == K_MINER) { if (!o.started_has || v < o.started_ext) o.started_ext = v; o.started_has = true; }
  switch (o.kind) {
    case K_ADDER: *o.adder << v; break;
    case K_SUMMER: *o.summer << v; break;
    case K_MAXER: *o.maxer << v; break;
    case K_MINER: *o.miner << v; break;
    case K_ETL: {
      CellA& cell = o.etl->local();
      register_thread_a();
      dsched::point();
      CellA& again = o.etl->local();
      if (&again != &cell) dsched::fail("tls-private", "etl#%d: local() not stable within one thread", o.serial);
      CellA* fast = o.etl->local_fast();
      if (fast != nullptr && fast != &cell) dsched::fail("tls-private", "etl#%d: local_fast() differs from local()", o.serial);
      if (cell.magic != 0xA11CEA11CEULL) dsched::fail("tls-private", "etl#%d: local() returned an unconstructed element", o.serial);
      CellInfo& ci = cell_of(o, &cell, true);
      if (cell.count != ci.count)
        dsched::fail("tls-private", "etl#%d: slot of thread %d holds %lu, its users left %lu there", o.serial, tl_harness_thread, (unsigned long)cell.count,
                     (unsigned long)ci.count);
      cell.count += (uint64_t)v;
      ci.count += (uint64_t)v;
      break;
    }
    case K_CETL: {
      CellB& cell = o.cetl->local();
      register_thread_b();
      dsched::point();
      CellB& again = o.cetl->local();
      if (&again != &cell) dsched::fail("tls-private", "cetl#%d: local() not stable within one thread", o.serial);
      CellInfo& ci = cell_of(o, &cell, false);
      if (cell.count != ci.count)
        dsched::fail("tls-private", "cetl#%d: slot of thread %d holds %lu, its users left %lu there", o.serial, tl_harness_thread, (unsigned long)cell.count,
                     (unsigned long)ci.count);
      cell.count += (uint64_t)v;
      ci.count += (uint64_t)v;
      break;
    }
    default: break;
  }
  o.touched = true;
  o.sum += v;
  o.num += 1;
  if (o.kind == K_MAXER) { if (!o.has || v > o.ext) o.ext = v; o.has = true; }
  if (o.kind == K_MINER) { if (!o.has || v < o.ext) o.ext = v; o.has = true; }
  w->inflight--;
  w->done.push_back(DoneRec{o.serial, v, dsched::stamp()});
}

// a read that may overlap counting threads: bounded by what completed (and is ordered) before it began
// and what started before it ended. Increments are positive in phases with a reader.
void read_overlapping(Obj& o) {
  World* w = W;
  bool overlapped = w->inflight > 0;
  // lower bounds: operations of this phase that are ordered before this read, on top of the phase base
  long lo_sum = o.phase_base_sum;
  unsigned long lo_num = o.phase_base_num;
  bool lo_has = o.phase_base_has;
  long lo_ext = o.phase_base_ext;
  for (auto& d : w->done) {
    if (d.obj != o.serial || !dsched::ordered_after(d.stamp)) continue;
    lo_sum += d.value;
    lo_num += 1;
    if (!lo_has || (o.kind == K_MAXER ? d.value > lo_ext : d.value < lo_ext)) lo_ext = d.value;
    lo_has = true;
  }
  size_t done0 = w->done.size();
  w->reads++;
  switch (o.kind) {
    case K_ADDER: {
      long v = o.adder->value();
      if (v < lo_sum || v > o.started_sum)
        dsched::fail("adder-bounds", "overlapping read of adder#%d returned %ld, outside [%ld completed before, %ld started]", o.serial, v, lo_sum,
                     o.started_sum);
      break;
    }
    case K_SUMMER: {
      auto s = o.summer->value();
      if ((long)s.sum < lo_sum || (long)s.sum > o.started_sum || s.num < lo_num || s.num > o.started_num)
        dsched::fail("summer-bounds", "overlapping read of summer#%d returned {%ld,%lu}, outside [{%ld,%lu},{%ld,%lu}]", o.serial, (long)s.sum,
                     (unsigned long)s.num, lo_sum, lo_num, o.started_sum, o.started_num);
      // no torn pair: every increment of this phase adds phase_step to sum and 1 to num
      if ((long)s.sum - o.phase_base_sum != o.phase_step * (long)(s.num - o.phase_base_num))
        dsched::fail("summer-torn", "summer#%d read {%ld,%lu}: not a prefix of increments of %ld on top of {%ld,%lu}", o.serial, (long)s.sum,
                     (unsigned long)s.num, o.phase_step, o.phase_base_sum, o.phase_base_num);
      break;
    }
    case K_MAXER:
    case K_MINER: {
      ssize_t v = 0;
      bool has = o.kind == K_MAXER ? o.maxer->value(v) : o.miner->value(v);
      if (!has && lo_has) dsched::fail("extreme-bounds", "%s#%d: no sample reported although one completed before the read", kind_name[o.kind], o.serial);
      if (has && !o.started_has) dsched::fail("extreme-bounds", "%s#%d: sample %ld reported although none was started", kind_name[o.kind], o.serial, (long)v);
      if (has && lo_has && (o.kind == K_MAXER ? v < lo_ext : v > lo_ext))
        dsched::fail("extreme-bounds", "%s#%d: read %ld is less extreme than %ld completed before it", kind_name[o.kind], o.serial, (long)v, lo_ext);
      if (has && (o.kind == K_MAXER ? v > o.started_ext : v < o.started_ext))
        dsched::fail("extreme-bounds", "%s#%d: read %ld is more extreme than anything started (%ld)", kind_name[o.kind], o.serial, (long)v, o.started_ext);
      break;
    }
    case K_ETL:
    case K_CETL: {
      EtlScan all = o.kind == K_ETL ? scan_etl(o, false, true) : scan_cetl(o, false, true);
      if ((long)all.total < lo_sum || (long)all.total > o.started_sum)
        dsched::fail("tls-bounds", "overlapping for_each over %s#%d summed %lu, outside [%ld,%ld]", kind_name[o.kind], o.serial, (unsigned long)all.total,
                     lo_sum, o.started_sum);
      break;
    }
    default: break;
  }
  if (overlapped || w->inflight > 0 || w->done.size() != done0) w->overlapping_reads++;
}

// ---------------------------------------------------------------------------------------------
void thread_exit_bookkeeping() {
  World* w = W;
  int me = tl_harness_thread;
  for (auto& o : w->objs)
    for (auto& ci : o->cells)
      if (ci.owner == me) ci.owner = -1;
  for (int k = 0; k < SP_COUNT; k++) {
    std::vector<int>& alive = w->sp[k].alive;
    if (tl_id[k] < 0) continue;
    for (size_t i = 0; i < alive.size(); i++)
      if (alive[i] == tl_id[k]) { alive.erase(alive.begin() + (long)i); break; }
  }
}

// ---------------------------------------------------------------------------------------------
// private instance churn
struct PrivateObj {
  Kind kind;
  std::unique_ptr<babylon::ConcurrentAdder> adder;
  std::unique_ptr<babylon::ConcurrentSummer> summer;
  std::unique_ptr<babylon::ConcurrentMaxer> maxer;
  std::unique_ptr<babylon::ConcurrentMiner> miner;
  std::unique_ptr<Cetl> cetl;
  long sum = 0;
  unsigned long num = 0;
  bool has = false;
  long ext = 0;
  void add(long v) {
    switch (kind) {
      case K_ADDER: *adder << v; break;
      case K_SUMMER: *summer << v; break;
      case K_MAXER: *maxer << v; break;
      case K_MINER: *miner << v; break;
      case K_CETL: cetl->local().count += (uint64_t)v; if (tl_harness_thread != 1000) register_thread_b(); break;
      default: break;
    }
  }
  void model(long v) {
    sum += v;
    num += 1;
    if (kind == K_MAXER) { if (!has || v > ext) ext = v; }
    if (kind == K_MINER) { if (!has || v < ext) ext = v; }
    has = true;
  }
  void check(const char* when, int thread) {
    switch (kind) {
      case K_ADDER: {
        long v = adder->value();
        if (v != sum) dsched::fail("private-exact", "thread %d, private adder %s: value()=%ld, exact total %ld", thread, when, v, sum);
        break;
      }
      case K_SUMMER: {
        auto s = summer->value();
        if ((long)s.sum != sum || s.num != num)
          dsched::fail("private-exact", "thread %d, private summer %s: value()={%ld,%lu}, exact {%ld,%lu}", thread, when, (long)s.sum, (unsigned long)s.num,
                       sum, num);
        break;
      }
      case K_MAXER:
      case K_MINER: {
        ssize_t v = 12345;
        bool got = kind == K_MAXER ? maxer->value(v) : miner->value(v);
        if (got != has)
          dsched::fail("private-exact", "thread %d, private %s %s: value(T&) returned %d, model says %s", thread, kind_name[kind], when, (int)got,
                       has ? "a sample exists" : "no sample yet");
        if (got && v != ext) dsched::fail("private-exact", "thread %d, private %s %s: extreme %ld, exact %ld", thread, kind_name[kind], when, (long)v, ext);
        break;
      }
      case K_CETL: {
        uint64_t total = 0;
        const Cetl& cc = *cetl;
        cc.for_each([&](const CellB& c) { total += c.count; });
        if ((long)total != sum) dsched::fail("private-exact", "thread %d, private cetl %s: sum over for_each = %lu, exact total %ld", thread, when, (unsigned long)total, sum);
        break;
      }
      default: break;
    }
  }
};

void churn_round(int me, const ChurnPlan& cp) {
  World* w = W;
  PrivateObj po;
  po.kind = cp.kind;
  uint64_t epoch0 = w->churn_dtor_epoch;
  bool dtor_running0 = w->churn_dtor_in_flight > 0;
  if (w->churn_alive > 0) w->churn_concurrent++;
  dsched::point();
  switch (cp.kind) {
    case K_ADDER: po.adder.reset(new babylon::ConcurrentAdder()); break;
    case K_SUMMER: po.summer.reset(new babylon::ConcurrentSummer()); break;
    case K_MAXER: po.maxer.reset(new babylon::ConcurrentMaxer()); break;
    case K_MINER: po.miner.reset(new babylon::ConcurrentMiner()); break;
    case K_CETL: po.cetl.reset(new Cetl()); break;
    default: break;
  }
  w->churn_alive++;
  w->churn_rounds++;
  dsched::point();
  po.check("right after construction", me);  // starts from zero / "no sample" whatever storage it recycles
  for (size_t i = 0; i < cp.values.size(); i++) {
    dsched::point();
    po.add(cp.values[i]);
    po.model(cp.values[i]);
    dsched::point();
    po.check(i == 0 ? "after its first contribution" : "after a contribution", me);
  }
  if (dtor_running0 || w->churn_dtor_epoch != epoch0 || w->churn_dtor_in_flight > 0) w->churn_ctor_overlaps_dtor++;
  if (cp.helper) {
    // another thread contributes to the private object and exits: its slot keeps counting
    long hv = cp.helper_value;
    PrivateObj* ppo = &po;
    std::thread h([ppo, hv] {
      tl_harness_thread = 1000;
      tl_id[SP_A] = tl_id[SP_B] = -1;
      dsched::point();
      ppo->add(hv);
    });
    dsched::point();
    po.add(cp.values[0]);  // the owner keeps contributing meanwhile
    po.model(cp.values[0]);
    h.join();
    po.model(hv);
    w->churn_helpers++;
    po.check("after a helper thread contributed and exited", me);
  }
  dsched::point();
  w->churn_dtor_in_flight++;
  w->churn_dtor_epoch++;
  po.adder.reset(); po.summer.reset(); po.maxer.reset(); po.miner.reset(); po.cetl.reset();
  w->churn_dtor_in_flight--;
  w->churn_dtor_epoch++;
  w->churn_alive--;
  dsched::point();
}

void worker(int harness_index, const ThreadPlan* plan) {
  World* w = W;
  tl_harness_thread = harness_index;
  tl_id[SP_A] = tl_id[SP_B] = -1;
  for (auto& op : plan->ops) {
    if (op.churn >= 0) churn_round(harness_index, plan->churn[(size_t)op.churn]);
    else count_op(*w->objs[(size_t)op.obj], op.value);
    dsched::point();
  }
  if (plan->park) {
    std::unique_lock<std::mutex> lk(w->mu);
    w->parked++;
    w->cv_main.notify_all();
    while (!w->released) w->cv_park.wait(lk);
  }
  // from here on the thread counts as exited for the model (its babylon ids are released by the
  // thread_local destructors that run after this function returns, before join() returns)
  thread_exit_bookkeeping();
}

void reader(int harness_index, int rounds) {
  World* w = W;
  tl_harness_thread = harness_index;
  tl_id[SP_A] = tl_id[SP_B] = -1;
  for (int r = 0; r < rounds; r++) {
    for (auto& o : w->objs) {
      read_overlapping(*o);
      dsched::point();
    }
    dsched::yield_point();
  }
}

long pick_value(Chooser& c, Kind k, bool with_reader) {
  if (k == K_MAXER || k == K_MINER) return (long)c.range(0, 40) - 20;
  if (k == K_ETL || k == K_CETL) return c.range(1, 9);
  if (with_reader) return k == K_SUMMER ? 7 : c.range(1, 10);
  return (long)c.range(0, 15) - 5;
}

// Build the crowd (no threads exist: runs unscheduled). The id allocators are process-wide and keep their
// free lists from case to case, so the crowd is grown until the ids in use really straddle a group
// boundary, then ballast is released alternately from two groups: the LIFO free list then hands out ids
// of alternating groups to the working objects, to the shells of moves and to the private-churn objects.
template <class T>
void build_crowd(std::vector<std::unique_ptr<T>>& ballast, uint32_t per_group, int extra, int nfree) {
  size_t limit = (size_t)per_group * 2 + 8;
  auto spans = [&](uint32_t* lo, uint32_t* hi) {
    *lo = UINT32_MAX; *hi = 0;
    for (auto& b : ballast) { uint32_t g = group_of(*b); if (g < *lo) *lo = g; if (g > *hi) *hi = g; }
    return !ballast.empty() && *lo != *hi;
  };
  uint32_t lo, hi;
  auto enough = [&]() {  // both end groups hold a few instances, so that some of each can be released
    if (!spans(&lo, &hi)) return false;
    size_t nlo = 0, nhi = 0;
    for (auto& b : ballast) { uint32_t g = group_of(*b); nlo += g == lo; nhi += g == hi; }
    return nlo >= 4 && nhi >= 4;
  };
  while (ballast.size() < limit && !enough()) ballast.emplace_back(new T());
  for (int i = 0; i < extra; i++) ballast.emplace_back(new T());
  if (!spans(&lo, &hi)) return;
  // release alternately: an instance of the highest group, one of the lowest group, ...
  for (int i = 0; i < nfree; i++) {
    uint32_t want = (i & 1) ? lo : hi;
    for (size_t k = ballast.size(); k-- > 0;)
      if (group_of(*ballast[k]) == want) {
        // keep at least one ballast instance per group alive
        size_t same = 0;
        for (auto& b : ballast) same += group_of(*b) == want;
        if (same > 1) ballast.erase(ballast.begin() + (long)k);
        break;
      }
  }
}

// ---------------------------------------------------------------------------------------------
// thread-id ballast of a wide case. All of it runs in quiet phases (no other thread exists).
// Set-up: drain the free list of the space (ids that threads of earlier cases in this process gave back), take
// fresh ids up to D, give back whatever lies beyond D highest first (a later thread then gets D, D+1, ... exactly
// as it would from a fresh allocator), then release the generated set F in the generated order (LIFO: the last
// one released is the first one a thread of the case gets). What stays held are the ids [0, D) minus F minus the
// main thread's own id: for babylon, D - |F| live threads.
void ballast_setup(IdSpace& sp, int D, const std::vector<int>& F) {
  babylon::IdAllocator<uint16_t>& ids = sp.allocator();
  int end0 = sp.end();
  int nfree = end0 - (int)sp.alive.size();
  size_t cap = (size_t)(D > end0 ? D : end0) + 1;
  sp.held.assign(cap, babylon::VersionedValue<uint16_t>());
  sp.have.assign(cap, 0);
  sp.wide = true;
  char buf[160];
  auto take = [&](bool fresh) {
    auto v = ids.allocate();
    bool bad = v.value >= cap || sp.have[v.value] || contains_int(sp.alive, v.value) || (fresh ? (int)v.value < end0 : (int)v.value >= end0);
    if (bad && sp.error.empty()) {
      snprintf(buf, sizeof buf, "allocate() returned id %d (%s id expected; end() was %d, %zu ids alive at the start of the case)", (int)v.value,
               fresh ? "a fresh" : "a released", end0, sp.alive.size());
      sp.error = buf;
    }
    if (v.value < cap && !sp.have[v.value]) { sp.held[v.value] = v; sp.have[v.value] = 1; }
  };
  for (int i = 0; i < nfree; i++) take(false);
  while (sp.end() < D && sp.error.empty()) take(true);
  if (!sp.error.empty()) return;
  for (int id = (int)cap - 1; id >= D; id--)
    if (sp.have[(size_t)id]) { ids.deallocate(sp.held[(size_t)id]); sp.have[(size_t)id] = 0; }
  for (int id : F)
    if (id < D && sp.have[(size_t)id]) { ids.deallocate(sp.held[(size_t)id]); sp.have[(size_t)id] = 0; }
  for (int id = 0; id < D; id++)
    if (sp.have[(size_t)id]) { sp.alive.push_back(id); sp.nballast++; }
}
// Tear-down (every thread of the case has been joined): take back every released id and return all of them highest
// first, so that the next case of this process gets the ids 0, 1, 2, ... in this order like in a fresh process.
void ballast_teardown(IdSpace& sp) {
  if (!sp.wide || !sp.error.empty()) return;
  babylon::IdAllocator<uint16_t>& ids = sp.allocator();
  int end0 = sp.end();
  if ((size_t)end0 + 1 > sp.have.size()) { sp.have.resize((size_t)end0 + 1, 0); sp.held.resize((size_t)end0 + 1); }
  int nfree = end0 - (int)sp.alive.size();  // alive: the ballast and the main thread, nothing else by now
  char buf[160];
  for (int i = 0; i < nfree; i++) {
    auto v = ids.allocate();
    if ((int)v.value >= end0 || sp.have[v.value] || contains_int(sp.alive, v.value)) {
      snprintf(buf, sizeof buf, "at the end of the case allocate() returned id %d (a released id expected: end() is %d, %zu ids are held)", (int)v.value, end0,
               sp.alive.size());
      sp.error = buf;
      if ((size_t)v.value >= sp.have.size() || sp.have[v.value]) continue;
    }
    sp.held[v.value] = v;
    sp.have[v.value] = 1;
  }
  for (size_t id = sp.have.size(); id-- > 0;)
    if (sp.have[id]) { ids.deallocate(sp.held[id]); sp.have[id] = 0; }
  sp.nballast = 0;
}

uint32_t obj_group(const Obj& o) {
  if (o.kind == K_ADDER) return group_of(*o.adder);
  if (o.kind == K_CETL) return group_of(*o.cetl);
  return 0;
}
void note_move(uint32_t g_from, uint32_t g_to) {
  if (g_from != g_to) { W->moves_across_groups++; dsched::label("move_across_storage_groups"); }
  else W->moves_within_group++;
}

void move_object(Obj& o, bool assign) {
  // the moved-to object takes over identity, cells and thread caches; the moved-from one is a valid
  // fresh object (move construction) / holds the other's state (move assignment == swap)
  switch (o.kind) {
    case K_ADDER: {
      if (assign) {
        babylon::ConcurrentAdder tmp;
        tmp << 3;
        note_move(group_of(*o.adder), group_of(tmp));
        tmp = std::move(*o.adder);  // swap: tmp has the counts, *o.adder has {3}
        if (o.adder->value() != 3) dsched::fail("move", "adder#%d: move assignment did not swap (moved-from reads %ld)", o.serial, (long)o.adder->value());
        if (tmp.value() != o.sum) dsched::fail("move", "adder#%d: moved-to reads %ld, exact %ld", o.serial, (long)tmp.value(), o.sum);
        *o.adder = std::move(tmp);  // swap back
      } else {
        std::unique_ptr<babylon::ConcurrentAdder> n(new babylon::ConcurrentAdder(std::move(*o.adder)));
        note_move(group_of(*n), group_of(*o.adder));  // the shell now carries the id the new instance was born with
        if (o.adder->value() != 0) dsched::fail("move", "adder#%d: moved-from adder reads %ld", o.serial, (long)o.adder->value());
        o.adder = std::move(n);
      }
      break;
    }
    case K_ETL: {
      if (assign) {
        std::unique_ptr<Etl> n(new Etl());
        *n = std::move(*o.etl);
        o.etl = std::move(n);
      } else {
        std::unique_ptr<Etl> n(new Etl(std::move(*o.etl)));
        o.etl = std::move(n);
      }
      break;
    }
    case K_CETL: {
      if (assign) {
        std::unique_ptr<Cetl> n(new Cetl());
        note_move(group_of(*o.cetl), group_of(*n));
        *n = std::move(*o.cetl);
        o.cetl = std::move(n);
      } else {
        std::unique_ptr<Cetl> n(new Cetl(std::move(*o.cetl)));
        note_move(group_of(*n), group_of(*o.cetl));
        {  // the moved-from shell is a valid empty instance
          uint64_t t = 0;
          const Cetl& shell = *o.cetl;
          shell.for_each([&](const CellB& cb) { t += cb.count; });
          if (t != 0) dsched::fail("move", "cetl#%d: moved-from instance still sums to %lu", o.serial, (unsigned long)t);
        }
        o.cetl = std::move(n);
      }
      break;
    }
    default: break;
  }
}

// move assignment between two live objects of one kind swaps their state (documented by the
// implementation: operator=(&&) swaps id / offset / storage); the models swap with them
bool swap_with_peer(Obj& o, Obj& peer) {
  if (o.kind != peer.kind || &o == &peer) return false;
  if (o.kind != K_ETL) note_move(obj_group(o), obj_group(peer));
  switch (o.kind) {
    case K_ADDER: *o.adder = std::move(*peer.adder); break;
    case K_ETL: *o.etl = std::move(*peer.etl); break;
    case K_CETL: *o.cetl = std::move(*peer.cetl); break;
    default: return false;
  }
  std::swap(o.sum, peer.sum);
  std::swap(o.num, peer.num);
  std::swap(o.cells, peer.cells);
  std::swap(o.touched, peer.touched);
  return true;
}

void run_case(Chooser& c) {
  World world;
  W = &world;
  world.known.parse(getenv("VF_ALLOW_KNOWN"));
  tl_harness_thread = 0;
  tl_id[SP_A] = tl_id[SP_B] = -1;
  world.no_enum_check = getenv("C19_NO_ENUM_CHECK") != nullptr;
  world.sp[SP_A].name = "EnumerableThreadLocal<CellA>";
  world.sp[SP_A].enumerate = enumerate_thread_ids<CellA>;
  world.sp[SP_A].current = my_thread_id<CellA>;
  world.sp[SP_A].end = thread_id_end<CellA>;
  world.sp[SP_A].allocator = thread_id_allocator<CellA>;
  world.sp[SP_B].name = "CompactEnumerableThreadLocal<CellB,1>";
  world.sp[SP_B].enumerate = enumerate_thread_ids<LineB>;
  world.sp[SP_B].current = my_thread_id<LineB>;
  world.sp[SP_B].end = thread_id_end<LineB>;
  world.sp[SP_B].allocator = thread_id_allocator<LineB>;
  // the main thread of the worker process survives from case to case: whatever babylon thread ids it
  // holds are part of the baseline
  for (int k = 0; k < SP_COUNT; k++) {
    IdSpace& sp = world.sp[k];
    sp.alive = sp.enumerate();
    if (sp.alive.size() > 1)
      dsched::fail("thread-id", "%zu babylon thread ids (%s) alive at the start of a case (only the main thread can hold one)", sp.alive.size(), sp.name);
    if (!sp.alive.empty()) tl_id[k] = sp.alive[0];
  }

  // Function-local statics behind the counters (id allocators, storage vectors) are initialised by whoever
  // comes first. With private churn that could be two worker threads racing in the first case of a process;
  // the ordering C++ guarantees for static initialisation is not the subject here, so the main thread
  // touches every kind once before any thread exists (this also seeds the instance-id free lists).
  if (!getenv("C19_NO_WARMUP")) {  // C19_NO_WARMUP=1 + corpus/c19_counters/engine_static_guard_weak.replay.json shows the engine artefact
    babylon::ConcurrentAdder a; babylon::ConcurrentSummer s; babylon::ConcurrentMaxer mx; babylon::ConcurrentMiner mn; Cetl ce;
    (void)a.value(); (void)s.value(); (void)mx.value(); (void)mn.value();
  }
  // ---- instance crowd (a share of the cases)
  {
    int crowd = (int)c.below(8);  // raw 0: none
    int extra = c.range(0, 2), nfree = c.range(2, 6);
    if (crowd == 1 || crowd == 2 || crowd == 3) world.crowd_kind = K_CETL;
    else if (crowd == 4) world.crowd_kind = K_ADDER;
    if (world.crowd_kind >= 0) {
      dsched::quiet_begin();
      if (world.crowd_kind == K_CETL) build_crowd(world.ballast_cetl, CETL_PER_GROUP, extra, nfree);
      else build_crowd(world.ballast_adder, ADDER_PER_GROUP, extra, nfree);
      dsched::quiet_end();
      size_t n = world.crowd_kind == K_CETL ? world.ballast_cetl.size() : world.ballast_adder.size();
      dsched::describe("crowd(%s,%zu alive,+%d,-%d) ", kind_name[world.crowd_kind], n, extra, nfree);
      dsched::label(world.crowd_kind == K_CETL ? "crowd_cetl" : "crowd_adder");
    }
  }
  // ---- wide thread-id layout (a share of the cases): both id spaces get D ballast ids, the generated set F is free
  if (c.chance(1, 4)) {
    world.wide = true;
    int D = world.wide_D = c.range(130, 140);
    static const int tails[] = {2, 3, 8, 0, 2, 5, 4, 0};
    int n_tail = c.pick(tails);   // the last n_tail ids of block 0
    int n_hi = c.range(0, 3);     // ids of block 1
    int n_mid = c.chance(1, 3) ? c.range(1, 3) : 0;  // a run in the middle of block 0
    int order = (int)c.below(4);  // which group is released last (= handed out first)
    bool tail_desc = c.flip();
    std::vector<int> tail, hi, mid;
    for (int i = 0; i < n_tail; i++) tail.push_back(tail_desc ? 127 - i : 128 - n_tail + i);
    for (int i = 0; i < n_hi; i++) {
      int id = 128 + (int)c.below((uint32_t)(D - 128));
      if (!contains_int(hi, id)) hi.push_back(id);
    }
    int mid0 = c.range(1, 110);
    for (int i = 0; i < n_mid; i++) mid.push_back(mid0 + i);
    std::vector<int>& F = world.wide_F;
    auto add = [&](const std::vector<int>& g) { F.insert(F.end(), g.begin(), g.end()); };
    if (order == 0 || order == 3) { add(mid); add(tail); add(hi); }  // threads get block-1 ids first: the tail of block 0 stays dead
    else if (order == 1) { add(mid); add(hi); add(tail); }           // threads get 127 / 126 first
    else { add(hi); add(tail); add(mid); }
    dsched::quiet_begin();
    for (int k = 0; k < SP_COUNT; k++) ballast_setup(world.sp[k], D, F);
    dsched::quiet_end();
    for (int k = 0; k < SP_COUNT; k++)
      if (!world.sp[k].error.empty()) dsched::fail("thread-id", "%s: %s", world.sp[k].name, world.sp[k].error.c_str());
    dsched::describe("wide(D=%d F=[", D);
    for (size_t i = 0; i < F.size(); i++) dsched::describe("%s%d", i ? "," : "", F[i]);
    dsched::describe("]) ");
    dsched::label("wide_thread_ids");
    if (!tail.empty()) dsched::label("wide_F_tail_of_block0");
    if (!hi.empty()) dsched::label("wide_F_in_block1");
    if (!mid.empty()) dsched::label("wide_F_mid_block0");
    if (tail.empty() && mid.empty() && !hi.empty()) dsched::label("wide_F_block1_only");
    if (!tail.empty() && !hi.empty() && (order == 0 || order == 3)) dsched::label("wide_F_block1_ids_handed_out_first");
    check_alive_ids("after the thread-id ballast was set up");
  }
  int nobj = c.range(1, 3);
  if (world.crowd_kind >= 0 && nobj < 2) nobj = 2;
  dsched::describe("objs[");
  for (int i = 0; i < nobj; i++) {
    Kind k = (Kind)c.below(K_COUNT);
    if (world.crowd_kind >= 0 && (i < 2 || c.chance(1, 2))) k = (Kind)world.crowd_kind;  // working objects of the crowded kind
    if (i > 0 && c.chance(1, 3)) k = world.objs[0]->kind;  // instances of one kind share storage / can be swapped
    world.objs.emplace_back(construct(k));
    dsched::describe("%s%s", i ? "," : "", kind_name[k]);
    dsched::label(kind_name[k]);
    check_fresh(*world.objs.back(), "fresh object");
  }
  dsched::describe("]");
  int nphases = c.range(1, 4);
  int next_thread = 1;
  for (int ph = 0; ph < nphases; ph++) {
    dsched::describe(" P%d{", ph);
    // ---- structural operations
    int nstruct = ph == 0 ? 0 : c.range(0, 3);
    for (int s = 0; s < nstruct; s++) {
      int what = (int)c.below(6);
      size_t j = c.below((uint32_t)world.objs.size());
      if (world.crowd_kind >= 0 && c.chance(1, 2)) {  // crowded cases: mostly moves of objects of the crowded kind
        what = 2;
        for (size_t x = 0; x < world.objs.size(); x++)
          if ((int)world.objs[(j + x) % world.objs.size()]->kind == world.crowd_kind) { j = (j + x) % world.objs.size(); break; }
      }
      Obj& o = *world.objs[j];
      world.structural++;
      if (what == 0 || what == 1) {  // destroy + construct again: the instance id / cell is recycled
        Kind k = what == 0 ? o.kind : (Kind)c.below(K_COUNT);
        dsched::describe("recycle(%s#%d->%s) ", kind_name[o.kind], o.serial, kind_name[k]);
        world.objs[j].reset();
        world.objs[j].reset(construct(k));
        world.recycled++;
        dsched::label(kind_name[k]);
        dsched::label("recycle");
        check_fresh(*world.objs[j], "object constructed after a destroyed one");
      } else if (what == 2) {
        if (o.kind == K_ADDER || o.kind == K_ETL || o.kind == K_CETL) {
          int how = (int)c.below(4);
          Obj* peer = nullptr;
          if (how >= 2)
            for (auto& x : world.objs)
              if (x.get() != &o && x->kind == o.kind) peer = x.get();
          if (peer) {
            dsched::describe("swap(%s#%d,%s#%d) ", kind_name[o.kind], o.serial, kind_name[peer->kind], peer->serial);
            // the main thread uses the object right before and both objects right after the swap: its
            // thread-local cache entry (keyed by instance id) must follow the state that moved
            auto main_count = [&](Obj& x) {
              for (auto& ob : world.objs) { ob->started_sum = ob->sum; ob->started_num = ob->num; ob->started_has = ob->has; ob->started_ext = ob->ext; }
              count_op(x, pick_value(c, x.kind, false));
            };
            bool around = c.chance(2, 3);
            if (around) main_count(o);
            swap_with_peer(o, *peer);
            if (around) { main_count(o); main_count(*peer); }
            dsched::label("move_swap_peers");
            check_quiescent(o, "after move assignment between live objects", &c);
            check_quiescent(*peer, "after move assignment between live objects", &c);
          } else {
            bool assign = (how & 1) != 0;
            dsched::describe("move%s(%s#%d) ", assign ? "=" : "", kind_name[o.kind], o.serial);
            move_object(o, assign);
            dsched::label(assign ? "move_assign" : "move_construct");
            check_quiescent(o, "after move", &c);
          }
        }
      } else if (what == 3) {
        if (o.kind == K_ADDER) {
          dsched::describe("reset(adder#%d) ", o.serial);
          o.adder->reset();
          o.sum = 0; o.num = 0;
          dsched::label("adder_reset");
          check_quiescent(o, "after reset", &c);
        } else if (o.kind == K_MAXER || o.kind == K_MINER) {
          dsched::describe("reset(%s#%d) ", kind_name[o.kind], o.serial);
          if (o.kind == K_MAXER) o.maxer->reset(); else o.miner->reset();
          o.has = false; o.ext = 0;
          dsched::label("extreme_reset");
          check_quiescent(o, "after reset (new period)", &c);
          // long period histories (drawn after the plain reset so earlier choices keep their meaning): the property
          // speaks of "the current period" without a bound on how many periods there were. 2^32 further periods (a
          // contribution of the period before them must not come back), or as many as make this the period number
          // 2^32-1 (slots that were never written must not count). The loop is plain arithmetic on the object.
          if (c.chance(1, 2) && o.long_histories < 2) {
            o.long_histories++;
            bool to_all_ones = c.flip();
            long v = pick_value(c, o.kind, false);
            uint64_t n;
            if (to_all_ones) {
              n = (0xFFFFFFFFull - ((o.periods + 1) & 0xFFFFFFFFull)) & 0xFFFFFFFFull;
              dsched::describe("periods+=%llu(to period 2^32-1) ", (unsigned long long)n);
            } else {
              n = 1ull << 32;
              dsched::describe("%s#%d<<%ld periods+=2^32 ", kind_name[o.kind], o.serial, v);
              for (auto& ob : world.objs) { ob->started_sum = ob->sum; ob->started_num = ob->num; ob->started_has = ob->has; ob->started_ext = ob->ext; }
              count_op(o, v);
            }
            if (o.kind == K_MAXER) { auto* m = o.maxer.get(); for (uint64_t i = 0; i < n; i++) m->reset(); }
            else { auto* m = o.miner.get(); for (uint64_t i = 0; i < n; i++) m->reset(); }
            o.periods += n;
            if (n) { o.has = false; o.ext = 0; }
            dsched::label(to_all_ones ? "extreme_period_number_all_ones" : "extreme_2^32_periods_later");
            check_quiescent(o, to_all_ones ? "in period 2^32-1 (nothing counted in it)" : "2^32 periods after the last contribution", &c);
          }
          o.periods++;
        }
      } else if (what == 5) {
        // the main thread lives across every structural operation: its thread-local cache entries survive them
        for (auto& ob : world.objs) { ob->started_sum = ob->sum; ob->started_num = ob->num; ob->started_has = ob->has; ob->started_ext = ob->ext; }
        long v = pick_value(c, o.kind, false);
        dsched::describe("main:%s#%d<<%ld ", kind_name[o.kind], o.serial, v);
        count_op(o, v);
        dsched::label("main_counts");
        check_quiescent(o, "after the main thread counted", &c);
      } else if (world.objs.size() < 5) {
        Kind k = (Kind)c.below(K_COUNT);
        if (c.chance(1, 3)) k = o.kind;  // a second instance of an existing kind: shared storage, peers for swaps
        dsched::describe("new(%s) ", kind_name[k]);
        world.objs.emplace_back(construct(k));
        dsched::label(kind_name[k]);
        check_fresh(*world.objs.back(), "fresh object");
      }
    }
    // ---- a generation of threads
    int nthreads = c.range(1, 3);
    bool with_reader = c.chance(1, 3);
    world.reader_active = with_reader;
    world.done.clear();
    world.parked = 0;
    world.released = false;
    for (auto& o : world.objs) {
      o->started_sum = o->sum; o->started_num = o->num; o->started_has = o->has; o->started_ext = o->ext;
      o->phase_base_sum = o->sum; o->phase_base_num = o->num; o->phase_step = 7;
      o->phase_base_has = o->has; o->phase_base_ext = o->ext;
    }
    std::vector<ThreadPlan> plans((size_t)nthreads);
    int nparked = 0;
    for (int t = 0; t < nthreads; t++) {
      plans[(size_t)t].park = c.chance(1, 4);
      if (plans[(size_t)t].park) nparked++;
      int nops = c.range(1, 5);
      dsched::describe("T%d%s[", next_thread + t, plans[(size_t)t].park ? "(parks)" : "");
      for (int i = 0; i < nops; i++) {
        OpPlan op;
        op.obj = (int)c.below((uint32_t)world.objs.size());
        op.value = pick_value(c, world.objs[(size_t)op.obj]->kind, with_reader);
        plans[(size_t)t].ops.push_back(op);
        dsched::describe("%s%s#%d<<%ld", i ? "," : "", kind_name[world.objs[(size_t)op.obj]->kind], world.objs[(size_t)op.obj]->serial, op.value);
      }
      dsched::describe("] ");
    }
    // private instance churn rounds, inserted among the counting operations
    {
      static const Kind churn_kinds[] = {K_ADDER, K_SUMMER, K_MAXER, K_MINER, K_CETL};
      Kind phase_kind = c.pick(churn_kinds);  // mostly one kind per phase: the churning threads share one storage / id allocator
      for (int t = 0; t < nthreads; t++) {
        ThreadPlan& tp = plans[(size_t)t];
        int nchurn = (int)c.below(6);
        if (nchurn > 4) nchurn = 2;
        if (nchurn) dsched::describe("T%d+churn[", next_thread + t);
        for (int r = 0; r < nchurn; r++) {
          ChurnPlan cp;
          cp.kind = c.chance(1, 4) ? c.pick(churn_kinds) : phase_kind;
          int nv = c.range(1, 3);
          for (int i = 0; i < nv; i++) {
            long v = cp.kind == K_MAXER || cp.kind == K_MINER ? (long)c.range(0, 40) - 20 : (long)c.range(1, 9);
            cp.values.push_back(v);
          }
          cp.helper = world.helper_budget > 0 && c.chance(1, 5);
          cp.helper_value = cp.helper ? (long)c.range(1, 9) : 0;
          if (cp.helper) world.helper_budget--;
          tp.churn.push_back(cp);
          OpPlan op;
          op.obj = 0; op.value = 0; op.churn = r;
          size_t pos = c.below((uint32_t)tp.ops.size() + 1);
          tp.ops.insert(tp.ops.begin() + (long)pos, op);
          dsched::describe("%s%s x%d%s", r ? "," : "", kind_name[cp.kind], nv, cp.helper ? "+helper" : "");
          dsched::label(cp.kind == K_ADDER ? "churn_adder" : cp.kind == K_SUMMER ? "churn_summer" : cp.kind == K_MAXER ? "churn_maxer"
                        : cp.kind == K_MINER ? "churn_miner" : "churn_cetl");
        }
        if (nchurn) dsched::describe("] ");
      }
    }
    int reader_rounds = with_reader ? c.range(1, 3) : 0;
    if (with_reader) dsched::describe("reader(%d) ", reader_rounds);
    std::vector<std::thread> threads;
    std::vector<bool> is_parked;
    for (int t = 0; t < nthreads; t++) {
      const ThreadPlan* p = &plans[(size_t)t];
      int hi = next_thread + t;
      threads.emplace_back([hi, p] { worker(hi, p); });
      is_parked.push_back(p->park);
    }
    std::thread rd;
    if (with_reader) {
      int hi = next_thread + nthreads;
      rd = std::thread([hi, reader_rounds] { reader(hi, reader_rounds); });
    }
    next_thread += nthreads + 1;
    world.thread_gens++;
    for (int t = 0; t < nthreads; t++)
      if (!is_parked[(size_t)t]) threads[(size_t)t].join();
    if (with_reader) rd.join();
    {
      std::unique_lock<std::mutex> lk(world.mu);
      while (world.parked < nparked) world.cv_main.wait(lk);
    }
    // quiescent: exited threads' contributions must still count; parked threads are alive
    check_alive_ids(nparked ? "threads exited, some still alive" : "threads exited");
    for (auto& o : world.objs) check_quiescent(*o, nparked ? "threads exited, some still alive" : "threads exited", &c);
    if (nparked) dsched::label("checked_with_parked_threads");
    {
      std::lock_guard<std::mutex> lk(world.mu);
      world.released = true;
    }
    world.cv_park.notify_all();
    for (int t = 0; t < nthreads; t++)
      if (is_parked[(size_t)t]) threads[(size_t)t].join();
    if (nparked) {
      check_alive_ids("all threads of the generation exited");
      for (auto& o : world.objs) check_quiescent(*o, "all threads of the generation exited", &c);
    }
    dsched::describe("}");
  }
  // the main thread counts too (its slot persists across cases)
  if (c.chance(1, 2)) {
    size_t j = c.below((uint32_t)world.objs.size());
    Obj& o = *world.objs[j];
    for (auto& ob : world.objs) { ob->started_sum = ob->sum; ob->started_num = ob->num; ob->started_has = ob->has; ob->started_ext = ob->ext; }
    long v = pick_value(c, o.kind, false);
    dsched::describe(" main:%s#%d<<%ld", kind_name[o.kind], o.serial, v);
    count_op(o, v);
    check_quiescent(o, "after the main thread counted", &c);
    for (auto& ob : world.objs)
      for (auto& ci : ob->cells)
        if (ci.owner == 0) ci.owner = -1;
    dsched::label("main_counts");
  }
  if (world.churn_rounds) dsched::label_n("churn_rounds", (uint32_t)world.churn_rounds);
  if (world.churn_concurrent) dsched::label_n("churn_lifetimes_overlapped", (uint32_t)world.churn_concurrent);
  if (world.churn_ctor_overlaps_dtor) dsched::label_n("churn_ctor_overlaps_dtor", (uint32_t)world.churn_ctor_overlaps_dtor);
  if (world.churn_helpers) dsched::label_n("churn_helper", (uint32_t)world.churn_helpers);
  if (world.id_reused) dsched::label("thread_id_reused");
  if (world.overlapping_reads) dsched::label("overlapping_read");
  if ((world.thread_gens >= 2 && world.id_reused) || world.recycled > 0 || world.thread_gens >= 2 || world.churn_ctor_overlaps_dtor > 0 ||
      world.moves_across_groups > 0)
    dsched::nontrivial();
  dsched::mix_hash(world.churn_rounds * 7 + world.churn_ctor_overlaps_dtor * 131 + world.churn_concurrent);
  for (auto& o : world.objs) dsched::mix_hash((uint64_t)o->kind * 1000003ULL + (uint64_t)o->sum * 31 + o->num + (uint64_t)o->ext * 7 + o->cells.size());
  dsched::mix_hash(world.structural * 131 + world.thread_gens);
  if (world.moves_across_groups) dsched::label_n("moves_across_groups_total", (uint32_t)world.moves_across_groups);
  dsched::mix_hash(world.moves_across_groups * 17 + world.moves_within_group);
  // (also reached without ballast: the main thread keeps an id >= 128 that it took in an earlier wide case of the process)
  if (world.saw_dead_tail) dsched::label("dead_tail_at_block_end");
  if (world.saw_live_beyond) dsched::label("live_id_beyond_128");
  if (world.saw_dead_tail_and_live_beyond) dsched::label("dead_tail_and_live_slot_beyond_128");
  if (world.wide) {
    if (world.took_tail_id) dsched::label("thread_took_id_of_block0_tail");
    if (world.took_id_beyond) dsched::label("thread_took_id_beyond_128");
    if (world.took_mid_id) dsched::label("thread_took_id_mid_block0");
    dsched::mix_hash((uint64_t)world.wide_D * 8 + (world.saw_dead_tail ? 4 : 0) + (world.saw_live_beyond ? 2 : 0) + (world.took_tail_id ? 1 : 0));
  }
  world.objs.clear();
  if (world.wide) {
    // the main thread keeps whatever ids it took; everything else goes back
    dsched::quiet_begin();
    for (int k = 0; k < SP_COUNT; k++) {
      IdSpace& sp = world.sp[k];
      // only the ballast and the main thread may hold ids now
      for (int id : sp.alive)
        if (!sp.is_ballast(id) && id != tl_id[k] && sp.error.empty()) sp.error = "harness: an id of an exited thread is still in the alive list";
      ballast_teardown(sp);
    }
    dsched::quiet_end();
    for (int k = 0; k < SP_COUNT; k++)
      if (!world.sp[k].error.empty()) dsched::fail("thread-id", "%s: %s", world.sp[k].name, world.sp[k].error.c_str());
  }
  if (world.crowd_kind >= 0) {
    dsched::quiet_begin();
    world.ballast_cetl.clear();
    world.ballast_adder.clear();
    dsched::quiet_end();
  }
  W = nullptr;
}

void tune(dsched::Params& p, Chooser&) { p.max_steps = 300000; }

}  // namespace

int main(int argc, char** argv) {
  vf::Target t;
  t.name = "c19_counters";
  t.property_id = "C19";
  t.run_case = run_case;
  t.tune = tune;
  t.nontrivial_rule =
      "at least two thread generations (thread ids recycled), or an object constructed after a destroyed one (instance id / cell recycled), "
      "or a private object constructed while another thread's private object was being destroyed, or a move between instances of different storage groups";
  return vf::main_driver(argc, argv, t);
}
