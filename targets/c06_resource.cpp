// C06 (sequential part): ExclusiveMonotonicBufferResource driven by an operation
// sequence decoded from the fuzzer's bytes, observed through a recording
// PageAllocator and recording std::pmr upstreams. libFuzzer + ASan.
//
// Model: every resource slot owns a "content" (the set of blocks, registered
// destructors, pages and oversize blocks obtained while that content was being
// operated on). Moves transfer / exchange contents between slots. Every page and
// every upstream block is tagged with the content that obtained it, so "returned
// to the place it came from, exactly once, with the size and alignment it was
// obtained with" is decided by pointer-keyed registries, independent of which
// internal pointer babylon uses.
#include "known.h"
#include <babylon/reusable/allocator.h>
#include <babylon/reusable/memory_resource.h>

#include <deque>
#include <map>
#include <memory>
#include <memory_resource>
#include <string>
#include <vector>

#if defined(__has_feature)
#if __has_feature(address_sanitizer)
#include <sanitizer/asan_interface.h>
#define VF_ASAN 1
#endif
#endif
#ifndef VF_ASAN
#define ASAN_POISON_MEMORY_REGION(a, s) ((void)(a), (void)(s))
#define ASAN_UNPOISON_MEMORY_REGION(a, s) ((void)(a), (void)(s))
#endif

#include "fuzz_common.h"

namespace {

using ::babylon::ExclusiveMonotonicBufferResource;
using ::babylon::MonotonicBufferResource;
using ::babylon::PageAllocator;
using Resource = ExclusiveMonotonicBufferResource;

const char* RULE =
    "decoded op sequence over <=3 ExclusiveMonotonicBufferResource slots, 2 recording page allocators, 2 recording upstreams; "
    "non-trivial = a content that rolled a page array over (>15 pages, incl. the extra-page placement at a roll-over) or owned an "
    "oversize block was released/destroyed; or a move transferred a non-empty content";

struct Case;
Case* g = nullptr;  // the running case (callbacks from babylon need it); reset at the end of every case

struct Block {
  char* ptr;
  size_t bytes;
  size_t align;
  uint32_t serial;
  int content;
  bool has_dtor = false;
  bool dtor_done = false;
};

struct Content {
  int id;
  std::vector<int> blocks;      // indices into Case::blocks
  std::vector<int> dtor_order;  // block indices in registration order
  size_t dtors_pending = 0;
  size_t pages = 0;             // pages currently held
  size_t pages_ever = 0;
  size_t rec_oversize = 0;      // live blocks obtained from a recording upstream
  size_t rec_oversize_bytes = 0;
  size_t def_oversize = 0;      // oversize allocations that went to the default (new_delete) upstream
  size_t requested = 0;         // sum of bytes requested since the last release
  bool dealloc_seen = false;    // a page/upstream block of this content went back during the running release
  bool extra_page = false;
  bool released_check_pending = false;
};

[[noreturn]] void failc(const char* fmt, ...) __attribute__((format(printf, 1, 2)));

struct RecPA final : public PageAllocator {
  size_t ps = 4096;
  int index = 0;
  struct Page {
    char* base;
    int content;
  };
  std::map<uintptr_t, Page> live;
  size_t allocs = 0, frees = 0;
  size_t page_size() const noexcept override { return ps; }
  using PageAllocator::allocate;
  using PageAllocator::deallocate;
  void allocate(void** pages, size_t num) noexcept override;
  void deallocate(void** pages, size_t num) noexcept override;
  ~RecPA() noexcept override {
    for (auto& kv : live) {
      ASAN_UNPOISON_MEMORY_REGION(kv.second.base, 2 * ps);
      free(kv.second.base);
    }
  }
};

struct RecUp final : public std::pmr::memory_resource {
  int index = 0;
  struct Blk {
    char* raw;
    size_t raw_bytes;
    size_t bytes, align;
    int content;
  };
  std::map<uintptr_t, Blk> live;
  size_t live_bytes = 0;
  size_t allocs = 0, frees = 0;
  void* do_allocate(size_t bytes, size_t alignment) override;
  void do_deallocate(void* p, size_t bytes, size_t alignment) override;
  bool do_is_equal(const std::pmr::memory_resource& o) const noexcept override { return this == &o; }
  ~RecUp() override {
    for (auto& kv : live) {
      ASAN_UNPOISON_MEMORY_REGION(kv.second.raw, kv.second.raw_bytes);
      free(kv.second.raw);
    }
  }
};

struct Slot {
  std::unique_ptr<Resource> res;
  int content = -1;
  int pa = 0;   // index of the recording page allocator the resource was configured with (moves carry it)
  int up = -1;  // upstream the resource was configured with: -1 = default new_delete_resource, else RecUp index
};

struct Case {
  std::string desc;
  RecPA pa[2];
  RecUp up[2];
  Slot slot[3];
  std::vector<Block> blocks;
  std::deque<Content> contents;
  std::map<uintptr_t, int> intervals;  // start -> block index, live blocks with bytes > 0
  std::map<void*, int> dtor_reg;       // object pointer -> block index
  int cur = -1;                        // content babylon is working for right now (tags pages / upstream blocks)
  int releasing = -1;                  // content whose memory may go back right now
  int releasing2 = -1;                 // (move-assign: the other side may be released as well)
  uint32_t serial = 0;
  size_t pages_this_op = 0, rec_oversize_this_op = 0;
  bool nt = false;
  bool excluded_f6 = false;
};

void failc(const char* fmt, ...) {
  char buf[2048];
  va_list ap;
  va_start(ap, fmt);
  vsnprintf(buf, sizeof buf, fmt, ap);
  va_end(ap);
  vfz::fail(g ? g->desc : std::string("?"), "%s", buf);
}

void RecPA::allocate(void** pages, size_t num) noexcept {
  for (size_t i = 0; i < num; i++) {
    // page aligned to exactly the page size (an odd multiple), never more: babylon may rely on page-size alignment only
    char* base = (char*)aligned_alloc(2 * ps, 2 * ps);
    if (!base) abort();
    char* page = base + ps;
    memset(base, 0xCD, 2 * ps);
    ASAN_POISON_MEMORY_REGION(base, ps);
    live[(uintptr_t)page] = Page{base, g->cur};
    allocs++;
    g->pages_this_op++;
    if (g->cur < 0) failc("page allocator %d asked for a page while no resource operation is running", index);
    g->contents[g->cur].pages++;
    g->contents[g->cur].pages_ever++;
    pages[i] = page;
  }
}

void RecPA::deallocate(void** pages, size_t num) noexcept {
  for (size_t i = 0; i < num; i++) {
    auto it = live.find((uintptr_t)pages[i]);
    if (it == live.end()) {
      bool other = g->pa[1 - index].live.count((uintptr_t)pages[i]) > 0;
      failc("page allocator %d: deallocate(%p) of a page it does not have outstanding (%s)", index, pages[i],
            other ? "it belongs to the other page allocator" : "double or foreign free");
    }
    int c = it->second.content;
    if (c != g->releasing && c != g->releasing2)
      failc("page %p of content %d went back to the page allocator while that content is not being released", pages[i], c);
    Content& ct = g->contents[c];
    if (ct.dtors_pending) failc("page %p returned while %zu registered destructors of its resource have not run yet", pages[i], ct.dtors_pending);
    ct.dealloc_seen = true;
    ct.pages--;
    ASAN_UNPOISON_MEMORY_REGION(it->second.base, 2 * ps);
    memset(it->second.base, 0xDD, 2 * ps);
    free(it->second.base);
    live.erase(it);
    frees++;
  }
}

void* RecUp::do_allocate(size_t bytes, size_t alignment) {
  if (alignment == 0 || (alignment & (alignment - 1))) failc("upstream %d: allocate(%zu, %zu): alignment is not a power of two", index, bytes, alignment);
  if (g->cur < 0) failc("upstream %d asked for memory while no resource operation is running", index);
  // aligned to exactly `alignment` (odd multiple), slack poisoned on both sides
  size_t raw_bytes = bytes + 3 * alignment + 16;
  char* raw = (char*)malloc(raw_bytes);
  if (!raw) abort();
  uintptr_t a2 = ((uintptr_t)raw + 2 * alignment - 1) & ~(uintptr_t)(2 * alignment - 1);
  char* p = (char*)(a2 + alignment);
  memset(raw, 0xCE, raw_bytes);
  ASAN_POISON_MEMORY_REGION(raw, (size_t)(p - raw));
  ASAN_POISON_MEMORY_REGION(p + bytes, raw_bytes - (size_t)(p - raw) - bytes);
  ASAN_UNPOISON_MEMORY_REGION(p, bytes);
  live[(uintptr_t)p] = Blk{raw, raw_bytes, bytes, alignment, g->cur};
  live_bytes += bytes;
  allocs++;
  g->rec_oversize_this_op++;
  g->contents[g->cur].rec_oversize++;
  g->contents[g->cur].rec_oversize_bytes += bytes;
  return p;
}

void RecUp::do_deallocate(void* p, size_t bytes, size_t alignment) {
  auto it = live.find((uintptr_t)p);
  if (it == live.end()) {
    bool other = g->up[1 - index].live.count((uintptr_t)p) > 0;
    failc("upstream %d: deallocate(%p, %zu, %zu) of a block it does not have outstanding (%s)", index, p, bytes, alignment,
          other ? "it was obtained from the OTHER upstream" : "double or foreign free");
  }
  Blk b = it->second;
  if (b.bytes != bytes || b.align != alignment)
    failc("upstream %d: block %p obtained with (bytes=%zu, align=%zu) returned with (bytes=%zu, align=%zu)", index, p, b.bytes, b.align,
          bytes, alignment);
  if (b.content != g->releasing && b.content != g->releasing2)
    failc("oversize block %p of content %d returned while that content is not being released", p, b.content);
  Content& ct = g->contents[b.content];
  if (ct.dtors_pending) failc("oversize block %p returned while %zu registered destructors have not run yet", p, ct.dtors_pending);
  ct.dealloc_seen = true;
  ct.rec_oversize--;
  ct.rec_oversize_bytes -= bytes;
  live_bytes -= bytes;
  ASAN_UNPOISON_MEMORY_REGION(b.raw, b.raw_bytes);
  memset(b.raw, 0xDE, b.raw_bytes);
  free(b.raw);
  live.erase(it);
  frees++;
}

inline uint8_t canary(uint32_t serial, size_t i) { return (uint8_t)(serial * 131u + i * 7u + 0x5b); }

// positions of a block that carry (and are checked for) the canary
template <class F>
void for_canary(const Block& b, F f) {
  if (b.bytes <= 256) {
    for (size_t i = 0; i < b.bytes; i++) f(i);
  } else {
    for (size_t i = 0; i < 96; i++) f(i);
    for (size_t i = 96; i + 96 < b.bytes; i += 97) f(i);
    for (size_t i = b.bytes - 96; i < b.bytes; i++) f(i);
  }
}

void fill_block(const Block& b) {
  for_canary(b, [&](size_t i) { b.ptr[i] = (char)canary(b.serial, i); });
}

void verify_block(const Block& b, const char* when) {
  for_canary(b, [&](size_t i) {
    if ((uint8_t)b.ptr[i] != canary(b.serial, i))
      failc("%s: block #%u (%p, %zu bytes, align %zu, content %d) lost its contents at offset %zu: 0x%02x, expected 0x%02x", when, b.serial,
            (void*)b.ptr, b.bytes, b.align, b.content, i, (unsigned)(uint8_t)b.ptr[i], (unsigned)canary(b.serial, i));
  });
}

// cheap per-operation check: the most recent blocks of one content (bookkeeping is written next to the bump pointer);
// everything is re-verified before every release / destruction / move and at the end
void verify_recent(int cid, const char* when) {
  auto& bl = g->contents[cid].blocks;
  size_t n = bl.size(), from = n > 48 ? n - 48 : 0;
  for (size_t i = from; i < n; i++) verify_block(g->blocks[bl[i]], when);
}

void verify_all(const char* when) {
  for (auto& c : g->contents)
    for (int bi : c.blocks) verify_block(g->blocks[bi], when);
}

// the type-erased destructor babylon is given for tracked objects
void on_destruct(void* p) {
  auto it = g->dtor_reg.find(p);
  if (it == g->dtor_reg.end()) failc("registered destructor invoked with %p which was never registered (or already destroyed)", p);
  Block& b = g->blocks[it->second];
  Content& c = g->contents[b.content];
  if (b.content != g->releasing && b.content != g->releasing2)
    failc("destructor of object %p (content %d) ran while that content is not being released", p, b.content);
  if (b.dtor_done) failc("destructor of object %p ran twice", p);
  if (c.dealloc_seen) failc("destructor of object %p ran after memory of its resource had already been returned", p);
  // last registered runs first (test_memory_resource.cpp: destructor_call_when_release_in_reverse_order)
  if (c.dtor_order.empty() || c.dtor_order.back() != it->second)
    failc("destructors do not run in reverse registration order: object %p (block #%u) ran, expected block #%u", p, b.serial,
          c.dtor_order.empty() ? 0u : g->blocks[c.dtor_order.back()].serial);
  c.dtor_order.pop_back();
  verify_block(b, "inside its registered destructor");
  b.dtor_done = true;
  c.dtors_pending--;
  g->dtor_reg.erase(it);
}

struct alignas(8) TObj {  // typed registration: register_destructor<T>(T*) and MonotonicAllocator::create
  char payload[24];
  ~TObj() { on_destruct(this); }
};

int new_content() {
  Content c;
  c.id = (int)g->contents.size();
  g->contents.push_back(c);
  return c.id;
}

size_t default_oversize_counter() { return Resource::allocate_oversize_page_num(); }

// after an allocation: the block must be where the property says it is
void admit_block(Slot& s, char* p, size_t bytes, size_t align, size_t def_oversize_delta, bool registers_dtor) {
  Content& c = g->contents[s.content];
  if (align && ((uintptr_t)p & (align - 1))) failc("allocate(%zu, %zu) returned %p: not aligned", bytes, align, (void*)p);
  Block b{p, bytes, align, ++g->serial, s.content};
  b.has_dtor = registers_dtor;
  c.requested += bytes;
  if (bytes == 0) {
    vfz::label("zero_byte_alloc");
    return;  // zero-byte requests are only checked for alignment
  }
  if (!p) failc("allocate(%zu, %zu) returned null", bytes, align);
  // 1. inside memory the resource owns
  RecPA& pa = g->pa[s.pa];
  uintptr_t page = (uintptr_t)p & ~(uintptr_t)(pa.ps - 1);
  auto pit = pa.live.find(page);
  bool placed = false;
  if (pit != pa.live.end()) {
    if (pit->second.content != s.content)
      failc("block %p (%zu bytes) lies in page %p which was obtained by content %d, not by its own resource (content %d)", (void*)p, bytes,
            (void*)page, pit->second.content, s.content);
    if ((uintptr_t)p + bytes > page + pa.ps) failc("block %p (%zu bytes) runs past the end of its page %p (page size %zu)", (void*)p, bytes, (void*)page, pa.ps);
    placed = true;
    vfz::label("block_in_page");
  }
  for (int u = 0; u < 2 && !placed; u++) {
    auto& live = g->up[u].live;
    auto it = live.upper_bound((uintptr_t)p);
    if (it == live.begin()) continue;
    --it;
    if ((uintptr_t)p >= it->first && (uintptr_t)p < it->first + it->second.bytes) {
      if ((uintptr_t)p + bytes > it->first + it->second.bytes) failc("block %p (%zu bytes) runs past the end of its oversize block (%zu bytes)", (void*)p, bytes, it->second.bytes);
      if (it->second.content != s.content) failc("block %p lies in an oversize block obtained by content %d, not its own (%d)", (void*)p, it->second.content, s.content);
      placed = true;
      vfz::label("block_in_recorded_oversize");
    }
  }
  if (!placed) {
    // only acceptable when babylon reports an oversize allocation in this op that none of the recording upstreams saw
    // (i.e. it went to std::pmr::new_delete_resource(); ASan then guards the bounds)
    if (def_oversize_delta == 0)
      failc("block %p (%zu bytes, align %zu) lies neither in a page nor in an oversize block its resource owns", (void*)p, bytes, align);
    vfz::label("block_in_default_upstream_oversize");
  }
  // 2. disjoint from every other live block (all resources)
  auto nx = g->intervals.lower_bound((uintptr_t)p);
  if (nx != g->intervals.end() && nx->first < (uintptr_t)p + bytes) {
    Block& o = g->blocks[nx->second];
    failc("block %p (%zu bytes) overlaps live block #%u %p (%zu bytes)", (void*)p, bytes, o.serial, (void*)o.ptr, o.bytes);
  }
  if (nx != g->intervals.begin()) {
    auto pv = std::prev(nx);
    Block& o = g->blocks[pv->second];
    if ((uintptr_t)o.ptr + o.bytes > (uintptr_t)p) failc("block %p (%zu bytes) overlaps live block #%u %p (%zu bytes)", (void*)p, bytes, o.serial, (void*)o.ptr, o.bytes);
  }
  int bi = (int)g->blocks.size();
  g->blocks.push_back(b);
  g->intervals[(uintptr_t)p] = bi;
  c.blocks.push_back(bi);
  fill_block(g->blocks[bi]);
}

void begin_op(Slot& s) {
  g->cur = s.content;
  g->pages_this_op = 0;
  g->rec_oversize_this_op = 0;
}

void end_op(Slot& s) {
  Content& c = g->contents[s.content];
  if (g->pages_this_op == 2) {
    if (c.pages_ever > 2) {
      c.extra_page = true;  // at a roll-over, not just the very first page of a small-page resource
      vfz::label("page_array_in_extra_page_at_rollover");
    }
    vfz::label("page_array_in_extra_page");
  } else if (g->pages_this_op > 2) {
    failc("one operation obtained %zu pages", g->pages_this_op);
  }
  g->cur = -1;
}

void check_accounting(Slot& s, const char* when) {
  Content& c = g->contents[s.content];
  size_t used = s.res->space_used(), allocated = s.res->space_allocated();
  if (used < c.requested) failc("%s: space_used()=%zu is less than the %zu bytes handed out since the last release", when, used, c.requested);
  size_t from_pages = c.pages * g->pa[s.pa].ps;
  if (c.def_oversize == 0) {
    if (allocated != from_pages + c.rec_oversize_bytes)
      failc("%s: space_allocated()=%zu but the resource holds %zu pages of %zu bytes and %zu upstream bytes", when, allocated, c.pages,
            g->pa[s.pa].ps, c.rec_oversize_bytes);
  } else if (allocated < from_pages + c.rec_oversize_bytes) {
    failc("%s: space_allocated()=%zu is less than what the resource visibly holds (%zu)", when, allocated, from_pages + c.rec_oversize_bytes);
  }
}

// a content was released (release(), destruction, or consumed by a move): everything must be back
void expect_released(int cid, const char* how) {
  Content& c = g->contents[cid];
  if (c.dtors_pending) failc("%s: %zu registered destructors did not run", how, c.dtors_pending);
  if (c.pages) failc("%s: %zu of %zu pages were not returned to the page allocator", how, c.pages, c.pages_ever);
  if (c.rec_oversize) failc("%s: %zu oversize blocks were not returned to the upstream they came from", how, c.rec_oversize);
  if (c.pages_ever > 15) vfz::label("released_after_page_array_rollover");
  if (c.pages_ever > 15 || c.extra_page || c.def_oversize) g->nt = true;
  for (int bi : c.blocks) {
    Block& b = g->blocks[bi];
    g->intervals.erase((uintptr_t)b.ptr);
  }
  c.blocks.clear();
  c.dtor_order.clear();
  c.pages_ever = 0;
  c.def_oversize = 0;
  c.requested = 0;
  c.dealloc_seen = false;
  c.extra_page = false;
}

void do_release(Slot& s, bool destroy) {
  Content& c = g->contents[s.content];
  verify_all("before release");
  if (c.rec_oversize) g->nt = true;
  g->cur = s.content;
  g->releasing = s.content;
  c.dealloc_seen = false;
  if (destroy) {
    s.res.reset();
  } else {
    s.res->release();
  }
  g->releasing = -1;
  g->cur = -1;
  expect_released(s.content, destroy ? "after destruction" : "after release()");
  if (!destroy) {
    if (s.res->space_used() != 0 || s.res->space_allocated() != 0)
      failc("after release(): space_used()=%zu space_allocated()=%zu, expected 0/0", s.res->space_used(), s.res->space_allocated());
  } else {
    s.content = -1;
  }
}

// F6 (known finding, see DESIGN.md section 6): ExclusiveMonotonicBufferResource's move constructor / move
// assignment do not carry _upstream, so oversize blocks that change owner are later handed to the wrong upstream.
// The shape is exactly: a move between two resources configured with different upstreams while a content that
// changes owner holds live oversize blocks. Excluded from generation unless VF_ALLOW_KNOWN=1.
bool allow_known() {
  static int v = -1;
  if (v < 0) v = vf_allow_known("f6") ? 1 : 0;
  return v == 1;
}
bool has_oversize(int cid) { return cid >= 0 && (g->contents[cid].rec_oversize || g->contents[cid].def_oversize); }
bool known_f6_move_across_upstreams(int src_up, int src_content, int dst_up, int dst_content) {
  if (src_up == dst_up) return false;
  return has_oversize(src_content) || has_oversize(dst_content);
}

void run(const uint8_t* data, size_t size) {
  vfz::Dec d(data, size);
  static const size_t PS[] = {128, 256, 512, 1024, 4096};
  Case cs;
  g = &cs;
  cs.pa[0].index = 0;
  cs.pa[1].index = 1;
  cs.up[0].index = 0;
  cs.up[1].index = 1;
  cs.pa[0].ps = PS[d.below(5)];
  cs.pa[1].ps = PS[d.below(5)];
  char tmp[160];
  snprintf(tmp, sizeof tmp, "ps0=%zu ps1=%zu;", cs.pa[0].ps, cs.pa[1].ps);
  cs.desc = tmp;
  auto note = [&](const char* fmt, auto... a) {
    if (cs.desc.size() > 6000) return;
    snprintf(tmp, sizeof tmp, fmt, a...);
    cs.desc += ' ';
    cs.desc += tmp;
  };

  auto create_slot = [&](int i, int pa, int up) {
    Slot& s = cs.slot[i];
    s.res.reset(new Resource);
    s.pa = pa;
    s.up = up;
    s.content = new_content();
    s.res->set_page_allocator(cs.pa[pa]);
    if (up >= 0) s.res->set_upstream(cs.up[up]);
    note("new r%d(pa%d,up%d)", i, pa, up);
  };
  create_slot(0, 0, 0);

  size_t moves = 0, releases = 0;
  int ops = 0;
  while (!d.done() && ops < 250) {
    ops++;
    uint8_t op = d.u8();
    int si = (op >> 6) % 3;
    Slot& s = cs.slot[si];
    op &= 63;
    if (!s.res) {
      // empty slot: create a resource there (any page allocator / upstream)
      int pa = d.below(2);
      int up = (int)d.below(3) - 1;
      create_slot(si, pa, up);
      continue;
    }
    size_t ps = cs.pa[s.pa].ps;
    if (op < 34) {
      // ---- allocate ----
      static const int K_BYTES = 12;
      size_t bytes = 0;
      unsigned cls = d.below(K_BYTES);
      unsigned delta = d.u8();
      switch (cls) {
        case 0: bytes = delta % 17; break;
        case 1: bytes = delta; break;
        case 2: bytes = (ps >= 136 ? ps - 136 : 0) + delta % 17; break;                // around the room left next to an in-page page array
        case 3: bytes = ps - delta % 17; break;                         // just below / at a page
        case 4: bytes = ps + 1 + delta % 8; break;                      // just above a page: oversize
        case 5: bytes = 2 * ps + delta; break;
        case 6: bytes = (delta & 1) ? 65536 + delta : 3 * ps + delta; break;
        case 7: bytes = ps / 2 + delta % 9; break;                      // two per page at most: consumes pages quickly
        case 8: {                                                       // around what is left in the current page
          Content& c = cs.contents[s.content];
          size_t rem = ps / 3;
          if (!c.blocks.empty()) {
            Block& lb = cs.blocks[c.blocks.back()];
            uintptr_t page = (uintptr_t)lb.ptr & ~(uintptr_t)(ps - 1);
            if (cs.pa[s.pa].live.count(page)) rem = page + ps - ((uintptr_t)lb.ptr + lb.bytes);
          }
          bytes = rem + 8 - delta % 17;
          if (bytes > (1u << 20)) bytes = 0;
          break;
        }
        case 9: bytes = 128 - 8 + delta % 17; break;                     // sizeof(PageArray) neighbourhood
        case 10: bytes = 248 + delta % 9; break;                         // sizeof(DestroyTaskArray) neighbourhood
        default: bytes = (size_t)delta * 16; break;
      }
      unsigned max_shift = 1;
      while ((1u << max_shift) < 2 * ps) max_shift++;
      unsigned form = d.below(8);
      unsigned tk = form == 3 ? d.below(6) : 0;
      unsigned rep = 1;
      if (op >= 22) rep = 1 + d.below(24);  // bursts roll the page array over
      if (bytes > 4 * ps && rep > 3) rep = 3;  // (big blocks are expensive to fill and verify)
      if (cs.blocks.size() > 400) rep = 1;
      size_t align = (size_t)1 << d.below(max_shift + 1);
      for (unsigned r = 0; r < rep; r++) {
        begin_op(s);
        size_t before = default_oversize_counter();
        size_t rec_before = cs.rec_oversize_this_op;
        char* p = nullptr;
        switch (form) {
          case 0: case 1: case 2:
            p = (char*)s.res->allocate(bytes, align);
            break;
          case 3: {
            // compile-time alignment forms
            static const size_t TA[] = {1, 8, 16, 64, 4096, 8192};
            unsigned k = tk;
            align = TA[k];
            switch (k) {
              case 0: p = (char*)s.res->allocate<1>(bytes); break;
              case 1: p = (char*)s.res->allocate<8>(bytes); break;
              case 2: p = (char*)s.res->allocate<16>(bytes); break;
              case 3: p = (char*)s.res->allocate<64>(bytes); break;
              case 4: p = (char*)s.res->allocate<4096>(bytes); break;
              default: p = (char*)s.res->allocate<8192>(bytes); break;
            }
            break;
          }
          case 4:  // through the polymorphic base (virtual do_allocate)
            p = (char*)static_cast<MonotonicBufferResource&>(*s.res).allocate(bytes, align);
            break;
          case 5: {  // as a std::pmr::memory_resource; deallocate is a no-op for a monotonic resource
            std::pmr::memory_resource& mr = *s.res;
            p = (char*)mr.allocate(bytes, align);
            mr.deallocate(p, bytes, align);
            break;
          }
          case 6: {  // MonotonicAllocator<T, Exclusive>::allocate(n)
            ::babylon::ExclusiveAllocator<uint64_t> a(*s.res);
            size_t n = bytes / 8;
            bytes = n * 8;
            align = 8;
            p = (char*)a.allocate(n);
            break;
          }
          default: {  // MonotonicAllocator::allocate_bytes
            ::babylon::MonotonicAllocator<char> a(*s.res);
            p = (char*)a.allocate_bytes(bytes, align);
            break;
          }
        }
        size_t total_oversize = default_oversize_counter() - before;
        size_t rec = cs.rec_oversize_this_op - rec_before;
        if (total_oversize < rec) failc("upstream saw %zu allocations but allocate_oversize_page_num() advanced by %zu", rec, total_oversize);
        size_t def_delta = total_oversize - rec;
        cs.contents[s.content].def_oversize += def_delta;
        if (r == 0) note("r%d.A%u(%zu,%zu)x%u", si, form, bytes, align, rep);
        admit_block(s, p, bytes, align, def_delta, false);
        end_op(s);
        if (rec) vfz::label("oversize_recorded");
        if (def_delta) vfz::label("oversize_default_upstream");
      }
      verify_recent(s.content, "after allocate");
      check_accounting(s, "after allocate");
    } else if (op < 44) {
      // ---- create a tracked object and register its destructor ----
      unsigned form = d.below(4);
      unsigned rep = 1 + (op >= 40 ? d.below(20) : 0);
      for (unsigned r = 0; r < rep; r++) {
        begin_op(s);
        size_t before = default_oversize_counter();
        size_t rec_before = cs.rec_oversize_this_op;
        char* p = nullptr;
        size_t bytes = sizeof(TObj);
        // the object goes into the registry before babylon hears about it
        auto reg = [&](char* q) {
          size_t total = default_oversize_counter() - before;
          size_t rec = cs.rec_oversize_this_op - rec_before;
          cs.contents[s.content].def_oversize += total - rec;
          admit_block(s, q, bytes, alignof(TObj), total - rec, true);
          int bi = cs.contents[s.content].blocks.back();
          cs.dtor_reg[q] = bi;
          cs.contents[s.content].dtor_order.push_back(bi);
          cs.contents[s.content].dtors_pending++;
          before = default_oversize_counter();
          rec_before = cs.rec_oversize_this_op;
        };
        switch (form) {
          case 0:
            p = (char*)s.res->allocate<alignof(TObj)>(bytes);
            reg(p);
            s.res->register_destructor((void*)p, &on_destruct);
            break;
          case 1:
            p = (char*)s.res->allocate(bytes, alignof(TObj));
            reg(p);
            s.res->register_destructor(reinterpret_cast<TObj*>(p));
            break;
          case 2: {
            p = (char*)s.res->allocate(bytes, alignof(TObj));
            reg(p);
            auto* task = s.res->get_destroy_task();
            task->ptr = p;
            task->destructor = &on_destruct;
            break;
          }
          default: {
            // allocate + construct + register in one call; the object is admitted right after
            ::babylon::ExclusiveAllocator<TObj> a(*s.res);
            size_t b0 = default_oversize_counter();
            size_t r0 = cs.rec_oversize_this_op;
            p = (char*)a.create();
            (void)b0;
            (void)r0;
            reg(p);
            break;
          }
        }
        // the destroy-task array may itself have gone to the upstream (page size < sizeof(DestroyTaskArray))
        {
          size_t total = default_oversize_counter() - before;
          size_t rec = cs.rec_oversize_this_op - rec_before;
          if (total < rec) failc("upstream saw %zu allocations but allocate_oversize_page_num() advanced by %zu", rec, total);
          cs.contents[s.content].def_oversize += total - rec;
        }
        if (r == 0) note("r%d.D%u x%u", si, form, rep);
        end_op(s);
      }
      vfz::label("register_destructor");
      verify_recent(s.content, "after register_destructor");
      check_accounting(s, "after register_destructor");
    } else if (op < 48) {
      // ---- contains ----
      Content& c = cs.contents[s.content];
      note("r%d.C", si);
      size_t nb = c.blocks.size();
      for (size_t q = 0; q < nb; q++) {
        if (q >= 8 && q + 48 < nb) continue;  // the oldest and the most recent blocks (contains() walks every page)
        Block& b = cs.blocks[c.blocks[q]];
        if (!s.res->contains(b.ptr) || !s.res->contains(b.ptr + b.bytes - 1) || !s.res->contains(b.ptr + b.bytes / 2))
          failc("contains() is false for a byte of live block #%u (%p, %zu bytes)", b.serial, (void*)b.ptr, b.bytes);
      }
      int on_stack = 0;
      if (s.res->contains(&on_stack)) failc("contains(address of a local variable of the harness) is true");
      if (static_cast<MonotonicBufferResource&>(*s.res).contains(&cs)) failc("contains(address of a harness object) is true");
      vfz::label("contains");
    } else if (op < 53) {
      // ---- release ----
      note("r%d.R", si);
      do_release(s, false);
      releases++;
      vfz::label("release");
      verify_all("after release");
    } else if (op < 56) {
      // ---- destroy ----
      note("r%d.~", si);
      do_release(s, true);
      releases++;
      vfz::label("destroy");
      verify_all("after destruction");
    } else if (op < 60) {
      // ---- move-construct slot sj from slot si ----
      int sj = (si + 1 + (int)d.below(2)) % 3;
      Slot& t = cs.slot[sj];
      if (t.res) {
        // occupied: destroy the old occupant first
        note("r%d.~", sj);
        do_release(t, true);
      }
      bool f6 = known_f6_move_across_upstreams(s.up, s.content, -1, -1);
      if (f6 && !allow_known()) {
        if (!cs.excluded_f6) vfz::label("excluded_known_f6");
        cs.excluded_f6 = true;
        note("(skipped known_f6 move-construct r%d<-r%d)", sj, si);
        continue;
      }
      if (f6) vfz::label("known_f6_shape_executed");
      note("r%d=R(move(r%d))", sj, si);
      bool nonempty = !cs.contents[s.content].blocks.empty() || cs.contents[s.content].pages;
      g->cur = s.content;
      t.res.reset(new Resource(std::move(*s.res)));
      g->cur = -1;
      t.content = s.content;
      t.pa = s.pa;
      t.up = -1;  // a move-constructed resource keeps the default upstream (see F6)
      s.content = new_content();
      moves++;
      if (nonempty) {
        cs.nt = true;
        vfz::label("move_construct_nonempty");
      } else {
        vfz::label("move_construct_empty");
      }
      // the moved-from resource owns nothing
      if (s.res->space_used() != 0 || s.res->space_allocated() != 0)
        failc("moved-from resource reports space_used()=%zu space_allocated()=%zu", s.res->space_used(), s.res->space_allocated());
      for (int bi : cs.contents[t.content].blocks)
        if (s.res->contains(cs.blocks[bi].ptr)) failc("moved-from resource still contains() block #%u", cs.blocks[bi].serial);
      check_accounting(t, "after move construction (target)");
      verify_all("after move construction");
      if (d.flip()) {
        note("r%d.~", si);
        do_release(s, true);
      } else {
        // reusable: give it a recording page allocator again (legal: it holds nothing)
        int pa = d.below(2);
        s.pa = pa;
        s.res->set_page_allocator(cs.pa[pa]);
        note("r%d.set_pa(%d)", si, pa);
      }
    } else {
      // ---- move-assign slot sj = move(slot si) ----
      int sj = (si + (int)d.below(3)) % 3;
      Slot& t = cs.slot[sj];
      if (!t.res) {
        int pa = d.below(2);
        int up = (int)d.below(3) - 1;
        create_slot(sj, pa, up);
      }
      if (sj == si) {
        note("r%d=move(r%d)", sj, si);
        Resource& self = *s.res;
        g->cur = s.content;
        g->releasing = -1;
        *s.res = std::move(self);
        g->cur = -1;
        vfz::label("self_move_assign");
        verify_all("after self move-assignment");
        check_accounting(s, "after self move-assignment");
        continue;
      }
      bool f6 = known_f6_move_across_upstreams(s.up, s.content, t.up, t.content);
      if (f6 && !allow_known()) {
        if (!cs.excluded_f6) vfz::label("excluded_known_f6");
        cs.excluded_f6 = true;
        note("(skipped known_f6 r%d=move(r%d))", sj, si);
        continue;
      }
      if (f6) vfz::label("known_f6_shape_executed");
      note("r%d=move(r%d)", sj, si);
      bool nonempty = !cs.contents[s.content].blocks.empty() || cs.contents[s.content].pages;
      int old_target = t.content;
      Content& oc = cs.contents[old_target];
      size_t pend0 = oc.dtors_pending, pages0 = oc.pages, over0 = oc.rec_oversize;
      verify_all("before move assignment");
      // what the target held is either released by the assignment or handed to the source (swap): nothing may get lost
      g->cur = old_target;
      g->releasing = old_target;
      oc.dealloc_seen = false;
      *t.res = std::move(*s.res);
      g->releasing = -1;
      g->cur = -1;
      bool untouched = oc.dtors_pending == pend0 && oc.pages == pages0 && oc.rec_oversize == over0;
      t.content = s.content;
      std::swap(t.pa, s.pa);  // page allocators travel with what they allocated
      if (untouched) {
        s.content = old_target;  // exchanged
        vfz::label("move_assign_exchanged");
      } else {
        expect_released(old_target, "move assignment released part of the target's old memory but not all of it");
        s.content = new_content();
        vfz::label("move_assign_released_target");
      }
      moves++;
      if (nonempty) {
        cs.nt = true;
        vfz::label("move_assign_nonempty");
      }
      check_accounting(t, "after move assignment (target)");
      check_accounting(s, "after move assignment (source)");
      for (int bi : cs.contents[t.content].blocks)
        if (cs.blocks[bi].bytes && !t.res->contains(cs.blocks[bi].ptr)) failc("after move assignment the target does not contain() block #%u it received", cs.blocks[bi].serial);
      verify_all("after move assignment");
    }
  }
  // tear down: everything goes back
  for (int i = 0; i < 3; i++) {
    if (cs.slot[i].res) {
      note("r%d.~", i);
      do_release(cs.slot[i], true);
    }
  }
  for (int k = 0; k < 2; k++) {
    if (!cs.pa[k].live.empty()) failc("end of case: page allocator %d still has %zu pages outstanding", k, cs.pa[k].live.size());
    if (!cs.up[k].live.empty()) failc("end of case: upstream %d still has %zu blocks outstanding", k, cs.up[k].live.size());
    if (cs.pa[k].allocs != cs.pa[k].frees) failc("page allocator %d: %zu allocations, %zu deallocations", k, cs.pa[k].allocs, cs.pa[k].frees);
  }
  if (!cs.dtor_reg.empty()) failc("end of case: %zu registered destructors never ran", cs.dtor_reg.size());
  if (moves) vfz::label("case_with_move");
  if (cs.nt) vfz::nontrivial(vfz::hash_bytes(data, size), cs.desc.substr(0, 400));
  g = nullptr;
}

}  // namespace

// ASan / UBSan reports do not pass through vfz::fail: print the decoded case next to them
extern "C" void __asan_set_error_report_callback(void (*)(const char*));
static void vf_print_case_on_report(const char*) {
  if (g) fprintf(stderr, "CASE: %s\n", g->desc.c_str());
}
extern "C" int LLVMFuzzerInitialize(int*, char***) {
  __asan_set_error_report_callback(&vf_print_case_on_report);
  return 0;
}

extern "C" int LLVMFuzzerTestOneInput(const uint8_t* data, size_t size) {
  vfz::begin_case(RULE);
  run(data, size);
  return 0;
}
