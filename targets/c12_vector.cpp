// C12 (vector part): ReusableVector<T> against std::vector, driven by an operation
// sequence decoded from the fuzzer's bytes. Element types: int, MonotonicString,
// ReusableVector<MonotonicString>, Elem (a harness type that implements the reuse
// protocol and keeps a registry of live objects) and a protobuf message on a
// SwissMemoryResource. libFuzzer + ASan.
#include "known.h"
#include <babylon/reusable/manager.h>
#include <babylon/reusable/string.h>
#include <babylon/reusable/vector.h>

#include <google/protobuf/descriptor.pb.h>

#include <deque>
#include <list>
#include <memory>
#include <set>
#include <string>
#include <vector>

#include "fuzz_common.h"

namespace {

using ::babylon::ExclusiveMonotonicBufferResource;
using ::babylon::MonotonicAllocator;
using ::babylon::MonotonicBufferResource;
using ::babylon::MonotonicString;
using ::babylon::ReusableVector;
using ::babylon::SwissAllocator;
using ::babylon::SwissMemoryResource;

const char* RULE =
    "decoded op sequence over 3 ReusableVector objects (two share a resource) mirrored on std::vector; non-trivial = an insert whose "
    "new range straddled the size/constructed-size boundary (old size < constructed size < old size + count), or an erase/insert "
    "performed while logically erased elements were still constructed, followed by a full comparison";

std::string* g_desc = nullptr;

[[noreturn]] void failc(const char* fmt, ...) __attribute__((format(printf, 1, 2)));
void failc(const char* fmt, ...) {
  char buf[2048];
  va_list ap;
  va_start(ap, fmt);
  vsnprintf(buf, sizeof buf, fmt, ap);
  va_end(ap);
  vfz::fail(g_desc ? *g_desc : std::string("?"), "%s", buf);
}

// ---------------------------------------------------------------------------------------------
// Elem: implements the reuse protocol (AllocationMetadata / update_allocation_metadata / clear /
// assignment) and reports every lifetime mistake of its container.
struct ElemRegistry {
  std::set<const void*> live;
  long constructed = 0, destroyed = 0;
};
ElemRegistry* g_reg = nullptr;

struct Elem {
  struct AllocationMetadata {
    int cap = 0;
  };
  static constexpr int MOVED = -777;
  int value;
  int cap;  // "retained capacity": the largest value it ever held
  void born() {
    if (!g_reg->live.insert(this).second) failc("Elem constructed at %p over an object that is still alive", (void*)this);
    g_reg->constructed++;
  }
  void alive(const char* what) const {
    if (!g_reg->live.count(this)) failc("Elem at %p %s while it is not constructed (never constructed or already destroyed)", (const void*)this, what);
  }
  Elem() : value(0), cap(0) { born(); }
  Elem(int v) : value(v), cap(v) { born(); }
  Elem(int a, int b) : value(a * 1000 + b), cap(a * 1000 + b) { born(); }
  Elem(const AllocationMetadata& m) : value(0), cap(m.cap) { born(); }
  Elem(const Elem& o) : value(o.value), cap(o.value) {
    o.alive("copied from");
    born();
  }
  Elem(Elem&& o) noexcept : value(o.value), cap(o.cap) {
    o.alive("moved from");
    born();
    o.value = MOVED;
  }
  Elem& operator=(const Elem& o) {
    alive("assigned to");
    o.alive("copied from");
    value = o.value;
    if (cap < value) cap = value;
    return *this;
  }
  Elem& operator=(Elem&& o) noexcept {
    alive("assigned to");
    o.alive("moved from");
    if (this != &o) {
      value = o.value;
      if (cap < value) cap = value;
      o.value = MOVED;
    }
    return *this;
  }
  void clear() {
    alive("cleared");
    value = 0;
  }
  void update_allocation_metadata(AllocationMetadata& m) const {
    alive("asked for its capacity");
    if (m.cap < cap) m.cap = cap;
  }
  ~Elem() {
    if (!g_reg->live.erase(this)) failc("Elem at %p destroyed while it is not constructed (double destruction?)", (void*)this);
    g_reg->destroyed++;
  }
  int read() const {
    alive("read");
    return value;
  }
  friend bool operator==(const Elem& a, const Elem& b) { return a.read() == b.read(); }
  friend bool operator!=(const Elem& a, const Elem& b) { return a.read() != b.read(); }
};

// ---------------------------------------------------------------------------------------------
// element traits: T = babylon side, M = model side
struct IntTr {
  using T = int;
  using M = int;
  using Res = ExclusiveMonotonicBufferResource;
  using Vec = ReusableVector<int>;
  static const char* name() { return "int"; }
  static M gen(vfz::Dec& d) { return (int)d.u8() - 100; }
  static T build(const M& m, Res&) { return m; }
  template <class C>
  static void emplace(C& c, const M& m, Res&) { c.emplace_back(m); }
  static bool eq(const T& t, const M& m) { return t == m; }
  static std::string show(const M& m) { return std::to_string(m); }
  static M blank() { return 0; }
  static M read(const T& t) { return t; }
  static constexpr bool RAW = true;  // model values can be handed to the container directly
  static constexpr bool MEM = false; // elements own memory of the resource
  static constexpr bool HAS_EQ = true;
  static constexpr bool TWO_ARGS = false;
  static constexpr bool COUNT_ARG = false;
};

std::string gen_string(vfz::Dec& d) {
  static const size_t L[] = {0, 1, 3, 15, 16, 17, 31, 40, 100, 200};
  uint8_t a = d.u8();
  size_t len = L[a % 10];
  if (a & 0x80) len += d.u8() % 7;
  std::string s(len, 'a');
  uint8_t seed = d.u8();
  for (size_t i = 0; i < len; i++) s[i] = (char)('a' + (seed + i * 3) % 26);
  return s;
}

struct StrTr {
  using T = MonotonicString;
  using M = std::string;
  using Res = ExclusiveMonotonicBufferResource;
  using Vec = ReusableVector<MonotonicString>;
  static const char* name() { return "MonotonicString"; }
  static M gen(vfz::Dec& d) { return gen_string(d); }
  static T build(const M& m, Res& r) { return T(m, typename T::allocator_type(r)); }
  template <class C>
  static void emplace(C& c, const M& m, Res& r) { c.emplace_back(m, typename T::allocator_type(r)); }
  static bool eq(const T& t, const M& m) { return t.size() == m.size() && memcmp(t.data(), m.data(), m.size()) == 0 && t.c_str()[t.size()] == 0; }
  static std::string show(const M& m) { return "\"" + (m.size() > 8 ? m.substr(0, 8) + "..(" + std::to_string(m.size()) + ")" : m) + "\""; }
  static M blank() { return M(); }
  static M read(const T& t) { return M(t.data(), t.size()); }
  static constexpr bool RAW = true;
  static constexpr bool MEM = true;
  static constexpr bool HAS_EQ = true;
  static constexpr bool COUNT_ARG = false;
  static constexpr bool TWO_ARGS = true;  // (count, char): std::basic_string::assign(n, c) on a reused slot
  static M make2(unsigned a, unsigned b) { return M((size_t)a, (char)('a' + b)); }
  template <class V>
  static void emplace2_back(V& v, unsigned a, unsigned b) { v.emplace_back((size_t)a, (char)('a' + b)); }
  template <class V, class It>
  static auto emplace2(V& v, It pos, unsigned a, unsigned b) { return v.emplace(pos, (size_t)a, (char)('a' + b)); }
};

struct NestTr {
  using T = ReusableVector<MonotonicString>;
  using M = std::vector<std::string>;
  using Res = ExclusiveMonotonicBufferResource;
  using Vec = ReusableVector<T>;
  static const char* name() { return "ReusableVector<MonotonicString>"; }
  static M gen(vfz::Dec& d) {
    M m;
    size_t n = d.u8() % 5;
    for (size_t i = 0; i < n; i++) m.push_back(gen_string(d));
    return m;
  }
  static T build(const M& m, Res& r) {
    T t{typename T::allocator_type(r)};
    for (auto& s : m) t.emplace_back(s);
    return t;
  }
  template <class C>
  static void emplace(C& c, const M& m, Res& r) { c.emplace_back(build(m, r)); }
  static bool eq(const T& t, const M& m) {
    if (t.size() != m.size()) return false;
    for (size_t i = 0; i < m.size(); i++)
      if (!StrTr::eq(t[i], m[i])) return false;
    return true;
  }
  static std::string show(const M& m) { return "[" + std::to_string(m.size()) + " strings]"; }
  static M blank() { return M(); }
  static M read(const T& t) {
    M m;
    for (auto& s : t) m.push_back(StrTr::read(s));
    return m;
  }
  static constexpr bool RAW = false;
  static constexpr bool MEM = true;
  static constexpr bool HAS_EQ = true;
  static constexpr bool TWO_ARGS = false;
  static constexpr bool COUNT_ARG = true;  // emplace(count): a reused inner vector is re-exposed through assign(count)
};

struct ElemTr {
  using T = Elem;
  using M = int;
  using Res = ExclusiveMonotonicBufferResource;
  using Vec = ReusableVector<Elem>;
  static const char* name() { return "Elem"; }
  static M gen(vfz::Dec& d) { return (int)d.u8() + 1; }
  static T build(const M& m, Res&) { return Elem(m); }
  template <class C>
  static void emplace(C& c, const M& m, Res&) { c.emplace_back(m); }
  static bool eq(const T& t, const M& m) { return t.read() == m; }
  static std::string show(const M& m) { return std::to_string(m); }
  static M blank() { return 0; }
  static M read(const T& t) { return t.read(); }
  static constexpr bool RAW = true;
  static constexpr bool MEM = false;
  static constexpr bool HAS_EQ = true;
  static constexpr bool COUNT_ARG = false;
  static constexpr bool TWO_ARGS = true;  // Elem(int, int): no assign(a, b), so a reused slot is destroyed and constructed again
  static M make2(unsigned a, unsigned b) { return (int)(a * 1000 + b); }
  template <class V>
  static void emplace2_back(V& v, unsigned a, unsigned b) { v.emplace_back((int)a, (int)b); }
  template <class V, class It>
  static auto emplace2(V& v, It pos, unsigned a, unsigned b) { return v.emplace(pos, (int)a, (int)b); }
};

// protobuf message elements live on the arena view of a SwissMemoryResource
using Proto = ::google::protobuf::EnumValueDescriptorProto;
struct ProtoM {
  std::string name;
  int number = 0;
  bool has_name = false, has_number = false;
  bool operator==(const ProtoM& o) const { return name == o.name && number == o.number && has_name == o.has_name && has_number == o.has_number; }
};
struct ProtoTr {
  using T = Proto;
  using M = ProtoM;
  using Res = SwissMemoryResource;
  using Vec = ReusableVector<Proto, SwissAllocator<Proto>>;
  static const char* name() { return "protobuf message"; }
  static M gen(vfz::Dec& d) {
    M m;
    uint8_t k = d.u8();
    if (k & 1) {
      m.has_name = true;
      m.name = gen_string(d);
    }
    if (k & 2) {
      m.has_number = true;
      m.number = (int)d.u8() - 50;
    }
    return m;
  }
  static T build(const M& m, Res&) {
    T t;  // a heap message: copying into the arena-owned element is a deep copy
    if (m.has_name) t.set_name(m.name);
    if (m.has_number) t.set_number(m.number);
    return t;
  }
  template <class C>
  static void emplace(C& c, const M& m, Res& r) { c.emplace_back(build(m, r)); }
  static bool eq(const T& t, const M& m) { return read(t) == m; }
  static std::string show(const M& m) { return "{" + (m.has_name ? StrTr::show(m.name) : std::string("-")) + "," + (m.has_number ? std::to_string(m.number) : std::string("-")) + "}"; }
  static M blank() { return M(); }
  static M read(const T& t) {
    M m;
    m.has_name = t.has_name();
    m.name = t.name();
    m.has_number = t.has_number();
    m.number = t.number();
    return m;
  }
  static constexpr bool RAW = false;
  static constexpr bool MEM = true;
  static constexpr bool HAS_EQ = false;
  static constexpr bool TWO_ARGS = false;
  static constexpr bool COUNT_ARG = false;
};

// F8 (known finding, reported by this target): ReusableVector does not support a value argument that refers to an
// element of the destination vector. std::vector guarantees v.push_back(v[i]) / v.insert(pos, v[i]) / insert(pos, n, v[i]);
// ReusableVector relocates (reserve) or shifts (prepare_for_insert) first and reads the argument afterwards, so a
// moved-from / shifted element is copied (observed: push_back(v[0]) at capacity appends an empty string). The shape is
// exactly: push_back/insert/insert(n) whose value is a reference into the same vector. Excluded unless VF_ALLOW_KNOWN=1.
bool g_excluded_f8 = false;
bool known_f8_value_argument_aliases_destination() {
  static int allow = -1;
  if (allow < 0) allow = vf_allow_known("f8") ? 1 : 0;
  if (allow == 1) return false;
  if (!g_excluded_f8) vfz::label("excluded_known_f8");
  g_excluded_f8 = true;
  return true;
}

// ---------------------------------------------------------------------------------------------
template <class Tr>
struct Runner {
  using T = typename Tr::T;
  using M = typename Tr::M;
  using Res = typename Tr::Res;
  using Vec = typename Tr::Vec;
  using Alloc = typename Vec::allocator_type;
  using Model = std::vector<M>;

  vfz::Dec& d;
  std::string& desc;
  Res res[2];
  // object k lives on resource home[k]; objects 0 and 1 share a resource (swap / same-allocator move), object 2 does not
  static constexpr int NV = 3;
  int home[NV] = {0, 0, 1};
  std::unique_ptr<Vec> v[NV];
  Model model[NV];
  size_t cap_lb[NV] = {0, 0, 0};   // capacity never decreases
  size_t cons_lb[NV] = {0, 0, 0};  // constructed size never decreases
  bool nt = false;

  Runner(vfz::Dec& dd, std::string& ds) : d(dd), desc(ds) {}

  void note(const char* fmt, ...) __attribute__((format(printf, 2, 3))) {
    if (desc.size() > 6000) return;
    char buf[256];
    va_list ap;
    va_start(ap, fmt);
    vsnprintf(buf, sizeof buf, fmt, ap);
    va_end(ap);
    desc += ' ';
    desc += buf;
  }

  Alloc alloc(int r) { return Alloc(res[r]); }
  size_t used(int r) { return res[r].space_used(); }

  void invariants(int k, const char* after, bool exchanged = false) {
    Vec& x = *v[k];
    if (!(x.size() <= x.constructed_size() && x.constructed_size() <= x.capacity()))
      failc("after %s: v%d violates size(%zu) <= constructed_size(%zu) <= capacity(%zu)", after, k, x.size(), x.constructed_size(), x.capacity());
    if (!exchanged) {
      if (x.capacity() < cap_lb[k]) failc("after %s: capacity of v%d shrank from %zu to %zu", after, k, cap_lb[k], x.capacity());
      if (x.constructed_size() < cons_lb[k]) failc("after %s: constructed_size of v%d shrank from %zu to %zu", after, k, cons_lb[k], x.constructed_size());
    }
    cap_lb[k] = x.capacity();
    cons_lb[k] = x.constructed_size();
  }

  void compare(int k, const char* after) {
    Vec& x = *v[k];
    const Vec& cx = x;
    Model& m = model[k];
    if (x.size() != m.size()) failc("after %s: v%d.size()=%zu, std::vector has %zu", after, k, x.size(), m.size());
    if (x.empty() != m.empty()) failc("after %s: v%d.empty()=%d, std::vector says %d", after, k, (int)x.empty(), (int)m.empty());
    for (size_t i = 0; i < m.size(); i++)
      if (!Tr::eq(cx[i], m[i])) failc("after %s: v%d[%zu] is %s, std::vector has %s", after, k, i, Tr::show(Tr::read(cx[i])).c_str(), Tr::show(m[i]).c_str());
    size_t i = 0;
    for (auto it = cx.begin(); it != cx.end(); ++it, ++i)
      if (i >= m.size() || !Tr::eq(*it, m[i])) failc("after %s: forward iteration of v%d differs from the model at %zu", after, k, i);
    if (i != m.size()) failc("after %s: forward iteration of v%d visited %zu of %zu elements", after, k, i, m.size());
    i = m.size();
    for (auto it = cx.rbegin(); it != cx.rend(); ++it) {
      if (i == 0) failc("after %s: reverse iteration of v%d runs past the beginning", after, k);
      --i;
      if (!Tr::eq(*it, m[i])) failc("after %s: reverse iteration of v%d differs from the model at %zu", after, k, i);
    }
    if (i != 0) failc("after %s: reverse iteration of v%d stopped early", after, k);
    if (!m.empty()) {
      if (!Tr::eq(cx.front(), m.front()) || !Tr::eq(cx.back(), m.back())) failc("after %s: front()/back() of v%d differ from the model", after, k);
      if (cx.data() != &cx[0]) failc("after %s: data() of v%d is not the address of element 0", after, k);
    }
    if (cx.cbegin() != cx.begin() || cx.cend() != cx.end() || (size_t)(cx.end() - cx.begin()) != m.size()) failc("after %s: iterator pairs of v%d are inconsistent", after, k);
  }

  void check(int k, const char* after, bool exchanged = false) {
    invariants(k, after, exchanged);
    compare(k, after);
  }

  std::vector<M> gen_values(size_t maxn) {
    std::vector<M> out;
    size_t n = d.u8() % (maxn + 1);
    for (size_t i = 0; i < n; i++) out.push_back(Tr::gen(d));
    return out;
  }
  // temporaries on a chosen resource (same allocator as the destination, or the other one)
  // (a deque: MonotonicString has neither a copy nor a move constructor without an allocator argument)
  struct Temps {
    std::deque<T> q;
    auto begin() { return q.begin(); }
    auto end() { return q.end(); }
    size_t size() const { return q.size(); }
    T& operator[](size_t i) { return q[i]; }
  };
  Temps build_all(const std::vector<M>& ms, int r) {
    Temps out;
    for (auto& m : ms) Tr::emplace(out.q, m, res[r]);
    return out;
  }
  std::list<T> build_list(const std::vector<M>& ms, int r) {
    std::list<T> out;
    for (auto& m : ms) Tr::emplace(out, m, res[r]);
    return out;
  }

  // classify where an insertion of `count` lands relative to the constructed prefix
  void classify_insert(Vec& x, size_t count) {
    size_t s = x.size(), c = x.constructed_size();
    if (count == 0) return;
    if (s < c && s + count > c) {
      nt = true;
      vfz::label("insert_straddles_constructed_boundary");
    } else if (s + count <= c) {
      if (s < c) nt = true;
      vfz::label("insert_into_constructed_slots");
    } else {
      vfz::label("insert_into_raw_slots");
    }
  }

  // insert one value with one of the argument forms
  template <class F>
  void with_value(const M& m, int k, unsigned form, F f) {
    int same = home[k], other = 1 - home[k];
    switch (form % 4) {
      case 0: {
        T t = Tr::build(m, res[same]);
        const T& ct = t;
        f(ct);
        break;
      }
      case 1: {
        T t = Tr::build(m, res[same]);
        f(std::move(t));
        break;
      }
      case 2: {
        T t = Tr::build(m, res[other]);
        const T& ct = t;
        f(ct);
        break;
      }
      default:
        if constexpr (Tr::RAW) {
          const M& cm = m;
          f(cm);
        } else {
          T t = Tr::build(m, res[other]);
          f(std::move(t));
        }
        break;
    }
  }

  void run() {
    for (int k = 0; k < NV; k++) v[k].reset(new Vec(alloc(home[k])));
    note("elem=%s;", Tr::name());
    int ops = 0;
    while (!d.done() && ops < 300) {
      ops++;
      uint8_t b = d.u8();
      int k = (b >> 6) % NV;
      unsigned op = b & 63;
      Vec& x = *v[k];
      Model& m = model[k];
      unsigned form = d.u8();
      if (op < 8 && form % 16 == 14 && !m.empty()) {
        // the value argument is an element of the destination itself: legal for std::vector (push_back(v[i]), insert(pos, v[i]))
        size_t src = d.u8() % m.size();
        size_t pos = d.u8() % (m.size() + 1);
        unsigned which = d.u8() % 3;
        if (known_f8_value_argument_aliases_destination()) continue;
        note("v%d.%s(aliased v%d[%zu], pos %zu)", k, which == 0 ? "push_back" : which == 1 ? "insert" : "insert_n", k, src, pos);
        M val = m[src];
        const Vec& cx = x;
        if (which == 0) {
          x.push_back(cx[src]);
          m.push_back(val);
        } else if (which == 1) {
          x.insert(x.cbegin() + pos, cx[src]);
          m.insert(m.begin() + (long)pos, val);
        } else {
          x.insert(x.cbegin() + pos, (size_t)2, cx[src]);
          m.insert(m.begin() + (long)pos, (size_t)2, val);
        }
        vfz::label("aliased_value_argument");
        check(k, "an insertion whose value argument is an element of the same vector");
      } else if (op < 8 && Tr::COUNT_ARG && form % 16 >= 13) {
        // emplace with a count: the element becomes a vector of `n` blank strings. On a slot that is constructed
        // but logically dead (after pop_back / erase / clear of the outer vector) this is Reuse::reconstruct(inner, n)
        // = inner.assign(n): whatever the inner vector held before must not show through.
        size_t pos = d.u8() % (m.size() + 1);
        size_t n = d.u8() % 5;
        bool at_end = d.u8() & 1;
        note("v%d.emplace%s(%zu; count %zu)", k, at_end ? "_back" : "", pos, n);
        classify_insert(x, 1);
        if constexpr (Tr::COUNT_ARG) {
          if (at_end) {
            x.emplace_back(n);
            m.push_back(M(n));
          } else {
            auto it = x.emplace(x.cbegin() + pos, n);
            m.insert(m.begin() + (long)pos, M(n));
            if (it != x.begin() + pos) failc("emplace(pos,count) returned an iterator to index %ld, expected %zu", (long)(it - x.begin()), pos);
          }
        }
        vfz::label("emplace_with_count_on_nested_vector");
        check(k, "emplace(count)");
      } else if (op < 8 && Tr::TWO_ARGS && form % 16 == 15) {
        // multi-argument emplace: in-place construction / assign(args...) / destroy+construct on a reused slot
        size_t pos = d.u8() % (m.size() + 1);
        unsigned a = d.u8() % 20, bb = d.u8() % 26;
        bool at_end = d.u8() & 1;
        note("v%d.emplace%s(%zu; %u,%u)", k, at_end ? "_back" : "", pos, a, bb);
        classify_insert(x, 1);
        if constexpr (Tr::TWO_ARGS) {
          if (at_end) {
            Tr::emplace2_back(x, a, bb);
            m.push_back(Tr::make2(a, bb));
          } else {
            auto it = Tr::emplace2(x, x.cbegin() + pos, a, bb);
            m.insert(m.begin() + (long)pos, Tr::make2(a, bb));
            if (it != x.begin() + pos) failc("emplace(pos,a,b) returned an iterator to index %ld, expected %zu", (long)(it - x.begin()), pos);
          }
        }
        vfz::label("emplace_two_args");
        check(k, "emplace(args...)");
      } else if (op < 8) {
        M val = Tr::gen(d);
        note("v%d.push_back/%u(%s)", k, form % 8, Tr::show(val).c_str());
        classify_insert(x, 1);
        if (form & 4) with_value(val, k, form, [&](auto&& a) { x.emplace_back(std::forward<decltype(a)>(a)); });
        else with_value(val, k, form, [&](auto&& a) { x.push_back(std::forward<decltype(a)>(a)); });
        m.push_back(val);
        check(k, "push_back");
      } else if (op < 11) {
        if (m.empty()) continue;
        note("v%d.pop_back", k);
        x.pop_back();
        m.pop_back();
        vfz::label("pop_back");
        check(k, "pop_back");
      } else if (op < 16) {
        M val = Tr::gen(d);
        size_t pos = d.u8() % (m.size() + 1);
        note("v%d.insert/%u(%zu,%s)", k, form % 8, pos, Tr::show(val).c_str());
        classify_insert(x, 1);
        typename Vec::iterator it{};
        if (form & 4) with_value(val, k, form, [&](auto&& a) { it = x.emplace(x.cbegin() + pos, std::forward<decltype(a)>(a)); });
        else with_value(val, k, form, [&](auto&& a) { it = x.insert(x.cbegin() + pos, std::forward<decltype(a)>(a)); });
        m.insert(m.begin() + (long)pos, val);
        if (it != x.begin() + pos) failc("insert/emplace returned an iterator to index %ld, expected %zu", (long)(it - x.begin()), pos);
        check(k, "insert(pos,value)");
      } else if (op < 20) {
        M val = Tr::gen(d);
        size_t pos = d.u8() % (m.size() + 1);
        size_t n = d.u8() % 7;
        note("v%d.insert(%zu,%zu x %s)", k, pos, n, Tr::show(val).c_str());
        classify_insert(x, n);
        typename Vec::iterator it{};
        with_value(val, k, form % 3 == 1 ? 0 : form, [&](auto&& a) {
          const auto& ca = a;
          it = x.insert(x.cbegin() + pos, n, ca);
        });
        m.insert(m.begin() + (long)pos, n, val);
        if (it != x.begin() + pos) failc("insert(pos,n,value) returned an iterator to index %ld, expected %zu", (long)(it - x.begin()), pos);
        check(k, "insert(pos,n,value)");
      } else if (op < 25) {
        size_t pos = d.u8() % (m.size() + 1);
        std::vector<M> vals = gen_values(6);
        note("v%d.insert(%zu,range/%u of %zu)", k, pos, form % 4, vals.size());
        classify_insert(x, vals.size());
        typename Vec::iterator it{};
        switch (form % 4) {
          case 0: {
            Temps tmp = build_all(vals, home[k]);
            it = x.insert(x.cbegin() + pos, tmp.begin(), tmp.end());
            break;
          }
          case 1: {
            std::list<T> tmp = build_list(vals, 1 - home[k]);  // no random access
            it = x.insert(x.cbegin() + pos, tmp.begin(), tmp.end());
            break;
          }
          case 2: {
            // from another ReusableVector (different object)
            int o = (k + 1) % NV;
            vals = model[o];
            if (vals.size() > 8) vals.resize(8);
            const Vec& src = *v[o];
            it = x.insert(x.cbegin() + pos, src.begin(), src.begin() + vals.size());
            break;
          }
          default:
            if constexpr (Tr::RAW) {
              it = x.insert(x.cbegin() + pos, vals.begin(), vals.end());
            } else {
              Temps tmp = build_all(vals, home[k]);
              it = x.insert(x.cbegin() + pos, tmp.begin(), tmp.end());
            }
            break;
        }
        m.insert(m.begin() + (long)pos, vals.begin(), vals.end());
        if (it != x.begin() + pos) failc("insert(pos,first,last) returned an iterator to index %ld, expected %zu", (long)(it - x.begin()), pos);
        check(k, "insert(pos,first,last)");
      } else if (op < 29) {
        if (m.empty()) continue;
        size_t pos = d.u8() % m.size();
        note("v%d.erase(%zu)", k, pos);
        if (x.constructed_size() > x.size()) nt = true;
        auto it = x.erase(x.cbegin() + pos);
        m.erase(m.begin() + (long)pos);
        if (it != x.begin() + pos) failc("erase(pos) returned an iterator to index %ld, expected %zu", (long)(it - x.begin()), pos);
        vfz::label("erase_one");
        check(k, "erase(pos)");
      } else if (op < 33) {
        size_t a = d.u8() % (m.size() + 1), e = d.u8() % (m.size() + 1);
        if (a > e) std::swap(a, e);
        note("v%d.erase(%zu,%zu)", k, a, e);
        if (x.constructed_size() > x.size() && a != e) nt = true;
        auto it = x.erase(x.cbegin() + a, x.cbegin() + e);
        m.erase(m.begin() + (long)a, m.begin() + (long)e);
        if (it != x.begin() + a) failc("erase(first,last) returned an iterator to index %ld, expected %zu", (long)(it - x.begin()), a);
        vfz::label(a == e ? "erase_empty_range" : "erase_range");
        check(k, "erase(first,last)");
      } else if (op < 37) {
        size_t n = d.u8() % 24;
        if (form & 1) {
          note("v%d.resize(%zu)", k, n);
          if (n > m.size()) classify_insert(x, n - m.size());
          x.resize(n);
          m.resize(n, Tr::blank());
        } else {
          M val = Tr::gen(d);
          note("v%d.resize(%zu,%s)", k, n, Tr::show(val).c_str());
          if (n > m.size()) classify_insert(x, n - m.size());
          with_value(val, k, form >> 1, [&](auto&& a) {
            const auto& ca = a;
            x.resize(n, ca);
          });
          m.resize(n, val);
        }
        vfz::label("resize");
        check(k, "resize");
      } else if (op < 39) {
        size_t n = d.u8() % 64;
        note("v%d.reserve(%zu)", k, n);
        x.reserve(n);
        if (x.capacity() < n) failc("reserve(%zu) left capacity %zu", n, x.capacity());
        vfz::label("reserve");
        check(k, "reserve");
      } else if (op < 43) {
        // logical clear: equal to a fresh object, nothing retained is given up, and refilling the same contents takes no memory
        note("v%d.clear%s", k, (form & 1) ? "+refill" : "");
        Model before = m;
        Temps tmp = build_all(before, home[k]);
        size_t cap0 = x.capacity(), cons0 = x.constructed_size();
        x.clear();
        m.clear();
        if (x.capacity() != cap0 || x.constructed_size() != cons0)
          failc("clear() changed capacity %zu->%zu / constructed_size %zu->%zu", cap0, x.capacity(), cons0, x.constructed_size());
        check(k, "clear");
        Vec fresh(alloc(home[k]));
        if (x.begin() != x.end() || x.size() != fresh.size() || !x.empty()) failc("a cleared vector does not look like a freshly constructed one");
        if constexpr (Tr::HAS_EQ) {
          if (!(x == fresh) || x != fresh) failc("a cleared vector does not compare equal to a freshly constructed one");
        }
        vfz::label("clear");
        if (form & 1) {
          size_t u0 = used(home[k]);
          x.assign(tmp.begin(), tmp.end());
          m = before;
          size_t u1 = used(home[k]);
          if (u1 != u0) failc("refilling a cleared vector with the %zu elements it held before took %zu new bytes from the resource", before.size(), u1 - u0);
          vfz::label("refill_after_clear");
          check(k, "refill after clear");
        }
      } else if (op < 47) {
        std::vector<M> vals = gen_values(10);
        note("v%d.assign/%u(%zu values)", k, form % 5, vals.size());
        switch (form % 5) {
          case 0: {
            M val = Tr::gen(d);
            size_t n = vals.size();
            with_value(val, k, form >> 3, [&](auto&& a) {
              const auto& ca = a;
              x.assign(n, ca);
            });
            vals.assign(n, val);
            break;
          }
          case 1: {
            Temps tmp = build_all(vals, home[k]);
            x.assign(tmp.begin(), tmp.end());
            break;
          }
          case 2: {
            std::list<T> tmp = build_list(vals, 1 - home[k]);
            x.assign(tmp.begin(), tmp.end());
            break;
          }
          case 3: {
            vals.resize(std::min<size_t>(vals.size(), 3));
            if constexpr (Tr::RAW) {
              const std::vector<M>& t = vals;
              if (t.size() == 3) x.assign({t[0], t[1], t[2]});
              else if (t.size() == 2) x = {t[0], t[1]};
              else if (t.size() == 1) x.assign({t[0]});
              else x.assign(t.begin(), t.end());
            } else {
              Temps t = build_all(vals, home[k]);
              if (t.size() == 3) x.assign({t[0], t[1], t[2]});
              else if (t.size() == 2) x = {t[0], t[1]};
              else if (t.size() == 1) x.assign({t[0]});
              else x.assign(t.begin(), t.end());
            }
            break;
          }
          default: {
            size_t n = vals.size();
            x.assign(n);  // n blank elements (reuse protocol)
            vals.assign(n, Tr::blank());
            break;
          }
        }
        m = vals;
        vfz::label("assign");
        check(k, "assign");
      } else if (op < 50) {
        // swap: equal allocators only (asserted by babylon)
        int o = k == 0 ? 1 : k == 1 ? 0 : -1;
        if (o < 0) continue;
        note("swap(v%d,v%d)/%u", k, o, form & 1);
        if (form & 1) x.swap(*v[o]);
        else swap(x, *v[o]);
        std::swap(m, model[o]);
        std::swap(cap_lb[k], cap_lb[o]);
        std::swap(cons_lb[k], cons_lb[o]);
        vfz::label("swap");
        check(k, "swap");
        check(o, "swap");
      } else if (op < 54) {
        int o = (k + form % NV) % NV;
        note("v%d = v%d (copy)", k, o);
        const Vec& src = *v[o];
        x = src;
        if (o != k) m = model[o];
        vfz::label(o == k ? "self_copy_assign" : home[o] == home[k] ? "copy_assign_same_allocator" : "copy_assign_other_allocator");
        check(k, "copy assignment");
        if (o != k) check(o, "copy assignment (source)");
      } else if (op < 58) {
        int o = (k + 1 + form % (NV - 1)) % NV;
        note("v%d = move(v%d)", k, o);
        bool same = home[o] == home[k];
        x = std::move(*v[o]);
        m = model[o];
        if (same) {
          // documented as an exchange of storage: the source receives what the target held
          std::swap(cap_lb[k], cap_lb[o]);
          std::swap(cons_lb[k], cons_lb[o]);
        }
        vfz::label(same ? "move_assign_same_allocator" : "move_assign_other_allocator");
        check(k, "move assignment", same);
        // the source is valid but unspecified: re-read it
        invariants(o, "move assignment (source)", same);
        model[o].clear();
        for (size_t i = 0; i < v[o]->size(); i++) model[o].push_back(Tr::read((*v[o])[i]));
        compare(o, "move assignment (source)");
      } else if (op < 61) {
        // copy / move construction
        unsigned f = form % 4;
        note("construct/%u from v%d", f, k);
        if (f == 0) {
          Vec c(x);
          if (c.size() != m.size()) failc("copy-constructed vector differs from its source");
          if constexpr (Tr::HAS_EQ) {
            if (!(c == x)) failc("copy-constructed vector does not compare equal to its source");
          }
          for (size_t i = 0; i < m.size(); i++)
            if (!Tr::eq(c[i], m[i])) failc("copy-constructed vector differs from the model at %zu", i);
        } else if (f == 1) {
          Vec c(x, alloc(1 - home[k]));
          for (size_t i = 0; i < m.size(); i++)
            if (c.size() != m.size() || !Tr::eq(c[i], m[i])) failc("copy-constructed (other allocator) vector differs from the model at %zu", i);
        } else if (f == 2) {
          Vec c(std::move(x));
          if (c.size() != m.size()) failc("move-constructed vector has %zu elements, expected %zu", c.size(), m.size());
          for (size_t i = 0; i < m.size(); i++)
            if (!Tr::eq(c[i], m[i])) failc("move-constructed vector differs from the model at %zu", i);
          if (!x.empty()) failc("moved-from vector (same allocator) is not empty");
          x = std::move(c);  // take the storage back
          invariants(k, "move construction round trip", true);
        } else {
          Vec c(std::move(x), alloc(1 - home[k]));
          for (size_t i = 0; i < m.size(); i++)
            if (c.size() != m.size() || !Tr::eq(c[i], m[i])) failc("move-constructed (other allocator) vector differs from the model at %zu", i);
          m.clear();
          for (size_t i = 0; i < x.size(); i++) m.push_back(Tr::read(x[i]));
        }
        vfz::label("construct_from");
        check(k, "construction from it");
      } else {
        // capacity metadata round trip: clear, extract, rebuild, replay the high-water contents on both
        note("v%d.metadata_roundtrip", k);
        Model before = m;
        Temps tmp = build_all(before, home[k]);
        x.clear();
        m.clear();
        typename Vec::AllocationMetadata meta;
        x.update_allocation_metadata(meta);
        size_t cons = x.constructed_size();
        {
          Vec y(meta, alloc(home[k]));
          if (!y.empty() || y.size() != 0) failc("a vector rebuilt from capacity metadata is not empty");
          if (y.capacity() < cons) failc("a vector rebuilt from capacity metadata has capacity %zu; the original kept %zu constructed elements", y.capacity(), cons);
          size_t u0 = used(home[k]);
          y.assign(tmp.begin(), tmp.end());
          size_t u1 = used(home[k]);
          if (u1 != u0) failc("replaying %zu elements that fitted before on the instance rebuilt from metadata took %zu new bytes", before.size(), u1 - u0);
          for (size_t i = 0; i < before.size(); i++)
            if (y.size() != before.size() || !Tr::eq(y[i], before[i])) failc("rebuilt vector differs from the model at %zu", i);
          // a second extraction from the rebuilt instance may not lose capacity either
          typename Vec::AllocationMetadata meta2;
          y.update_allocation_metadata(meta2);
          if (meta2.capacity < meta.capacity) failc("metadata capacity shrank across a round trip: %zu -> %zu", (size_t)meta.capacity, (size_t)meta2.capacity);
        }
        size_t u0 = used(home[k]);
        x.assign(tmp.begin(), tmp.end());
        m = before;
        if (used(home[k]) != u0) failc("refilling the cleared original took %zu new bytes", used(home[k]) - u0);
        vfz::label("metadata_roundtrip");
        check(k, "metadata round trip");
      }
    }
    for (int k = 0; k < NV; k++) check(k, "the end of the sequence");
    for (int k = 0; k < NV; k++) v[k].reset();
  }
};

template <class Tr>
void run_typed(vfz::Dec& d, std::string& desc, bool& nt) {
  ElemRegistry reg;
  g_reg = &reg;
  {
    Runner<Tr> r(d, desc);
    r.run();
    nt = r.nt;
    if (!reg.live.empty()) failc("%zu Elem objects are still alive after every vector was destroyed (constructed %ld, destroyed %ld)", reg.live.size(), reg.constructed, reg.destroyed);
  }
  g_reg = nullptr;
}

}  // namespace

// ASan / UBSan reports do not pass through vfz::fail: print the decoded case next to them
extern "C" void __asan_set_error_report_callback(void (*)(const char*));
static void vf_print_case_on_report(const char*) {
  if (g_desc) fprintf(stderr, "CASE: %s\n", g_desc->c_str());
}
extern "C" int LLVMFuzzerInitialize(int*, char***) {
  __asan_set_error_report_callback(&vf_print_case_on_report);
  return 0;
}

extern "C" int LLVMFuzzerTestOneInput(const uint8_t* data, size_t size) {
  vfz::begin_case(RULE);
  vfz::Dec d(data, size);
  std::string desc;
  g_desc = &desc;
  g_excluded_f8 = false;
  bool nt = false;
  unsigned ty = d.u8() % 8;
  switch (ty) {
    case 0: case 5: run_typed<IntTr>(d, desc, nt); vfz::label("elem_int"); break;
    case 1: case 6: run_typed<StrTr>(d, desc, nt); vfz::label("elem_string"); break;
    case 2: run_typed<NestTr>(d, desc, nt); vfz::label("elem_nested_vector"); break;
    case 3: case 7: run_typed<ElemTr>(d, desc, nt); vfz::label("elem_tracked"); break;
    default: run_typed<ProtoTr>(d, desc, nt); vfz::label("elem_protobuf"); break;
  }
  if (nt) vfz::nontrivial(vfz::hash_bytes(data, size), desc.substr(0, 400));
  g_desc = nullptr;
  return 0;
}
